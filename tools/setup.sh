#!/bin/sh
# Build the conformance harness offline against /repo (hooks on) and check that TLC starts.
set -e
cd "$(dirname "$0")/.."
export GOFLAGS=-mod=mod GOPROXY=off GOSUMDB=off GOTOOLCHAIN=local
mkdir -p out/bin evidence
cp /repo/go.sum harness/go.sum
(cd harness && go build -tags verif -o ../out/bin/vh ./cmd/vh)
tlc -h >/dev/null 2>&1 || true
echo setup ok
