#!/usr/bin/env python3
"""Regenerates MANIFEST.json from the table below (single place to edit)."""
import json, os
ROOT = os.path.dirname(os.path.dirname(os.path.abspath(__file__)))
ALL = ["C%02d" % i for i in range(1, 21)]

CHECKS = {
 "C08": dict(engine="fid", cat="model_checking", ref="5 C08",
   technique="TLA+ reference model (FidTable.tla) checked by TLC; its full labelled transition system replayed on the real session with state comparison after every step",
   text="TLC enumerates the complete state graph of the reference fid table (2 fids + NOFID, all FileSys outcomes) and checks its invariants; every transition of that graph is then executed on p9p.SFileSys over a scripted FileSys (edge cover + seeded random walks; thorough adds a 3-fid instance by simulation) and result, FileSys calls and the whole fid table are compared after every step. Bounded, exhaustive within the bounds.",
   note="Trusted: the transcription of the reference semantics into FidTable.tla, TLC, the probe-based projection of the fid table (Stat/Read/Write probes against a recording FileSys). Bounds: 2-3 fids, name lists of length <=3, 6 open modes."),
 "C13": dict(engine="fid", cat="model_checking", ref="5 C13",
   technique="TLA+ reference model with handle accounting (FidTable.tla: ReleaseExactlyOnce, UsesOnlyHeld, AfterStopNothingBound) checked by TLC; LTS replayed on the real session, release counters on real entry objects compared after every step",
   text="Same state graph as C08 with the failure alphabet on for every FileSys call and Stop reachable from every state; TLC checks the action properties 'an entry leaves the held set only in a step that releases it exactly once' and 'no call on an entry not held'; on the real code every entry object counts Clunk/Remove/consumption and uses after release, compared with the model's held set after every step and after Stop.",
   note="Trusted: scripted FileSys counting releases; contract reading that a successful Dirent.Create consumes the directory entry (as ramfs implements it). Bounds as C08."),
 "C06": dict(engine="server", cat="model_checking", ref="5 C06",
   technique="TLA+ implementation-shaped model of conn.serve (ServeImpl.tla) checked exhaustively by TLC (safety + liveness); TLC behaviours replayed as environment schedules on the real ServeConn; recorded event traces validated by TLC against ServeContract.tla",
   text="TLC explores every interleaving of reader, serve loop, handler goroutines and writer for 3-4 requests over 2 tags (with duplicates and flushes) and checks the contract ghost state (reply carries own tag and own handler's result, at most one reply, handler once, duplicates refused without disturbing the original) plus liveness 'every request answered'. The same contract is then evaluated by TLC on every event of traces recorded from the real ServeConn driven by schedules taken from TLC behaviours.",
   note="Trusted: ServeContract.tla as the reading of the property; the scripted handler/raw client that record events (global sequence under one mutex); TLC. A Go select among ready cases cannot be steered: schedules are repeated. Bounds: <=4 requests per model run, <=8 per recorded trace."),
 "C07": dict(engine="server", cat="model_checking", ref="5 C07",
   technique="same model as C06 (ServeImpl.tla) with the flush clauses of ServeContract.tla; TLC counterexample of the as-is model (stale completion) replayed repeatedly on the real code; TLC trace validation",
   text="All timings of Tflush relative to dispatch/completion and all reuses of the freed tag are explored by TLC on the model; the defect toggle FixStale=FALSE must make TLC find the stale-completion counterexample, which is replayed (24x/96x) on the real ServeConn together with seeded simulation schedules; every recorded trace is checked by TLC: no reply for a request after its flush was acknowledged, the tag's next user gets its own reply, the flushed handler's context is cancelled when Rflush is read, every flush gets one reply.",
   note="As C06. Handlers with odd ids ignore cancellation, even ids honour it."),
 "C11": dict(engine="server", cat="model_checking", ref="5 C11",
   technique="ServeImpl.tla with fault actions (read error/EOF, write failure after blocking, context cancel) checked by TLC for safety and liveness (shutdown ~> return, Stop once); fault schedules from TLC replayed on the real ServeConn; traces validated against ServeContract.tla; bounded-return watchdog with goroutine dump",
   text="TLC checks, for every point at which one fault of any kind can strike relative to <=3-4 in-flight requests, that the serve loop returns (liveness under weak fairness), that every in-flight handler context is then cancelled and that Stop runs exactly once after return. Schedules with faults (simulation + the liveness counterexample of the as-is model) are replayed on the real code: ServeConn must return within 5 s, else a goroutine dump of the parked serve loop is the evidence; recorded traces are validated by TLC (stop exactly once, in-flight contexts cancelled at return).",
   note="As C06. Mid-frame faults are injected as a truncated frame followed by EOF. The fid-release clause after Stop is checked by the fid engine (every history ends with Stop) and by the stop-race scenarios."),
 "C14": dict(engine="fid", cat="model_checking", ref="5 C14",
   technique="TLA+ model of the session's lock protocol (FidConc.tla) checked by TLC for mutual exclusion, deadlock freedom, no-lock-left and linearizability; concurrent histories recorded from the real session validated by TLC (FidLin.tla: linearization-point search against the sequential fid table)",
   text="TLC explores every interleaving of 2-3 concurrent session operations at the granularity of table lookup / Lock / FileSys enter / exit / bind / rollback and checks per-entry mutual exclusion, that some process can always move, that no returned process holds a lock and that the results are linearizable. On the real code seeded concurrent workloads (2-4 goroutines, yields inside FileSys calls) record invoke/return and FileSys enter/exit events; TLC validates each history (mutual exclusion invariant, linearizability by searching linearization points). Calls that never return / fids left locked are detected by watchdog + goroutine dump and by probing every fid at quiescence; the sequential LTS replay of the fid engine contributes its hang class; race detector in the thorough tier.",
   note="Trusted: FidLin.tla's sequential semantics, event stamping under one mutex, Go race detector. Interleavings on the real code are sampled, not enumerated (no lock-level hooks); the lock-level enumeration is on the model only."),
 "C20": dict(engine="cfs", cat="model_checking", ref="5 C20",
   technique="TLA+ model of the client file-system layer over an abstract 9P session (CFileSys.tla) checked by TLC; its complete LTS replayed on the real CFileSys over a spying session and the real server, with the issued session call and the server's bound-fid set compared after every step",
   text="TLC enumerates all reachable states of the entry/fid bookkeeping (fresh fids, live entries, server-bound set) for all name lists over the special forms and all server outcomes (complete / partial k / error) and checks: distinct fids per live entry, exactly the live entries' fids bound, steps sent are valid walk elements, normalisation idempotent. Every transition is executed on p9p.CFileSys(spy(p9p.SFileSys(scriptedFS))): the session call (method, fid, newfid, names) must be the model's, success is reported iff the server completed, the returned entry carries the walked-to qid, the real server's fid table equals the model's after each step and is empty after all entries are clunked.",
   note="Trusted: the normalisation transcribed into CFileSys.tla from the property text; the spy; direct Stat probes on the server session. Bounds: <=5 fid allocations, <=3 live entries per history."),
 "C01": dict(engine="wire", cat="exploration", ref="5 C01",
   technique="9P2000 wire layout transcribed from the manual into TLA+ (Wire9P.tla); TLC evaluates Encode on a boundary-dense vector set and exports the layout table; the real codec is compared byte-for-byte, both directions",
   text="The specification is used as a self-contained function with rich case analysis: TLC computes the expected bytes of ~500 message / stat vectors (every kind, every field and sub-field over its boundary values, distinct patterns per field so that swaps and width errors change the bytes) and the harness requires Marshal == bytes, Size == len(bytes), Unmarshal(bytes) == message and EncodeDir/DecodeDir likewise; values too long for TLC (65535-byte strings and stat records, 65535 list elements, 1 MiB data) are covered by seeded random messages encoded by an interpreter of the TLC-exported layout table, itself checked against TLC's bytes on every vector. Exploration driven by the model, not exhaustive.",
   note="Trusted: the manual transcription in Wire9P.tla; TLC's evaluation; the 60-line layout interpreter (bound to the spec on every enumerated vector)."),
 "C04": dict(engine="wire", cat="exploration", ref="5 C04",
   technique="hostile-input grammar derived from the TLA+ layout (Wire9P.Encode reports offset/width of every length and count field); real decoder run on every mutated input under recover with allocation measurement and re-encode stability check",
   text="For every spec vector the positions of all length/count fields come from the specification; each is replaced by boundary values, inputs are truncated at every point, extended, given illegal type bytes and combined (seeded); every input is decoded as a message and as a directory entry. Oracles are the three clauses of the property: no panic, TotalAlloc delta <= 4 MiB + 64 B per input byte, decode(encode(v)) == v on success. Exploration (tens of thousands of structured inputs), not a proof over all byte strings.",
   note="Trusted: allocation measurement via runtime.MemStats in a single goroutine. The family is structured (grammar-derived) plus 2000 random strings; it is not all byte strings up to msize."),
 "C02": dict(engine="chan", cat="exploration", ref="5 C02",
   technique="TLA+ model of channel writes (ChanWrite.tla) checked exhaustively by TLC on a scaled instance; its outcome function WOut evaluated by TLC on concrete (message, msize, context) tuples and compared with the bytes the real WriteFcall puts on a capturing connection",
   text="TLC proves on the scaled instance (msize 24..40, sizes up to 60, two writes and SetMSize per channel, 2.9 M states) that every emitted frame fits, shortened writes are exactly msize with a data prefix, lowered read counts make the reply fit and errors write nothing. For the real code TLC computes the expected outcome for each C01 vector (plus synthetic write sizes and read counts up to 2^32-1) at every msize within +-40/120 bytes of the message's frame size and at 24/65536/2^20, live and cancelled; the harness compares the exact frame bytes (Wire9P encoding of the shortened message) or requires zero bytes plus the exact excess, and that the caller's buffers are untouched.",
   note="Trusted: ChanWrite.tla as the reading of the property; Wire9P encodings as expected frames. msize is swept near each message's size and at anchors, not over all of [24, 2^20]; counts >= 2^31 are one symbolic class."),
 "C03": dict(engine="chan", cat="model_checking", ref="5 C03",
   technique="TLA+ model of frame reading (ChanRead.tla): TLC enumerates every sequence of <=3/4 frame classes with the prescribed outcome per read; each is concretised and replayed through the real ReadFcall over a scripted chunking connection",
   text="The spec fixes, per frame class (valid of any kind, read request to be clamped, exact fit, oversize by k, undecodable, inner length beyond body, body short by k, impossible prefix 0..4, stream cut), what a read must yield and that later frames are unaffected. TLC enumerates all sequences; the harness builds the byte streams relative to 3 msize values, feeds them in 4 chunkings and compares every ReadFcall result (decoded message equality, exact overflow, error and no panic). Frame isolation is tested because each class appears after every other class.",
   note="Trusted: the concretisation of classes in the harness (engines/chanr.go). Bounded: <=4 frames per stream, 3 msize values."),
 "C10": dict(engine="chan", cat="model_checking", ref="5 C10",
   technique="TLA+ model of the version handshake (Negotiate.tla) checked exhaustively on a scaled instance; decisions NegServer / NegClient evaluated by TLC at the real parameters and compared with the real ServeConn and CSession, followed by maximal-size traffic with every frame tapped",
   text="TLC checks for all offers 0..63 against a server maximum of 40 that the server never answers more than proposed or than its maximum, the client never adopts more than it proposed, both agree against an honest peer and nothing is dispatched before acceptance. At the real parameters TLC computes the expected answer / adopted msize for a boundary-dense list; the harness negotiates with the real server (every first-message kind, 4 version strings) and the real client, then checks exact-msize frames are accepted, msize+1 refused, read counts lowered, 1 MiB writes leave as exactly msize, and no tapped frame exceeds the agreed msize.",
   note="Trusted: Negotiate.tla; frame tap on the in-memory connection. Both real ends are also run against each other at msize 24..65535 by rewriting the client's Tversion on the wire."),
 "C05": dict(engine="client", cat="model_checking", ref="5 C05",
   technique="TLA+ implementation-shaped model of the client transport incl. a literal allocateTag over a tiny tag space (ClientImpl.tla) checked by TLC; TLC behaviours replayed as caller/peer schedules on the real CSession; recorded traces validated by TLC against ClientTrace.tla; true-width tag wrap scenario",
   text="TLC explores every interleaving of 3-4 calls, the handle loop, the reader and a peer answering in any order (tag space of 2-3 tags, so wrap-around, skipping of in-use tags and pool depletion are reached) and checks: a call is handed only the answer to its own request, tags awaiting a reply (incl. abandoned calls) are distinct and never NOTAG. On the real code the peer is scripted: all 24 reply orders of 4 concurrent callers, simulation schedules with abandoned calls, and >65535 sequential calls with 3 calls parked across the wrap; each call carries its id in the fid and each reply names the request it answers, so cross-delivery is visible; TLC validates every recorded trace.",
   note="Trusted: ClientTrace.tla, the scripted peer, event stamping under one mutex. Data-race freedom: not decided by the spec; the race-detector run is part of the thorough tier of C14/C09 only."),
 "C12": dict(engine="client", cat="model_checking", ref="5 C12",
   technique="ClientImpl.tla with connection failure, session cancel, per-call cancel and a misbehaving peer (unsolicited, repeated-tag, wrong-typed replies) checked by TLC (safety + liveness 'down ~> all calls return'); fault schedules replayed on the real CSession in-process with crash detection; traces validated by TLC",
   text="TLC checks that no peer behaviour reaches a crashed state (the as-is model with FixUnknown=FALSE must reach it: vacuity guard) and that once the connection is down every started and later call returns. Schedules from TLC (incl. the as-is counterexample) run against the real client with 6 fault kinds (peer close, read error, impossible length prefix, undecodable frame, stream cut mid-frame, session context cancel), unsolicited / repeated-tag / wrong-typed replies and per-call cancels; a harness crash with a p9p stack is a violation, a call not returning within 5 s is a violation with the goroutine dump, and TLC validates the traces (wrong-typed reply => error, ctx error only after cancel, no spurious failures).",
   note="Trusted: as C05. Each batch runs in one process: the first crash ends the batch (the crash is the verdict). Write-deadline scenarios (peer stops reading) are not exercised."),
 "C16": dict(engine="path", cat="exploration", ref="5 C16",
   technique="path helpers specified in TLA+ by stepwise resolution on component sequences (PathRes.tla); TLC checks the lemmas (canonical, never above root, idempotent, agreement) over the bounded input space and emits the expected result of every input; the real helpers are compared on all of them",
   text="A pure function with rich case analysis, transcribed from the property text. TLC enumerates every canonical directory of depth <=3 over {a,b} and every name list of length <=3/4 over a 12-symbol alphabet containing all special forms, proves the spec-level lemmas on that space and prints Valid / Normalize / WalkName / CreateName results; the harness requires the real ValidPath, NormalizePath (also: argument not modified, idempotent), WalkName and CreateName to agree on every one. Exhaustive within alphabet and bounds.",
   note="Trusted: PathRes.tla. Separator detection is by membership in the alphabet's separator-bearing names ('a/b', 'a\\b', '/'), not over all strings. ToWalk is not covered."),
 "C17": dict(engine="readdir", cat="model_checking", ref="5 C17",
   technique="TLA+ reference model of directory reading (Readdir.tla) checked by TLC; its complete LTS replayed on the real p9p.Readdir (directly and via Session.Read on a directory fid) with the returned bytes compared; client-side listing over a real connection at forced msizes",
   text="TLC enumerates all listings of <=3/4 entries over 3/4 sizes, all partitions into iterator batches, all sequences of reads (sizes >= largest entry) incl. reads at wrong offsets, and checks offset = size of the delivered prefix, progress, whole entries within the requested size, empty reads at the end. Every transition is executed on the real Readdir and through an SFileSys session; the bytes must be the concatenated encodings of exactly the predicted entries. The client half lists 0..80-entry directories through CFileSys over ServeConn at msize = largest+11, +12, ... 65536 and must obtain exactly the server's entries.",
   note="Trusted: Readdir.tla; the codec for the expected encodings (decided by C01). Bounds: <=4 entries in the LTS; longer listings only in the seeded client half."),
 "C18": dict(engine="ramfs", cat="model_checking", ref="5 C18",
   technique="TLA+ reference model of ramfs as a tree of byte arrays with handles and parent chains (RamFS.tla) checked by TLC; its LTS (exhaustive small instance) and TLC-simulated behaviours (two sessions) replayed on the real ramfs behind SFileSys with full tree comparison; concurrent sessions under the race detector",
   text="TLC checks tree shape, leaf files, live handles for every interleaving (at operation granularity) of attach/walk incl. '..'/create/open/read/write/truncate/list/remove/clunk by 1-2 sessions, with symbolic 64-bit offsets. Every emitted transition is executed on a fresh ramfs server: result class, bytes read, listing, walk qid, the whole live tree (hook VerifTree) and the node each fid denotes are compared after each step; nref = parent links (hook VerifValidate) whenever no fid is bound and at the end of each history; any panic is a violation. Truly concurrent sessions run 30-150 rounds (no panic, final refcounts) and, thorough, under the Go race detector.",
   note="Trusted: RamFS.tla; the verif-tagged hooks in ramfs/verif_on.go (read-only views + fresh server). Concurrency is not checked for linearizability against the model (operation-granularity interleavings are covered by the two-session model runs executed sequentially)."),
 "C15": dict(engine="ufs", cat="model_checking", ref="5 C15",
   technique="TLA+ model of the host file server with a hostile name alphabet (HostFS.tla: invariant Inside / RootStays) checked by TLC; TLC-simulated request sequences replayed on ufs behind SFileSys in a sandbox whose outside is snapshotted after every request",
   text="TLC checks on the model that every path a validated request touches is a sequence of ordinary names below the root and that the root survives (268 k states). The same model, with names '', '.', '..', 'a/b', '/', '/etc', 'a\\b', '../x' and '..' chains longer than the depth in walk, create and rename, generates seeded request sequences that are replayed on ufs.NewServer(T/export); an oracle that does not depend on the model compares everything under T outside the export (sentinel dir, prefix-sibling 'export-evil', sibling 'a' and 'etc', T's entry list) and the export root's inode after every request.",
   note="Trusted: the sandbox snapshot. Runs as root. Symbolic links are out of scope (as stated). Sequences are sampled by TLC simulation (400/5000 behaviours of depth 45), not enumerated."),
 "C19": dict(engine="ufs", cat="model_checking", ref="5 C19",
   technique="HostFS.tla (POSIX-like tree with inodes and open descriptors) checked by TLC and used to generate request sequences; three-way replay: ufs behind SFileSys, equivalent direct OS calls on a twin directory (the oracle), and the model",
   text="Each model step (create, mkdir, open r/w/rw +- truncate, read, write at offsets incl. beyond the end, truncate, chmod, rename, remove, clunk, walk) is executed through a ufs session and as the equivalent os call on a twin directory; after every step the two host trees must be equal (names, kinds, contents, permission bits), data read through the fid must equal the twin file's data at that offset, and stat / listing through freshly walked fids must match os.Stat / os.ReadDir of the twin. Model-vs-twin disagreement is reported as model_drift only.",
   note="Trusted: the twin mapping of requests to OS calls in engines/ufs.go. Operations on fids whose path another fid removed / renamed / re-created are not generated (no equivalent OS operation is defined for a dangling fid). Runs as root with umask 0: permission denials are not exercised."),
 "C09": dict(engine="stack", cat="model_checking", ref="5 C09",
   technique="TLA+ model of the five client/server loops over two bounded pipes (Pipeline.tla) checked by TLC for circular waits, with the coupled-write toggle; per-method mapping with wire limits (CallMap.tla) evaluated by TLC into vectors; both bound to the real CSession <-> ServeConn(SSession(S)) stack with a recording session",
   text="Pipeline.tla shows by exhaustive search that the as-is design deadlocks exactly when N >= 5 + 2K calls are in flight over pipes buffering K messages and that a separate client writer removes the cycle; CallMap.tla states what S must see and the caller must get incl. the read/write clipping at msize-11 / msize-23, EOF and short-write conventions, the 16-name walk limit, 64-bit offsets, second-granular times and errors by text. The harness runs 1527 vectors through the real stack comparing S's recorded arguments and the caller's results exactly, then 2..32 concurrent callers (own result each, all complete) over a 1 MiB pipe and 4 over an unbuffered one, and replays the model's counterexample (16 callers, unbuffered) which reproduces the known finding.",
   note="Trusted: CallMap.tla as the reading of 'documented wire limits'; the recording session. Known finding (not repaired): coupled-write-cycle, see KNOWN_FINDINGS.txt. Race detector on the stack in the thorough tier."),
}

NA_REASON = "check not built yet in this round; planned per DESIGN.md section 5 (specification exists or is planned, no verdict is claimed)"

def main():
    checks = []
    for pid in ALL:
        c = CHECKS.get(pid)
        if not c:
            continue
        checks.append({
            "property_id": pid,
            "quick_cmd": "./vcheck %s quick" % pid,
            "thorough_cmd": "./vcheck %s thorough" % pid,
            "evidence_file": "/verif/evidence/%s.json" % pid,
            "replay_cmd_template": "./vcheck --replay {path}",
            "engine": c["engine"],
            "level_claimed": {"category": c["cat"], "text": c["text"], "design_ref": "DESIGN.md section " + c["ref"]},
            "level_note": c["note"],
            "technique": c["technique"],
        })
    engines = {}
    for pid, c in CHECKS.items():
        engines.setdefault(c["engine"], []).append(pid)
    m = {
        "version": 1,
        "setup_cmd": "sh tools/setup.sh",
        "hooks": {
            "guard": "verif",
            "enable": "go build -tags verif (harness module /verif/harness with replace github.com/frobnitzem/go-p9p => /repo)",
            "baseline_off_cmd": "cd /repo && GOPROXY=off GOSUMDB=off GOTOOLCHAIN=local go test -json -vet=off -count=1 -timeout 25m ./...",
            "source_commits": ["a0fcae6 verif hook: ramfs.NewTestServer, VerifValidate, VerifTree (new file ramfs/verif_on.go, //go:build verif)"],
            "add_only": True,
        },
        "engines": [{"name": e, "path": "specs/%s + harness/engines" % e, "serves_properties": sorted(p),
                     "kind_free_text": "TLA+ spec checked by TLC, bound to the code by replay / trace validation"} for e, p in sorted(engines.items())],
        "checks": checks,
        "not_applicable": [{"property_id": p, "reason": NA_REASON} for p in ALL if p not in CHECKS],
        "notes": "All checks: ./vcheck <id> <quick|thorough>; exit 0 held, 1 VIOLATION (real code), 2 inconclusive. See DESIGN.md.",
    }
    with open(os.path.join(ROOT, "MANIFEST.json"), "w") as f:
        json.dump(m, f, indent=1)
        f.write("\n")

main()
