"""Shared plumbing for the go-p9p model-based checks (stdlib only).

  * TLC / Apalache runners (timeout, private -metadir, scratch copy of the spec dir)
  * harness builder (Go module /verif/harness built against /repo's working tree, -tags verif)
  * evidence writer, known-findings matcher, verdict printing

Exit codes of a check: 0 held, 1 real-code violation (VIOLATION line), 2 inconclusive
(tool failure, timeout, spec-level counterexample that was not reproduced on the code).
"""
import json, os, re, shutil, subprocess, sys, tempfile, time

ROOT = os.path.dirname(os.path.dirname(os.path.abspath(__file__)))
OUT = os.path.join(ROOT, "out")
SPECS = os.path.join(ROOT, "specs")
HARNESS = os.path.join(ROOT, "harness")
EVID = os.path.join(ROOT, "evidence")
REPO = os.environ.get("VERIF_REPO", "/repo")
KNOWN = os.path.join(ROOT, "KNOWN_FINDINGS.txt")
NCPU = os.cpu_count() or 4


class Inconclusive(Exception):
    pass


def seed():
    try:
        return int(os.environ.get("VERIF_SEED", "1"))
    except ValueError:
        return 1


def goenv():
    e = dict(os.environ)
    e.update(GOFLAGS="-mod=mod", GOPROXY="off", GOSUMDB="off", GOTOOLCHAIN="local")
    e.setdefault("GOCACHE", os.path.join(os.path.expanduser("~"), ".cache", "go-build"))
    return e


def run(cmd, timeout=None, cwd=None, env=None, stdin=None, check=False):
    t0 = time.time()
    try:
        p = subprocess.run(cmd, cwd=cwd, env=env, input=stdin, timeout=timeout,
                           stdout=subprocess.PIPE, stderr=subprocess.STDOUT, text=True)
    except subprocess.TimeoutExpired as ex:
        out = ex.stdout or ""
        if isinstance(out, bytes):
            out = out.decode("utf-8", "replace")
        raise Inconclusive("timeout after %ss: %s\n%s" % (timeout, " ".join(map(str, cmd))[:200], out[-2000:]))
    if check and p.returncode != 0:
        raise Inconclusive("command failed (%d): %s\n%s" % (p.returncode, " ".join(map(str, cmd))[:300], p.stdout[-4000:]))
    return p.returncode, p.stdout, time.time() - t0


_built = {}


def build_harness(race=False):
    """(Re)build the harness binary from /repo's current working tree."""
    key = "race" if race else "plain"
    if key in _built:
        return _built[key]
    os.makedirs(os.path.join(OUT, "bin"), exist_ok=True)
    # go.sum of the replaced module is needed offline
    try:
        shutil.copyfile(os.path.join(REPO, "go.sum"), os.path.join(HARNESS, "go.sum"))
    except OSError:
        pass
    binp = os.path.join(OUT, "bin", "vh-race" if race else "vh")
    cmd = ["go", "build", "-tags", "verif", "-o", binp]
    if race:
        cmd.append("-race")
    cmd.append("./cmd/vh")
    rc, out, _ = run(cmd, timeout=900, cwd=HARNESS, env=goenv())
    if rc != 0:
        raise Inconclusive("harness build failed against %s:\n%s" % (REPO, out[-6000:]))
    _built[key] = binp
    return binp


def harness(args, timeout=600, race=False, env_extra=None, ok_codes=(0,), allow_crash=False):
    """Run the harness; it writes a JSON result document to the path given with -out."""
    binp = build_harness(race)
    os.makedirs(os.path.join(OUT, "res"), exist_ok=True)
    fd, resp = tempfile.mkstemp(prefix="res-", suffix=".json", dir=os.path.join(OUT, "res"))
    os.close(fd)
    env = dict(os.environ)
    env["VERIF_SEED"] = str(seed())
    env["VH_BUDGET"] = str(max(30, int(timeout) - 60))
    if env_extra:
        env.update(env_extra)
    rc, out, wall = run([binp] + list(args) + ["-out", resp], timeout=timeout, env=env, cwd=ROOT)
    try:
        with open(resp) as f:
            txt = f.read()
        doc = json.loads(txt) if txt.strip() else None
    except (OSError, ValueError):
        doc = None
    finally:
        try:
            os.unlink(resp)
        except OSError:
            pass
    if rc == 3 and doc is not None and doc.get("extra", {}).get("budget_exhausted"):
        # the harness ran out of its time budget: violations it had already observed stand (they are real-code
        # behaviour); without any, nothing can be concluded
        real = [v for v in doc.get("violations") or [] if v.get("tag") != "harness"]
        if not real:
            raise Inconclusive("harness %s exhausted its time budget (%ss) without a verdict\n%s" % (args[:3], env["VH_BUDGET"], out[-3000:]))
        doc["_stdout"] = out
        doc["_wall"] = wall
        return doc
    if allow_crash and (doc is None or rc not in ok_codes):
        return {"crashed": True, "rc": rc, "_stdout": out, "_wall": wall}
    if doc is None or rc not in ok_codes:
        raise Inconclusive("harness %s failed rc=%s\n%s" % (args[:3], rc, out[-6000:]))
    doc["_stdout"] = out
    doc["_wall"] = wall
    return doc


class TLCResult:
    def __init__(self):
        self.rc = None
        self.out = ""
        self.generated = 0
        self.distinct = 0
        self.depth = 0
        self.ok = False
        self.violation = None      # name of violated invariant / property / "deadlock"
        self.printed = []          # decoded PrintT JSON strings
        self.nprinted = 0
        self.wall = 0.0
        self.trace_json = None

    def summary(self):
        return {"generated": self.generated, "distinct": self.distinct, "depth": self.depth,
                "ok": self.ok, "violation": self.violation, "wall_s": round(self.wall, 2)}


_RE_STATES = re.compile(r"(\d+) states generated, (\d+) distinct states found")
_RE_DEPTH = re.compile(r"The depth of the complete state graph search is (\d+)")
_RE_INV = re.compile(r"Error: Invariant (\S+) is violated")
_RE_ACTP = re.compile(r"Error: Action property (\S+) is violated")
_RE_TEMP = re.compile(r"Error: Temporal propert(?:ies were|y (\S+) was) violated")
_RE_SIM = re.compile(r"The number of states generated: (\d+)")


def tlc(engine, module, cfg, workers=None, timeout=600, simulate=None, depth=None, extra=None,
        env_extra=None, files=None, want_printed=False, printed_to=None, dump_trace=False, deadlock_default=None, javaopts=None):
    """Run TLC on specs/<engine>/<module>.tla with <cfg> in a scratch copy of the spec dir.
    files: {name: text} extra files (e.g. recorded traces) written into the scratch dir."""
    src = os.path.join(SPECS, engine)
    os.makedirs(OUT, exist_ok=True)
    work = tempfile.mkdtemp(prefix="tlc-%s-" % module, dir=OUT)
    res = TLCResult()
    try:
        for fn in os.listdir(src):
            if fn.endswith((".tla", ".cfg")):
                shutil.copy(os.path.join(src, fn), work)
        # shared modules
        common = os.path.join(SPECS, "common")
        if os.path.isdir(common):
            for fn in os.listdir(common):
                if fn.endswith(".tla") and not os.path.exists(os.path.join(work, fn)):
                    shutil.copy(os.path.join(common, fn), work)
        for name, text in (files or {}).items():
            with open(os.path.join(work, name), "w") as f:
                f.write(text)
        w = str(workers if workers else min(NCPU, 16))
        cmd = ["timeout", str(int(timeout)), "tlc", "-workers", w, "-metadir", os.path.join(work, "md"),
               "-config", cfg]
        if simulate:
            cmd += ["-simulate", simulate]
        if depth:
            cmd += ["-depth", str(depth)]
        if dump_trace:
            cmd += ["-dumpTrace", "json", os.path.join(work, "cex.json")]
        cmd += list(extra or [])
        cmd.append(module + ".tla")
        env = dict(os.environ)
        # TLC unpacks its standard modules into java.io.tmpdir on every run: keep that inside the scratch directory
        jtmp = os.path.join(work, "jtmp")
        os.makedirs(jtmp, exist_ok=True)
        env["JAVA_TOOL_OPTIONS"] = ((javaopts + " ") if javaopts else "") + "-Djava.io.tmpdir=" + jtmp
        if env_extra:
            env.update(env_extra)
        t0 = time.time()
        # stream the output: PrintT'ed JSON lines go to a list or straight to a file, the rest is kept (bounded)
        pf = open(printed_to, "w") if printed_to else None
        head, tail, nprinted = [], [], 0
        p = subprocess.Popen(cmd, cwd=work, env=env, stdout=subprocess.PIPE, stderr=subprocess.STDOUT, text=True, bufsize=1 << 20)
        for line in p.stdout:
            if (want_printed or pf) and (line.startswith('"{') or line.startswith('"[')):
                try:
                    dec = json.loads(line)
                except ValueError:
                    dec = None
                if dec is not None:
                    nprinted += 1
                    if pf:
                        pf.write(dec + "\n")
                    else:
                        res.printed.append(json.loads(dec))
                    continue
            line = line.rstrip("\n")
            if len(head) < 400:
                head.append(line)
            else:
                tail.append(line)
                if len(tail) > 6000:
                    del tail[:2000]
        p.wait()
        if pf:
            pf.close()
        res.nprinted = nprinted
        res.wall = time.time() - t0
        res.rc = p.returncode
        out = "\n".join(head + tail)
        res.out = out
        m = None
        for m in _RE_STATES.finditer(out):
            pass
        if m:
            res.generated, res.distinct = int(m.group(1)), int(m.group(2))
        else:
            m = _RE_SIM.search(out)
            if m:
                res.generated = int(m.group(1))
        m = _RE_DEPTH.search(out)
        if m:
            res.depth = int(m.group(1))
        m = _RE_INV.search(out) or _RE_ACTP.search(out)
        if m:
            res.violation = m.group(1)
        elif _RE_TEMP.search(out):
            res.violation = _RE_TEMP.search(out).group(1) or "temporal"
        elif re.search(r"Error: Postcondition (\S+) .*is false", out):
            res.violation = "postcondition:" + re.search(r"Error: Postcondition (\S+) ", out).group(1)
        elif "Error: Deadlock reached" in out:
            res.violation = "deadlock"
        elif "is violated" in out and "Error:" in out:
            res.violation = "property"
        if dump_trace and os.path.exists(os.path.join(work, "cex.json")):
            try:
                with open(os.path.join(work, "cex.json")) as f:
                    res.trace_json = json.load(f)
            except ValueError:
                pass
        if p.returncode == 124:
            raise Inconclusive("TLC timeout (%ss) on %s/%s %s" % (timeout, engine, module, cfg))
        res.ok = (p.returncode == 0 and res.violation is None and
                  ("No error has been found" in out or "Finished in" in out or simulate is not None))
        if not res.ok and res.violation is None:
            raise Inconclusive("TLC failed on %s/%s %s rc=%s\n%s" % (engine, module, cfg, p.returncode, out[-5000:]))
        return res
    finally:
        shutil.rmtree(work, ignore_errors=True)


def apalache(engine, module, inv, length=0, timeout=300, extra=None):
    src = os.path.join(SPECS, engine)
    work = tempfile.mkdtemp(prefix="apa-%s-" % module, dir=OUT)
    try:
        for fn in os.listdir(src):
            if fn.endswith(".tla"):
                shutil.copy(os.path.join(src, fn), work)
        cmd = ["timeout", str(int(timeout)), "apalache-mc", "check", "--length=%d" % length, "--inv=%s" % inv,
               "--out-dir=" + os.path.join(work, "o"), "--run-dir=" + os.path.join(work, "r")] + list(extra or []) + [module + ".tla"]
        t0 = time.time()
        p = subprocess.run(cmd, cwd=work, stdout=subprocess.PIPE, stderr=subprocess.STDOUT, text=True)
        ok = p.returncode == 0 and "The outcome is: NoError" in p.stdout
        return ok, p.stdout, time.time() - t0
    finally:
        shutil.rmtree(work, ignore_errors=True)


# ---------------------------------------------------------------- findings / verdict

def load_known():
    known = []
    try:
        with open(KNOWN) as f:
            for line in f:
                line = line.strip()
                m = re.match(r"known:\s+property=(\S+)\s+sig=(\S+)\s+(.*)", line)
                if m:
                    known.append({"property": m.group(1), "sig": m.group(2), "text": m.group(3)})
    except OSError:
        pass
    return known


def save_replay(pid, sig, doc):
    d = os.path.join(OUT, "replay")
    os.makedirs(d, exist_ok=True)
    name = "%s-%s.json" % (pid, re.sub(r"[^A-Za-z0-9_.-]+", "_", sig)[:80])
    path = os.path.join(d, name)
    with open(path, "w") as f:
        json.dump(doc, f, indent=1, default=str)
    return path


class Check:
    """Collects coverage and violations of one property run and renders the verdict."""

    def __init__(self, pid, tier, level):
        self.pid, self.tier, self.level = pid, tier, level
        self.t0 = time.time()
        self.cov = {}
        self.assumptions = []
        self.violations = []   # {sig, detail, replay(doc)}
        self.notes = []

    def add_cov(self, **kw):
        for k, v in kw.items():
            if isinstance(v, int) and isinstance(self.cov.get(k), int) and k not in ("exhaustive",):
                self.cov[k] += v
            elif isinstance(v, list) and isinstance(self.cov.get(k), list):
                self.cov[k] = (self.cov[k] + v)[:12]
            else:
                self.cov[k] = v

    def violation(self, sig, detail, replay=None):
        self.violations.append({"sig": sig, "detail": detail, "replay": replay})

    def take(self, doc, prefix=""):
        """Merge a harness result document."""
        self.add_cov(evaluations=int(doc.get("evaluations", 0)),
                     distinct_nontrivial=int(doc.get("distinct", 0)))
        if doc.get("samples"):
            self.add_cov(samples=doc["samples"][:6])
        for k, v in (doc.get("extra") or {}).items():
            self.add_cov(**{prefix + k: v})
        for v in doc.get("violations") or []:
            self.violation(v.get("sig", "unspecified"), v.get("detail", ""), v.get("replay"))
        for d in doc.get("drift") or []:
            self.cov.setdefault("model_drift", [])
            if len(self.cov["model_drift"]) < 10:
                self.cov["model_drift"].append(d)

    def finish(self):
        known = [k for k in load_known() if k["property"] == self.pid]
        new, seen_known = [], {}
        for v in self.violations:
            hit = None
            for k in known:
                if v["sig"] == k["sig"] or v["sig"].startswith(k["sig"] + ":"):
                    hit = k
                    break
            if hit:
                seen_known.setdefault(hit["sig"], (hit, v))
            else:
                new.append(v)
        wall = time.time() - self.t0
        cov = dict(self.cov)
        cov.setdefault("samples", ["(none)"])
        if self.notes:
            cov["notes"] = self.notes
        cov["known_findings_reproduced"] = sorted(seen_known)
        ev = {"property_id": self.pid, "tier": self.tier, "seed": seed(), "level": self.level,
              "coverage": cov, "assumptions": self.assumptions, "wall_s": round(wall, 2),
              "violations": len(new)}
        os.makedirs(EVID, exist_ok=True)
        with open(os.path.join(EVID, self.pid + ".json"), "w") as f:
            json.dump(ev, f, indent=1, default=str)
        for sig, (k, v) in sorted(seen_known.items()):
            print("KNOWN-FINDING: property=%s sig=%s %s" % (self.pid, sig, k["text"]))
        shown = set()
        for v in new:
            if v["sig"] in shown:
                continue
            shown.add(v["sig"])
            path = save_replay(self.pid, v["sig"], {"property": self.pid, "sig": v["sig"], "detail": v["detail"],
                                                    "replay": v["replay"], "seed": seed(), "tier": self.tier})
            print("VIOLATION property=%s replay=%s" % (self.pid, path))
            print("  sig=%s %s" % (v["sig"], str(v["detail"])[:600]))
        print("%s %s: %s  (%.1fs, evidence evidence/%s.json)" % (
            self.pid, self.tier, "FAIL" if new else "ok", wall, self.pid))
        return 1 if new else 0


def goal_lts(engine, module, cfg, view, path, workers=8, timeout=900):
    """Model-based test generation: cfg states `Never<Goal>` as an invariant; TLC refutes it and the counterexample -
    the shortest behaviour into the situation - is written as LTS edges <<View, last', View', level>> (the format the
    Emit action constraint prints), so that the replay engines execute it like any other part of the LTS.
    view: the variables of the specification's VIEW, in order; the output variable is `last`."""
    r = tlc(engine, module, cfg, workers=workers, timeout=timeout, dump_trace=True)
    if r.violation is None or not r.trace_json:
        raise Inconclusive("goal config %s: TLC did not reach the goal (vacuity guard failed)\n%s" % (cfg, r.out[-1500:]))
    states = [st[1] for st in r.trace_json["counterexample"]["state"]]
    with open(path, "w") as f:
        for k in range(len(states) - 1):
            a, b = states[k], states[k + 1]
            f.write(json.dumps([[a[v] for v in view], b["last"], [b[v] for v in view], k + 1]) + "\n")
    return r, len(states) - 1


def apalache(engine, module, args, timeout=600):
    """Run apalache-mc check on specs/<engine>/<module>.tla in a scratch copy; returns (ok, error_found, tail)."""
    src = os.path.join(SPECS, engine)
    work = tempfile.mkdtemp(prefix="apa-%s-" % module, dir=OUT)
    try:
        for fn in os.listdir(src):
            if fn.endswith(".tla"):
                shutil.copy(os.path.join(src, fn), work)
        cmd = ["timeout", str(int(timeout)), "apalache-mc", "check"] + list(args) + [module + ".tla"]
        p = subprocess.run(cmd, cwd=work, stdout=subprocess.PIPE, stderr=subprocess.STDOUT, text=True)
        out = p.stdout[-3000:]
        return ("The outcome is: NoError" in out, "Checker has found an error" in out, out)
    finally:
        shutil.rmtree(work, ignore_errors=True)

