#!/bin/sh
# usage: mut.sh <file> <python-regex-old> <new> -- <command...>   (dev helper: apply a one-line mutation to /repo, run, revert)
f=$1; old=$2; new=$3; shift 4
cd /repo && python3 - "$f" "$old" "$new" <<'PY'
import sys,re
f,old,new=sys.argv[1:4]
s=open(f).read()
n=s.count(old)
assert n>=1, "pattern not found"
s=s.replace(old,new,1)
open(f,'w').write(s)
PY
[ $? -eq 0 ] || exit 9
cd /verif && "$@"; rc=$?
git -C /repo checkout -- . ; exit $rc
