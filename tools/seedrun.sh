#!/bin/sh
# seedrun.sh <seeded-id> [tier] [property]  -- apply seeded/<id>/patch.diff to /repo, run the property's check, undo.
set -u
ID=$1; TIER=${2:-quick}; P=${3:-${ID%%-*}}
export GOPROXY=off GOSUMDB=off GOTOOLCHAIN=local
git -C /repo apply /verif/seeded/$ID/patch.diff || { echo "SEEDRUN $ID apply-failed"; exit 0; }
OUT=$(cd /verif && ./vcheck $P $TIER 2>&1); rc=$?
git -C /repo checkout -- .
sigs=$(echo "$OUT" | grep -E '^\s+sig=' | sed -E 's/^\s+sig=([^ ]+).*/\1/' | sort -u | tr '\n' ',' | cut -c1-300)
case $rc in 1) res=caught ;; 0) res=missed ;; *) res="inconclusive($(echo "$OUT" | grep -m1 INCONCLUSIVE | cut -c1-200))" ;; esac
echo "SEEDRUN $ID $P $TIER $res sigs=$sigs"
