"""vcheck --replay <file>: re-establish a reported violation.

A replay file (out/replay/<id>-<sig>.json) holds the property, the signature of the
violation, the seed and tier of the run that found it and the concrete failing case
(history / scenario / input / trace).  Replaying re-runs that property's check with the
same seed and tier against /repo's current tree and reports whether a violation with
the same signature occurs again (exit 1) or not (exit 0).  The concrete case stored in
the file is printed so that it can be inspected or turned into a unit test."""
import json, os, subprocess, sys

ROOT = os.path.dirname(os.path.dirname(os.path.abspath(__file__)))


def main(path):
    with open(path) as f:
        doc = json.load(f)
    pid, sig = doc["property"], doc["sig"]
    print("replay: property=%s sig=%s seed=%s tier=%s" % (pid, sig, doc.get("seed"), doc.get("tier")))
    print("recorded detail: %s" % str(doc.get("detail"))[:1500])
    case = doc.get("replay")
    if case is not None:
        print("recorded case: %s" % json.dumps(case)[:3000])
    env = dict(os.environ)
    env["VERIF_SEED"] = str(doc.get("seed", 1))
    p = subprocess.run([os.path.join(ROOT, "vcheck"), pid, doc.get("tier", "quick")], cwd=ROOT, env=env,
                       stdout=subprocess.PIPE, stderr=subprocess.STDOUT, text=True)
    again = [ln for ln in p.stdout.splitlines() if ln.strip().startswith("sig=")]
    same = [ln for ln in again if ln.strip().startswith("sig=" + sig + " ") or ln.strip() == "sig=" + sig]
    if same:
        print("REPRODUCED: %s" % same[0].strip()[:600])
        return 1
    if p.returncode == 1:
        print("NOT REPRODUCED with this signature; the check reports other violations:")
        for ln in again[:5]:
            print("  " + ln.strip()[:300])
        return 1
    print("NOT REPRODUCED: the check passes on the current tree (exit %d)" % p.returncode)
    return 0 if p.returncode == 0 else 2
