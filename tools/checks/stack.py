"""Engine stack (C09): CallMap.tla (per-method mapping incl. wire limits) + Pipeline.tla (five loops over two pipes)."""
import os
import vlib
from vlib import Check, tlc, harness, OUT


def c09(tier):
    ck = Check("C09", tier, "model_checking")
    q = tier == "quick"
    ck.assumptions = ["S is a recording session with scripted results; equality of what S saw / what the caller got is exact except: times to whole seconds, "
                      "empty slice == nil, a zero-length read result == io.EOF, errors compared by text (Ename)",
                      "msize is the default 65536 (both ends are the library's own); sizes around msize-11 / msize-23 and 1 MiB",
                      "concurrency: handlers answer at once; pipe capacity 1 byte (unbuffered) or 1 MiB"]
    runs = []
    for cfg, expect in (("Pipeline_asis_ok.cfg", None), ("Pipeline_asis_dl.cfg", "NoDeadlock"), ("Pipeline_fixed.cfg", None),
                        ("Pipeline_barrier_ok.cfg", None), ("Pipeline_barrier_cap.cfg", "NoDeadlock")) + \
                       (() if q else (("Pipeline_asis_k1_ok.cfg", None), ("Pipeline_asis_k1_dl.cfg", "NoDeadlock"))):
        r = tlc("stack", "Pipeline", cfg, workers=16, timeout=1500)
        if expect is None and not r.ok:
            raise vlib.Inconclusive("Pipeline %s violates %s:\n%s" % (cfg, r.violation, r.out[-2000:]))
        if expect is not None and r.violation != expect:
            raise vlib.Inconclusive("Pipeline %s: expected the circular wait (violation of %s), TLC says %s" % (cfg, expect, r.violation))
        ck.add_cov(states=r.distinct, transitions=r.generated)
        runs.append({"cfg": cfg, "expected_violation": expect, **r.summary()})
    ck.cov["tlc_runs"] = runs
    vp = os.path.join(OUT, "callmap-%d.ndjson" % os.getpid())
    r2 = tlc("stack", "CallMap", "CallMap.cfg", workers=1, timeout=600, printed_to=vp)
    if not r2.ok:
        raise vlib.Inconclusive("CallMap failed:\n" + r2.out[-2000:])
    runs.append({"module": "CallMap", "vectors_emitted": r2.nprinted})
    # the conn's write-deadline register over time
    for cfg, expect in (("ConnDeadline.cfg", None), ("ConnDeadline_norefresh.cfg", "EveryWriteGoesThrough")):
        r = tlc("stack", "ConnDeadline", cfg, workers=1, timeout=300)
        if (expect is None and not r.ok) or (expect is not None and r.violation != expect):
            raise vlib.Inconclusive("ConnDeadline %s: expected %s, TLC says %s\n%s" % (cfg, expect or "no violation", r.violation, r.out[-1500:]))
        runs.append({"cfg": cfg, "expected_violation": expect, **r.summary()})
    if not q:
        # unbounded: "no write fails on a stale deadline" is an inductive invariant for every horizon, idle time and deadline (Apalache)
        steps = [("base", ["--cinit=ConstInit", "--init=Init", "--inv=IndInv", "--length=0"], True),
                 ("step", ["--cinit=ConstInit", "--init=IndInit", "--inv=IndInv", "--length=1"], True),
                 ("step-without-refresh", ["--cinit=ConstInitNoRefresh", "--init=IndInit", "--inv=IndInv", "--length=1"], False)]
        for name, args, want_ok in steps:
            okk, err, out = vlib.apalache("stack", "ConnDeadlineInd", args, timeout=600)
            if (want_ok and not okk) or (not want_ok and not err):
                raise vlib.Inconclusive("Apalache ConnDeadlineInd %s: unexpected outcome\n%s" % (name, out[-1500:]))
            runs.append({"apalache": "ConnDeadlineInd " + name, "outcome": "NoError" if okk else "counterexample (expected)"})
    dp = os.path.join(OUT, "conndl-%d.ndjson" % os.getpid())
    r3 = tlc("stack", "ConnDeadlineVectors", "ConnDeadlineVectors.cfg", workers=1, timeout=300, printed_to=dp)
    if not r3.ok:
        raise vlib.Inconclusive("ConnDeadlineVectors failed:\n" + r3.out[-2000:])
    runs.append({"module": "ConnDeadlineVectors", "vectors_emitted": r3.nprinted})
    try:
        doc = harness(["stack", "-vectors", vp, "-deadlines", dp, "-rounds", "50" if q else "400"] + ([] if q else ["-logging"]), timeout=2400)
        hv = doc.get("violations") or []
        if any(v["tag"] == "harness" for v in hv):
            raise vlib.Inconclusive("stack harness problem: %s" % [v for v in hv if v["tag"] == "harness"][0])
        ck.take(doc)
        if not q:
            d3 = harness(["stack", "-vectors", vp, "-rounds", "100", "-cycle=false"], timeout=2400, race=True, ok_codes=(0, 66))
            races = d3["_stdout"].count("WARNING: DATA RACE")
            ck.add_cov(race_detector_reports=races)
            if races:
                out = d3["_stdout"]
                first = out[out.index("WARNING: DATA RACE"):][:3000]
                ck.violation("data-race", "the Go race detector reports %d data race(s) in the client/server stack\n%s" % (races, first), {"race": first})
    finally:
        os.unlink(vp)
        os.unlink(dp)
    ck.add_cov(traces_validated_against_impl=int(doc.get("evaluations", 0)),
               rule="sequential: every CallMap vector (11 methods x boundary arguments x S results/errors; read/write sizes around msize-11/msize-23, offsets up "
                    "to 2^64-1) through CSession <-> ServeConn(SSession(S)); concurrent: 2..32 callers x 50/400 calls each over a 1 MiB pipe and 4 callers "
                    "over an unbuffered pipe must each get the result derived from their own fid; the Pipeline counterexample (16 callers, unbuffered "
                    "pipe) is replayed and, if the calls only end by their deadline, reported with the parked loops; timed: every call sequence of "
                    "ConnDeadlineVectors (idle times x per-call context deadlines, 1..3 calls) on a fresh pair each")
    return ck.finish()
