"""Engine cfs (C20): CFileSys.tla -> LTS -> replay on p9p.CFileSys(spy(p9p.SFileSys(scriptedFS)))."""
import os
import vlib
from vlib import Check, tlc, harness, OUT


def c20(tier):
    ck = Check("C20", tier, "model_checking")
    ck.assumptions = [
        "the server is the real p9p.SFileSys over a scripted FileSys whose outcomes (complete/partial/error) the model chooses",
        "the caller does not use an entry after clunk/remove and does not create through an opened entry (9P rules)",
        "bounds: <=4 (quick) / 5 (thorough) fid allocations per history, <=3 live entries, name lists of length <=2 (+4 picked) / <=3 over {'.','','a','b','..','a/b'}"]
    cfg = "CFSLTS_quick.cfg" if tier == "quick" else "CFSLTS_thorough.cfg"
    p = os.path.join(OUT, "cfs-%s.lts" % tier)
    r = tlc("cfs", "CFSLTS", cfg, workers=8, timeout=1200, printed_to=p)
    if not r.ok:
        raise vlib.Inconclusive("CFileSys model violates %s:\n%s" % (r.violation, r.out[-3000:]))
    ck.add_cov(states=r.distinct, transitions=r.generated, exhaustive=True,
               tlc_runs=[{"cfg": cfg, "edges_emitted": r.nprinted, **r.summary()}])
    doc = harness(["cfs", "-lts", p, "-random", "300" if tier == "quick" else "3000", "-depth", "25", "-maxfid", "5"], timeout=1500)
    os.unlink(p)
    if doc.get("extra", {}).get("error"):
        raise vlib.Inconclusive("cfs harness: " + doc["extra"]["error"])
    hv = doc.get("violations") or []
    if any(v["tag"] == "harness" for v in hv):
        raise vlib.Inconclusive("cfs harness problem: %s" % [v for v in hv if v["tag"] == "harness"][0])
    ck.take(doc)
    ck.add_cov(traces_validated_against_impl=doc["extra"].get("histories", 0),
               rule="every transition of the TLC-computed LTS of CFileSys.tla is executed on the real client layer (edge-cover tours + seeded "
                    "random walks); compared per step: the session call issued (method, fid, new fid, normalised names), reported "
                    "success/failure, qid of the returned entry, and the set of fids bound on the real server (probed); every history "
                    "ends by clunking all entries and requiring an empty server table")
    return ck.finish()
