"""Engine readdir (C17): Readdir.tla -> LTS -> real p9p.Readdir (direct and through a session) + client-side listing."""
import os
import vlib
from vlib import Check, tlc, harness, OUT


def c17(tier):
    ck = Check("C17", tier, "model_checking")
    ck.assumptions = ["every read size is at least the largest encoded entry (the property's precondition)",
                      "entry sizes are realised by name/uid lengths (49 + string bytes); expected bytes are the codec's encodings of the entries (the codec itself is C01's subject)",
                      "client half: msize forced by rewriting the msize field of the client's Tversion on the wire, only msize-11 >= largest entry"]
    cfg = "RdLTS_quick.cfg" if tier == "quick" else "RdLTS_thorough.cfg"
    p = os.path.join(OUT, "rd-%s.lts" % tier)
    r = tlc("readdir", "RdLTS", cfg, workers=8, timeout=1500, printed_to=p)
    if not r.ok:
        raise vlib.Inconclusive("Readdir model violates %s:\n%s" % (r.violation, r.out[-3000:]))
    ck.add_cov(states=r.distinct, transitions=r.generated, exhaustive=True, tlc_runs=[{"cfg": cfg, "edges_emitted": r.nprinted, **r.summary()}])
    try:
        doc = harness(["readdir", "-lts", p, "-random", "200" if tier == "quick" else "2000", "-client", "60" if tier == "quick" else "600"], timeout=2400 if tier == "quick" else 4200)
    finally:
        os.unlink(p)
    if tier != "quick":
        # the larger instance runs without iterator failures; the instance with failures is replayed as well
        p2 = os.path.join(OUT, "rd-fail.lts")
        r2 = tlc("readdir", "RdLTS", "RdLTS_quick.cfg", workers=8, timeout=1500, printed_to=p2)
        if not r2.ok:
            raise vlib.Inconclusive("Readdir model (iterator failures) violates %s:\n%s" % (r2.violation, r2.out[-3000:]))
        ck.cov["tlc_runs"].append({"cfg": "RdLTS_quick.cfg", "edges_emitted": r2.nprinted, **r2.summary()})
        try:
            d2 = harness(["readdir", "-lts", p2, "-random", "200", "-client", "0"], timeout=2400)
        finally:
            os.unlink(p2)
        d2["samples"] = []
        hv2 = d2.get("violations") or []
        if any(v["tag"] == "harness" for v in hv2):
            raise vlib.Inconclusive("readdir harness problem: %s" % [v for v in hv2 if v["tag"] == "harness"][0])
        ck.take(d2, prefix="iterfail_")
    if doc.get("extra", {}).get("error"):
        raise vlib.Inconclusive("readdir harness: " + doc["extra"]["error"])
    hv = doc.get("violations") or []
    if any(v["tag"] == "harness" for v in hv):
        raise vlib.Inconclusive("readdir harness problem: %s" % [v for v in hv if v["tag"] == "harness"][0])
    ck.take(doc)
    ck.add_cov(traces_validated_against_impl=doc["extra"].get("histories", 0) + doc["extra"].get("client_listings", 0),
               rule="every transition of the LTS (all listings of <=3/4 entries over 3/4 sizes, all batch partitions, all sequences of <=4/5 reads over the "
                    "count set, wrong offsets at every step) is executed on p9p.Readdir directly and through Session.Read of an opened directory fid; "
                    "returned bytes must be the concatenated encodings of exactly the predicted whole entries; plus seeded listings (0..80 entries) "
                    "read through CFileSys over a real connection at 6 msize classes")
    return ck.finish()
