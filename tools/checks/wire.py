"""Engine wire (C01, C04): Wire9P.tla (9P2000 layout transcribed from the manual) -> vectors with TLC-computed
encodings and length-field positions -> real codec."""
import json, os
import vlib
from vlib import Check, tlc, harness, OUT


def vectors(ck):
    p = os.path.join(OUT, "wire-%d.vec" % os.getpid())
    r = tlc("wire", "WireVectors", "WireVectors.cfg", workers=1, timeout=600, printed_to=p)
    if not r.ok:
        raise vlib.Inconclusive("WireVectors failed:\n" + r.out[-3000:])
    ck.cov.setdefault("tlc_runs", []).append({"module": "WireVectors", "vectors_emitted": r.nprinted - 2, "wall_s": round(r.wall, 1)})
    return p, r.nprinted - 2


def c01(tier):
    ck = Check("C01", tier, "exploration")
    ck.assumptions = ["the transcription of intro(5)/stat(5) into Wire9P.tla is right (it is written from the manual, not from encoding.go)",
                      "equality after decoding: empty slice == nil, times compared as whole Unix seconds",
                      "long values (65535-byte strings/stat records, 65535 list elements, 1 MiB data) are generated in the harness and "
                      "encoded by a reference encoder that interprets the layout table exported by TLC; that encoder is first checked "
                      "against TLC's own bytes on every enumerated vector"]
    p, n = vectors(ck)
    doc = harness(["wire", "-vectors", p, "-mode", "c01", "-random", "400" if tier == "quick" else "6000"], timeout=1500)
    os.unlink(p)
    if doc.get("extra", {}).get("error"):
        raise vlib.Inconclusive("wire harness: " + doc["extra"]["error"])
    hv = doc.get("violations") or []
    if any(v["tag"] == "harness" for v in hv):
        raise vlib.Inconclusive("wire harness problem: %s" % [v for v in hv if v["tag"] == "harness"][0])
    ck.take(doc)
    ck.add_cov(exhaustive=False,
               rule="per message kind (27) and for bare stat records: baseline with pairwise distinct byte patterns per field, each-choice "
                    "variation of every field and sub-field over its boundary domain (0, 1, max, 0x7f.., pattern; empty/1/non-UTF-8/separator "
                    "strings; 0/1/2/16-element lists), 5 tags; plus seeded random deep messages; per vector: Marshal == spec bytes, Size == len, "
                    "Unmarshal(spec bytes) == message; distinct_nontrivial = distinct encodings checked")
    return ck.finish()


def c04(tier):
    ck = Check("C04", tier, "exploration")
    ck.assumptions = ["allocation is measured (runtime.MemStats.TotalAlloc around the call, single goroutine), not proved; bound 4 MiB + 64 bytes per input byte "
                      "(a 16-bit count may legitimately cause ~2.5 MiB)",
                      "whether a malformed input yields a value or an error is not judged; every input is decoded both as a message and as a directory entry"]
    p, n = vectors(ck)
    args = ["wire", "-vectors", p, "-mode", "c04"]
    if tier != "quick":
        args.append("-quick=false")
    doc = harness(args, timeout=2400)
    os.unlink(p)
    if doc.get("extra", {}).get("error"):
        raise vlib.Inconclusive("wire harness: " + doc["extra"]["error"])
    ck.take(doc)
    ck.add_cov(exhaustive=False,
               rule="hostile family derived from the spec: for every vector and every length/count field (positions computed by Wire9P.Encode) the "
                    "values 0, 1, true-1, true+1, 0x7f.., 0x80.., max-1, max, len, len+1; every truncation point; extension by 1/4/100 bytes; type "
                    "bytes 0/99/106/128/255; seeded compositions of 2-4 mutations; 2000 random strings; oracles: no panic, bounded allocation, "
                    "decode(encode(v)) == v when decoding succeeds; distinct_nontrivial = distinct input byte strings")
    return ck.finish()
