"""Engine server: ServeImpl.tla / ServeContract.tla (serve loop of p9p.ServeConn).
Serves C06 (one reply per request, own tag and result), C07 (flush), C11 (shutdown).

 1. TLC checks the implementation-shaped model exhaustively (safety + liveness under fairness) and,
    with the defect toggles off, must find the known design defects (vacuity guard).
 2. Environment scenarios = TLC behaviours (simulation, and the counterexamples of the as-is configs)
    projected on what the environment controls / observes; the harness replays them on the real ServeConn.
 3. TLC validates the recorded event traces against ServeContract (ServeTrace.tla)."""
import json, os, re
import vlib
from vlib import Check, tlc, harness, OUT

C06 = {"handler-invoked-twice", "handler-invoked-for-flush", "duplicate-dispatched", "handler-got-different-message",
       "handler-got-unknown-message", "reply-from-nowhere", "second-reply", "reply-for-wrong-request",
       "reply-before-handler-returned", "result-kind-changed", "unexpected-duptag-error", "malformed-reply",
       "request-unanswered", "duplicate-unanswered", "flushed-reply-answers-new-request", "request-on-reused-tag-unanswered", "serving-ended-without-cause"}
C07 = {"reply-after-flush-ack", "flushed-reply-answers-new-request", "request-on-reused-tag-unanswered", "rflush-before-cancel", "unexpected-flush-reply", "flush-unanswered",
       "reply-for-wrong-request", "second-reply"}
C11 = {"stop-called-twice", "stop-not-called-once", "inflight-not-cancelled"}


def behaviour_to_scenario(name, labels, repeat=0, send_at_read=False):
    """labels: list of (act, req) along one TLC behaviour.
    send_at_read: a request is sent at the step where the model's reader reads it, not where the model's client
    queued it - the real reader goroutine reads a frame as soon as it is there, so that is when it enters the server."""
    steps, nwr, block = [], 0, 0
    pending = {}
    for act, rq in labels:
        a, i = act["a"], act["i"]
        if a == "send":
            st = {"a": "send", "i": i, "tag": rq["tag"], "kind": rq["kind"], "old": rq["old"]}
            if send_at_read:
                pending[i] = st
            else:
                steps.append(st)
        elif a == "rdr.read" and i in pending:
            steps.append(pending.pop(i))
        elif a == "loop.dispatch":
            steps.append({"a": "await_enter", "i": i})
        elif a == "h.done":
            steps.append({"a": "release", "i": i})
        elif a == "wr.write":
            nwr += 1
            steps.append({"a": "await_reply", "k": nwr})
        elif a == "fault.read":
            steps.append({"a": "fault", "kind": ("read-eof", "read-err", "read-mid")[(len(steps) + i) % 3]})
        elif a == "fault.write":
            block = nwr + 1
            steps.append({"a": "fault", "kind": "write"})
        elif a == "fault.ctx":
            steps.append({"a": "fault", "kind": "ctx"})
    steps += [pending[i] for i in sorted(pending)]
    sc = {"name": name, "steps": steps}
    if block:
        sc["block_write"] = block
    if repeat:
        sc["repeat"] = repeat
    return sc


def simulate(cfg, num, depth):
    r = tlc("server", "ServeSim", cfg, workers=1, timeout=600, want_printed=True,
            simulate="num=%d" % num, depth=depth, extra=["-seed", str(vlib.seed())])
    behs, cur = [], []
    for lvl, act, rq in r.printed:
        if lvl == 1 and cur:
            behs.append(cur)
            cur = []
        cur.append((act, rq))
    if cur:
        behs.append(cur)
    return behs, r


def cex_scenario(cfg, name, repeat, send_at_read=False):
    """The counterexample TLC finds on the as-is (defect toggled on) model, as a scenario."""
    r = tlc("server", "ServeImpl", cfg, workers=4, timeout=600, dump_trace=True)
    if r.violation is None or not r.trace_json:
        raise vlib.Inconclusive("as-is config %s: TLC found no violation (vacuity guard failed)" % cfg)
    labels = []
    for st in r.trace_json["counterexample"]["state"]:
        s = st[1]
        i = s["act"]["i"]
        rq = s["req"][i - 1] if 1 <= i <= len(s["req"]) else {"tag": 0, "kind": "none", "old": 0}
        labels.append((s["act"], rq))
    return behaviour_to_scenario(name, labels, repeat, send_at_read), r


def slow_scenario():
    """A handler that takes longer than any set-up deadline (the 1 s of version negotiation), then a request on the aged connection."""
    return {"name": "slow-handler-then-late-request", "repeat": 2, "steps": [
        {"a": "send", "i": 1, "tag": 1, "kind": "req", "old": 0}, {"a": "await_enter", "i": 1}, {"a": "pause", "k": 1300},
        {"a": "release", "i": 1}, {"a": "await_reply", "k": 1},
        {"a": "send", "i": 2, "tag": 1, "kind": "req", "old": 0}, {"a": "await_enter", "i": 2}, {"a": "release", "i": 2}, {"a": "await_reply", "k": 2}]}


def many_inflight_scenario(prop):
    """70 requests are being handled (more than any plausible bound on workers); a flush of one of them and a fresh request
    must still be answered while the others stay blocked; then the freed tag is reused."""
    st = []
    for i in range(1, 71):
        st += [{"a": "send", "i": i, "tag": i, "kind": "req", "old": 0}, {"a": "await_enter", "i": i}]
    st += [{"a": "send", "i": 71, "tag": 71, "kind": "flush", "old": 8}, {"a": "must_reply", "k": 1, "kind": prop},
           {"a": "send", "i": 72, "tag": 8, "kind": "req", "old": 0}, {"a": "await_enter", "i": 72}, {"a": "release", "i": 72},
           {"a": "must_reply", "k": 2, "kind": prop}]
    st += [{"a": "release", "i": i} for i in range(1, 71)]
    return {"name": "many-inflight-then-flush", "steps": st}


def kinds_scenario():
    steps = []
    for i in range(1, 9):
        steps += [{"a": "send", "i": i, "tag": i % 3, "kind": "req", "old": 0}, {"a": "await_enter", "i": i},
                  {"a": "release", "i": i}, {"a": "await_reply", "k": i}]
    return {"name": "all-kinds-sequential", "steps": steps}


def validate_traces(ck, trace_path, classes, runs):
    """TLC trace validation (ServeTrace.tla): one linear pass over all recorded runs; the spec prints the
    verdict of every run whose contract state went bad."""
    with open(trace_path) as f:
        lines = f.read().splitlines()
    traces, cur = {}, []
    n = 0
    for ln in lines:
        cur.append(ln)
        if '"e":"reset"' in ln:
            n += 1
            traces[n] = cur
            cur = []
    r = tlc("server", "ServeTrace", "ServeTrace.cfg", workers=1, timeout=1500, env_extra={"TRACE": trace_path}, want_printed=True)
    if not r.ok:
        raise vlib.Inconclusive("trace validation failed (%s):\n%s" % (r.violation, r.out[-3000:]))
    for v in r.printed:
        if not v.get("bad"):
            continue
        evs = [json.loads(x) for x in traces.get(v["tr"], [])]
        name = runs.get(str(v.get("sc", 0)), "?")
        if v["bad"] in classes:
            ck.violation("contract:" + v["bad"], "recorded run %s (scenario %s) breaks the contract: %s" % (v.get("sc"), name, v["bad"]),
                         {"engine": "serve", "scenario": name, "trace": evs})
        else:
            ck.notes.append("contract class %s seen in scenario %s (belongs to another property)" % (v["bad"], name))
    ck.notes[:] = sorted(set(ck.notes))[:20]
    return n


def _run(pid, tier, classes, families, extra=None):
    ck = Check(pid, tier, "model_checking")
    q = tier == "quick"
    # 1. exhaustive model check
    r = tlc("server", "ServeImpl", "ServeImpl_quick.cfg", workers=16, timeout=900)
    if not r.ok:
        raise vlib.Inconclusive("ServeImpl violates %s:\n%s" % (r.violation, r.out[-3000:]))
    ck.add_cov(states=r.distinct, transitions=r.generated, tlc_runs=[{"cfg": "ServeImpl_quick.cfg", **r.summary()}])
    r2 = tlc("server", "ServeImpl", "ServeImpl_nofault.cfg", workers=16, timeout=900)
    if not r2.ok:
        raise vlib.Inconclusive("ServeImpl (no faults, liveness) violates %s:\n%s" % (r2.violation, r2.out[-3000:]))
    ck.cov["tlc_runs"].append({"cfg": "ServeImpl_nofault.cfg", **r2.summary()})
    if not q:
        r3 = tlc("server", "ServeImpl", "ServeImpl_thorough.cfg", workers=16, timeout=1500)
        if not r3.ok:
            raise vlib.Inconclusive("ServeImpl (N=4) violates %s:\n%s" % (r3.violation, r3.out[-3000:]))
        ck.add_cov(states=r3.distinct, transitions=r3.generated)
        ck.cov["tlc_runs"].append({"cfg": "ServeImpl_thorough.cfg", **r3.summary()})
    # 2. scenarios
    scs = []
    rep = 24 if q else 96
    if "stale" in families:
        sc, rr = cex_scenario("ServeImpl_asis_stale.cfg", "tlc-cex-stale-completion", rep)
        scs.append(sc)
        ck.cov["tlc_runs"].append({"cfg": "ServeImpl_asis_stale.cfg", "expected_violation": rr.violation})
    if "fwd" in families:
        sc, rr = cex_scenario("ServeImpl_asis_fwd.cfg", "tlc-cex-forward-after-close", rep)
        scs.append(sc)
        ck.cov["tlc_runs"].append({"cfg": "ServeImpl_asis_fwd.cfg", "expected_violation": rr.violation})
    if "goals" in families:
        # model-based test generation: TLC refutes "this situation is never reached"; the behaviour found is the scenario
        sc, rr = cex_scenario("ServeImpl_goal_stalefault.cfg", "tlc-goal-stale-completion-then-fault", rep // 2)
        ck.cov["tlc_runs"].append({"cfg": "ServeImpl_goal_stalefault.cfg", "goal_reached_via": rr.violation})
        for fk in ("read-eof", "read-err"):
            sc2 = dict(sc, name=sc["name"] + ":" + fk, steps=sc["steps"] + [{"a": "pause"}, {"a": "fault", "kind": fk}])
            scs.append(sc2)
        sc, rr = cex_scenario("ServeImpl_goal_flushfault.cfg", "tlc-goal-flush-races-fault", rep // 2)
        ck.cov["tlc_runs"].append({"cfg": "ServeImpl_goal_flushfault.cfg", "goal_reached_via": rr.violation})
        scs.append(sc)
    if "goals07" in families:
        sc, rr = cex_scenario("ServeImpl_goal_flushblocked.cfg", "tlc-goal-flush-behind-blocked-reply", 4 * rep, send_at_read=True)
        sc["paced"] = True      # the writer stays blocked: the client reads nothing until the end of the scenario
        scs.append(sc)
        ck.cov["tlc_runs"].append({"cfg": "ServeImpl_goal_flushblocked.cfg", "goal_reached_via": rr.violation})
    if "nofault" in families:
        behs, _ = simulate("ServeSim_nofault.cfg", 120 if q else 1500, 45)
        scs += [behaviour_to_scenario("sim-nofault-%d" % i, b, 2 if q else 3) for i, b in enumerate(behs)]
        # the same behaviours with a client that reads each reply only where the model's writer completes its write
        scs += [dict(behaviour_to_scenario("sim-paced-%d" % i, b, 1 if q else 2, send_at_read=True), paced=True) for i, b in enumerate(behs) if i % 2 == 0]
        scs.append(kinds_scenario())
        scs.append(slow_scenario())
        scs.append(many_inflight_scenario(pid))
    if "fault" in families:
        behs, _ = simulate("ServeSim_fault.cfg", 150 if q else 1500, 45)
        scs += [behaviour_to_scenario("sim-fault-%d" % i, b, 1 if q else 2) for i, b in enumerate(behs)
                if any(a["a"].startswith("fault") for a, _ in b)]
    sp = os.path.join(OUT, "serve-sc-%s.ndjson" % pid)
    with open(sp, "w") as f:
        for s in scs:
            f.write(json.dumps(s) + "\n")
    tp = os.path.join(OUT, "serve-tr-%s.ndjson" % pid)
    doc = harness(["serve", "-scenarios", sp, "-trace", tp], timeout=1500, allow_crash=True)
    if doc.get("crashed"):
        out = doc["_stdout"]
        if ("panic:" in out or "fatal error:" in out) and "github.com/frobnitzem/go-p9p" in out and pid == "C11":
            i = out.index("panic:") if "panic:" in out else out.index("fatal error:")
            ck.violation("server-process-crashed", "the server process crashed:\n" + out[i:i + 1500], {"stdout": out[i:i + 3000]})
            ck.add_cov(evaluations=len(scs), distinct_nontrivial=len(scs), samples=scs[:2], traces_validated_against_impl=0)
            return ck.finish()
        raise vlib.Inconclusive("serve harness failed rc=%s:\n%s" % (doc.get("rc"), out[-2000:]))
    if doc.get("extra", {}).get("error"):
        raise vlib.Inconclusive("serve harness: " + doc["extra"]["error"])
    runs = doc["extra"].pop("run_names", {})
    hv = doc.get("violations") or []
    if any(v["tag"] == "harness" for v in hv):
        raise vlib.Inconclusive("serve harness problem: %s" % hv[0])
    doc["violations"] = [v for v in hv if v["tag"] == pid]
    ck.take(doc)
    n = validate_traces(ck, tp, classes, runs)
    ck.add_cov(traces_validated_against_impl=n,
               rule="scenarios = environment projection of TLC behaviours of ServeImpl (seeded simulation; counterexamples of the "
                    "as-is configs repeated because a Go select among ready cases cannot be steered); evaluations = scenario runs on "
                    "the real ServeConn, distinct_nontrivial = distinct recorded event sequences; every recorded trace is validated by "
                    "TLC against ServeContract")
    for p in (sp, tp):
        try:
            os.unlink(p)
        except OSError:
            pass
    if extra:
        extra(ck, tier)
    return ck.finish()


def c06(tier):
    return _run("C06", tier, C06, ("nofault", "stale", "goals07"))


def c07(tier):
    return _run("C07", tier, C07, ("nofault", "stale", "goals07"))


def _stoprace(ck, tier):
    """StopRace.tla: TLC on the repaired and the as-is model, then the schedule on the real stack."""
    r = tlc("server", "StopRace", "StopRace.cfg", workers=2, timeout=300)
    if not r.ok:
        raise vlib.Inconclusive("StopRace violates %s:\n%s" % (r.violation, r.out[-2000:]))
    ra = tlc("server", "StopRace", "StopRace_asis.cfg", workers=2, timeout=300)
    if ra.violation is None:
        raise vlib.Inconclusive("StopRace as-is: TLC found no violation (vacuity guard failed)")
    ck.add_cov(states=r.distinct, transitions=r.generated)
    ck.cov["tlc_runs"] += [{"cfg": "StopRace.cfg", **r.summary()}, {"cfg": "StopRace_asis.cfg", "expected_violation": ra.violation}]
    doc = harness(["stoprace", "-reps", "2" if tier == "quick" else "8"], timeout=900, allow_crash=True)
    if doc.get("crashed"):
        out = doc["_stdout"]
        if ("panic:" in out or "fatal error:" in out) and "github.com/frobnitzem/go-p9p" in out:
            i = out.index("panic:") if "panic:" in out else out.index("fatal error:")
            ck.violation("server-process-crashed", "the server process crashed during shutdown scenarios:\n" + out[i:i + 1500], {"stdout": out[i:i + 3000]})
            return
        raise vlib.Inconclusive("stoprace harness failed rc=%s:\n%s" % (doc.get("rc"), out[-2000:]))
    hv = doc.get("violations") or []
    if any(v["tag"] == "harness" for v in hv):
        raise vlib.Inconclusive("stoprace harness problem: %s" % hv[0])
    ck.take(doc, prefix="stoprace_")
    ck.add_cov(traces_validated_against_impl=int(doc.get("evaluations", 0)))


def c11(tier):
    return _run("C11", tier, C11, ("fault", "fwd", "goals"), extra=_stoprace)
