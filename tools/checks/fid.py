"""Engine fid: FidTable.tla (reference fid table) -> LTS -> replay on p9p.SFileSys(scriptedFS).
Serves C08 (state machine) and C13 (release exactly once)."""
import json, os
import vlib
from vlib import Check, tlc, harness, OUT


def _lts(tier, ck):
    """Exhaustive LTS of the 2-fid instance; thorough adds the 3-fid instance (model-checked in full; its LTS
    emitted with every state-changing transition and a 1-in-40 sample of the others)."""
    files = []
    p = os.path.join(OUT, "fid-quick.lts")
    r = tlc("fid", "FidLTS", "FidLTS_quick.cfg", workers=8, timeout=600, printed_to=p)
    if not r.ok:
        raise vlib.Inconclusive("FidTable model violates its own property %s:\n%s" % (r.violation, r.out[-3000:]))
    files.append(p)
    ck.add_cov(states=r.distinct, transitions=r.generated, exhaustive=True,
               tlc_runs=[{"cfg": "FidLTS_quick.cfg", "edges_emitted": r.nprinted, **r.summary()}])
    if tier == "thorough":
        r2 = tlc("fid", "FidTable", "FidTable_big.cfg", workers=16, timeout=1500)
        if not r2.ok:
            raise vlib.Inconclusive("FidTable (big) violates its own property %s:\n%s" % (r2.violation, r2.out[-3000:]))
        ck.add_cov(states=r2.distinct, transitions=r2.generated)
        ck.cov["tlc_runs"].append({"cfg": "FidTable_big.cfg", **r2.summary()})
        p = os.path.join(OUT, "fid-mid.lts")
        r3 = tlc("fid", "FidLTS", "FidLTS_mid.cfg", workers=8, timeout=1500, printed_to=p)
        if not r3.ok:
            raise vlib.Inconclusive("FidTable (mid) violates its own property %s:\n%s" % (r3.violation, r3.out[-3000:]))
        files.append(p)
        ck.add_cov(states=r3.distinct, transitions=r3.generated)
        ck.cov["tlc_runs"].append({"cfg": "FidLTS_mid.cfg", "edges_emitted": r3.nprinted, **r3.summary()})
    return files


def _run(pid, tier, tags, level_assumptions, conc=False):
    ck = Check(pid, tier, "model_checking")
    ck.assumptions = level_assumptions
    files = _lts(tier, ck)
    nrand, depth = (300, 30) if tier == "quick" else (3000, 60)
    traces = 0
    for p in files:
        doc = harness(["fid", "-lts", p, "-random", str(nrand), "-depth", str(depth)], timeout=1500 if tier == "quick" else 3600)
        if doc.get("extra", {}).get("error"):
            raise vlib.Inconclusive("fid harness: " + doc["extra"]["error"])
        doc["violations"] = [v for v in doc.get("violations") or [] if v.get("tag") in tags]
        traces += doc["extra"].get("histories", 0)
        ck.take(doc)
        os.unlink(p)
    if conc:
        # no entry is orphaned whatever the client does (no discipline): newRef is atomic; the check-then-act variant orphans one
        for cfg, expect in (("FidConc_nodisc.cfg" if tier == "quick" else "FidConc_nodisc3.cfg", None), ("FidConc_nonatomic.cfg", "NoOrphanEntry")):
            rc = tlc("fid", "FidConc", cfg, workers=16, timeout=1500)
            if (expect is None and not rc.ok) or (expect is not None and rc.violation != expect):
                raise vlib.Inconclusive("FidConc %s: expected %s, TLC says %s\n%s" % (cfg, expect or "no violation", rc.violation, rc.out[-2000:]))
            ck.add_cov(states=rc.distinct, transitions=rc.generated)
            ck.cov["tlc_runs"].append({"cfg": cfg, "expected_violation": expect, **rc.summary()})
        # release accounting under concurrency: the directed interleavings (a second request queued on the fid's lock while the
        # first is parked inside the file system) and random workloads, judged by FidLin's NoUseAfterRelease
        tp = os.path.join(OUT, "fidconc13-%d.ndjson" % os.getpid())
        d2 = harness(["fidconc", "-n", "100" if tier == "quick" else "2000", "-reps", "1" if tier == "quick" else "3", "-trace", tp], timeout=1500)
        d2["violations"] = [v for v in d2.get("violations") or [] if v.get("tag") in tags]
        d2["samples"] = []
        ck.take(d2, prefix="conc_")
        traces += _validate_lin(ck, tp, only=("use-after-release",))
        os.unlink(tp)
        # stop racing in-flight operations, through the real ServeConn (the session is stopped by its server): after Stop and after
        # the in-flight handlers returned every entry has been released exactly once (engine of C11, release accounting only)
        d3 = harness(["stoprace", "-reps", "1" if tier == "quick" else "4"], timeout=900, allow_crash=True)
        if d3.get("crashed"):
            raise vlib.Inconclusive("stoprace harness failed rc=%s:\n%s" % (d3.get("rc"), d3["_stdout"][-1500:]))
        d3["violations"] = [v for v in d3.get("violations") or [] if v.get("tag") == "C11" and "release" in v.get("sig", "")]
        d3["samples"] = []
        ck.take(d3, prefix="stoprace_")
    ck.add_cov(traces_validated_against_impl=traces,
               rule="every transition of the TLC-computed LTS of FidTable is executed at least once on "
                    "p9p.SFileSys(scriptedFS) (edge-cover tours from the initial state) plus seeded random walks; "
                    "evaluations = executed model steps, distinct_nontrivial = distinct LTS edges covered; after "
                    "every step result class, FileSys calls, probed fid table and per-entry release counts are compared")
    return ck.finish()


def c08(tier):
    return _run("C08", tier, ("state", "hang"), [
        "FileSys behaviour is scripted by the model (found/partial/not found/error/nil result); fids {0,7,0xFFFFFFFE,NOFID}",
        "in-place walk of an opened fid and create through an opened fid are not generated (9P forbids them; property silent)",
        "error classes other than unknown-fid/duplicate-fid/ok-vs-error are compared as model_drift only"])


def c13(tier):
    return _run("C13", tier, ("release", "hang"), [
        "an entry counts as released by Dirent.Clunk, Dirent.Remove or by being the receiver of a successful Dirent.Create",
        "entries returned by incomplete walks are placeholders that must never be used or released",
        "every history ends with Session.Stop, so stop strikes at every reachable table state",
        "concurrent part: histories of the fidconc engine (see C14) are checked by FidLin.tla for calls on released / consumed entries only"],
        conc=True)


# ----------------------------------------------------------------------------- C14
def _validate_lin(ck, trace_path, only=None):
    """TLC (FidLin.tla): mutual exclusion + linearizability of every recorded concurrent history."""
    with open(trace_path) as f:
        lines = f.read().splitlines()
    hists, cur = [], []
    for ln in lines:
        cur.append(ln)
        if '"e":"reset"' in ln:
            hists.append(cur)
            cur = []
    pending, validated, rounds = hists, 0, 0
    while pending and rounds < 10:
        rounds += 1
        tp = os.path.join(OUT, "fidlin-%d.ndjson" % os.getpid())
        with open(tp, "w") as f:
            f.write("\n".join("\n".join(h) for h in pending) + "\n")
        r = tlc("fid", "FidLin", "FidLin.cfg", workers=1, timeout=900, env_extra={"TRACE": tp})
        os.unlink(tp)
        if r.ok and "REJECTED-AT" not in r.out:
            validated += len(pending)
            break
        import re
        invs = {"MutualExclusion": ("overlapping-filesys-calls", "two FileSys calls (Dirent.Qid included) overlap on one entry"),
                "NoUseAfterRelease": ("use-after-release", "a FileSys call is made on an entry after the session released it (clunk / remove) "
                                                           "or after a successful create consumed it"),
                "OpenAnswersOwnEntry": ("open-answers-other-entry", "a successful open answers with the qid of another entry than the one "
                                                                    "the file system opened for it")}
        if r.violation in invs:
            m = None
            for m in re.finditer(r"/\\ l = (\d+)", r.out):
                pass
            pos = int(m.group(1)) - 1 if m else 1
            sig, what = invs[r.violation]
        else:
            m = re.search(r'"REJECTED-AT", (\d+)', r.out) or re.search(r'REJECTED-AT[^0-9]*(\d+)', r.out)
            if not m:
                raise vlib.Inconclusive("FidLin validation failed unexpectedly:\n" + r.out[-3000:])
            pos = int(m.group(1))
            sig, what = "not-linearizable", "no sequential order consistent with real time explains the recorded results"
        # locate the history containing trace position pos
        n, k = 0, 0
        for k, h in enumerate(pending):
            n += len(h)
            if pos <= n:
                break
        evs = [json.loads(x) for x in pending[k]]
        if only is None or sig in only:
            ck.violation("lin:" + sig, "%s (history %d, event %d of the batch)" % (what, evs[0].get("run", 0), pos),
                     {"engine": "fidconc", "history": evs})
        validated += k
        pending = pending[k + 1:]
    return validated


def c14(tier):
    ck = Check("C14", tier, "model_checking")
    ck.assumptions = [
        "client discipline: exactly the property's parenthesis - no new fid is allocated by two requests at once; other requests may name a fid "
        "while it is being allocated",
        "FileSys outcomes are scripted per operation; shared fids 0,1 plus one private allocation target per process",
        "data-race freedom is judged by the Go race detector on the same workloads (thorough tier only)"]
    q = tier == "quick"
    for cfg in ["FidConc_p2.cfg"] + ([] if q else ["FidConc_p3.cfg"]):
        r = tlc("fid", "FidConc", cfg, workers=16, timeout=1500)
        if not r.ok:
            raise vlib.Inconclusive("FidConc violates %s:\n%s" % (r.violation, r.out[-3000:]))
        ck.add_cov(states=r.distinct, transitions=r.generated)
        ck.cov.setdefault("tlc_runs", []).append({"cfg": cfg, **r.summary()})
    for acfg in ("FidConc_asis.cfg", "FidConc_asis_del.cfg", "FidConc_nonil.cfg"):
        ra = tlc("fid", "FidConc", acfg, workers=8, timeout=600)
        if ra.violation is None:
            raise vlib.Inconclusive("%s: no violation found (vacuity guard failed)" % acfg)
        ck.cov["tlc_runs"].append({"cfg": acfg, "expected_violation": ra.violation})
    tp = os.path.join(OUT, "fidconc-%d.ndjson" % os.getpid())
    doc = harness(["fidconc", "-n", "400" if q else "6000", "-trace", tp], timeout=1500)
    if doc.get("extra", {}).get("error"):
        raise vlib.Inconclusive("fidconc harness: " + doc["extra"]["error"])
    ck.take(doc)
    n = _validate_lin(ck, tp)
    os.unlink(tp)
    # sequential self-deadlocks / locks left behind are also reached by the LTS replay of the fid engine
    files = _lts("quick", ck)
    for p in files:
        d2 = harness(["fid", "-lts", p, "-random", "100", "-depth", "30"], timeout=1500)
        d2["violations"] = [v for v in d2.get("violations") or [] if v.get("tag") == "hang"]
        d2["samples"] = []
        ck.take(d2, prefix="seq_")
        os.unlink(p)
    if not q:
        tp2 = os.path.join(OUT, "fidconc-race-%d.ndjson" % os.getpid())
        try:
            d3 = harness(["fidconc", "-n", "1500", "-trace", tp2], timeout=1500, race=True, ok_codes=(0, 66))
            races = d3["_stdout"].count("WARNING: DATA RACE")
            ck.add_cov(race_detector_reports=races)
            if races:
                import re
                first = d3["_stdout"][d3["_stdout"].index("WARNING: DATA RACE"):][:2500]
                ck.violation("data-race", "the Go race detector reports %d data race(s) in concurrent session use\n%s" % (races, first),
                             {"engine": "fidconc", "race": first})
        finally:
            if os.path.exists(tp2):
                os.unlink(tp2)
    ck.add_cov(traces_validated_against_impl=n,
               rule="seeded random concurrent workloads (2-4 goroutines x 1-3 session calls on shared fids, random yields inside FileSys "
                    "calls) on the real SFileSys; every recorded history is validated by TLC for mutual exclusion per entry and "
                    "linearizability (search for linearization points); evaluations = histories, distinct_nontrivial = distinct event sequences")
    return ck.finish()
