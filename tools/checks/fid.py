"""Engine fid: FidTable.tla (reference fid table) -> LTS -> replay on p9p.SFileSys(scriptedFS).
Serves C08 (state machine) and C13 (release exactly once)."""
import json, os
import vlib
from vlib import Check, tlc, harness, OUT


def _lts(tier, ck):
    """Exhaustive LTS of the 2-fid instance; thorough adds the 3-fid instance (model-checked in full; its LTS
    emitted with every state-changing transition and a 1-in-40 sample of the others)."""
    files = []
    p = os.path.join(OUT, "fid-quick.lts")
    r = tlc("fid", "FidLTS", "FidLTS_quick.cfg", workers=8, timeout=600, printed_to=p)
    if not r.ok:
        raise vlib.Inconclusive("FidTable model violates its own property %s:\n%s" % (r.violation, r.out[-3000:]))
    files.append(p)
    ck.add_cov(states=r.distinct, transitions=r.generated, exhaustive=True,
               tlc_runs=[{"cfg": "FidLTS_quick.cfg", "edges_emitted": r.nprinted, **r.summary()}])
    if tier == "thorough":
        r2 = tlc("fid", "FidTable", "FidTable_big.cfg", workers=16, timeout=1500)
        if not r2.ok:
            raise vlib.Inconclusive("FidTable (big) violates its own property %s:\n%s" % (r2.violation, r2.out[-3000:]))
        ck.add_cov(states=r2.distinct, transitions=r2.generated)
        ck.cov["tlc_runs"].append({"cfg": "FidTable_big.cfg", **r2.summary()})
        p = os.path.join(OUT, "fid-mid.lts")
        r3 = tlc("fid", "FidLTS", "FidLTS_mid.cfg", workers=8, timeout=1500, printed_to=p)
        if not r3.ok:
            raise vlib.Inconclusive("FidTable (mid) violates its own property %s:\n%s" % (r3.violation, r3.out[-3000:]))
        files.append(p)
        ck.add_cov(states=r3.distinct, transitions=r3.generated)
        ck.cov["tlc_runs"].append({"cfg": "FidLTS_mid.cfg", "edges_emitted": r3.nprinted, **r3.summary()})
    return files


def _run(pid, tier, tags, level_assumptions):
    ck = Check(pid, tier, "model_checking")
    ck.assumptions = level_assumptions
    files = _lts(tier, ck)
    nrand, depth = (300, 30) if tier == "quick" else (3000, 60)
    traces = 0
    for p in files:
        doc = harness(["fid", "-lts", p, "-random", str(nrand), "-depth", str(depth)], timeout=1500)
        if doc.get("extra", {}).get("error"):
            raise vlib.Inconclusive("fid harness: " + doc["extra"]["error"])
        doc["violations"] = [v for v in doc.get("violations") or [] if v.get("tag") in tags]
        traces += doc["extra"].get("histories", 0)
        ck.take(doc)
        os.unlink(p)
    ck.add_cov(traces_validated_against_impl=traces,
               rule="every transition of the TLC-computed LTS of FidTable is executed at least once on "
                    "p9p.SFileSys(scriptedFS) (edge-cover tours from the initial state) plus seeded random walks; "
                    "evaluations = executed model steps, distinct_nontrivial = distinct LTS edges covered; after "
                    "every step result class, FileSys calls, probed fid table and per-entry release counts are compared")
    return ck.finish()


def c08(tier):
    return _run("C08", tier, ("state", "hang"), [
        "FileSys behaviour is scripted by the model (found/partial/not found/error/nil result); fids {0,7,0xFFFFFFFE,NOFID}",
        "in-place walk of an opened fid and create through an opened fid are not generated (9P forbids them; property silent)",
        "error classes other than unknown-fid/duplicate-fid/ok-vs-error are compared as model_drift only"])


def c13(tier):
    return _run("C13", tier, ("release", "hang"), [
        "an entry counts as released by Dirent.Clunk, Dirent.Remove or by being the receiver of a successful Dirent.Create",
        "entries returned by incomplete walks are placeholders that must never be used or released",
        "every history ends with Session.Stop, so stop strikes at every reachable table state"])
