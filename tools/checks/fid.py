"""Engine fid: FidTable.tla (reference fid table) -> LTS -> replay on p9p.SFileSys(scriptedFS).
Serves C08 (state machine) and C13 (release exactly once)."""
import json, os
import vlib
from vlib import Check, tlc, harness, OUT


def _lts(tier, ck):
    """Exhaustive LTS of the quick instance; thorough adds a seeded simulation of the big instance."""
    files = []
    r = tlc("fid", "FidLTS", "FidLTS_quick.cfg", workers=8, timeout=600, want_printed=True)
    if not r.ok:
        raise vlib.Inconclusive("FidTable model violates its own property %s:\n%s" % (r.violation, r.out[-3000:]))
    p = os.path.join(OUT, "fid-quick.lts")
    with open(p, "w") as f:
        for e in r.printed:
            f.write(json.dumps(e) + "\n")
    files.append(p)
    ck.add_cov(states=r.distinct, transitions=r.generated, exhaustive=True,
               tlc_runs=[{"cfg": "FidLTS_quick.cfg", **r.summary()}])
    if tier == "thorough":
        r2 = tlc("fid", "FidTable", "FidTable_big.cfg", workers=16, timeout=1500)
        if not r2.ok:
            raise vlib.Inconclusive("FidTable (big) violates its own property %s:\n%s" % (r2.violation, r2.out[-3000:]))
        ck.add_cov(states=r2.distinct, transitions=r2.generated)
        ck.cov["tlc_runs"].append({"cfg": "FidTable_big.cfg", **r2.summary()})
        r3 = tlc("fid", "FidLTS", "FidLTS_big.cfg", workers=4, timeout=900, want_printed=True,
                 simulate="num=400", depth=40, extra=["-seed", str(vlib.seed())])
        p = os.path.join(OUT, "fid-bigsim.lts")
        with open(p, "w") as f:
            for e in r3.printed:
                f.write(json.dumps(e) + "\n")
        files.append(p)
        ck.cov["tlc_runs"].append({"cfg": "FidLTS_big.cfg -simulate", "edges": len(r3.printed), "wall_s": round(r3.wall, 1)})
    return files


def _run(pid, tier, tags, level_assumptions):
    ck = Check(pid, tier, "model_checking")
    ck.assumptions = level_assumptions
    files = _lts(tier, ck)
    nrand, depth = (300, 30) if tier == "quick" else (4000, 60)
    traces = 0
    for p in files:
        doc = harness(["fid", "-lts", p, "-random", str(nrand), "-depth", str(depth)], timeout=1500)
        if doc.get("extra", {}).get("error"):
            raise vlib.Inconclusive("fid harness: " + doc["extra"]["error"])
        doc["violations"] = [v for v in doc.get("violations") or [] if v.get("tag") in tags]
        traces += doc["extra"].get("histories", 0)
        ck.take(doc)
        os.unlink(p)
    ck.add_cov(traces_validated_against_impl=traces,
               rule="every transition of the TLC-computed LTS of FidTable is executed at least once on "
                    "p9p.SFileSys(scriptedFS) (edge-cover tours from the initial state) plus seeded random walks; "
                    "evaluations = executed model steps, distinct_nontrivial = distinct LTS edges covered; after "
                    "every step result class, FileSys calls, probed fid table and per-entry release counts are compared")
    return ck.finish()


def c08(tier):
    return _run("C08", tier, ("state", "hang"), [
        "FileSys behaviour is scripted by the model (found/partial/not found/error/nil result); fids {0,7,0xFFFFFFFE,NOFID}",
        "in-place walk of an opened fid and create through an opened fid are not generated (9P forbids them; property silent)",
        "error classes other than unknown-fid/duplicate-fid/ok-vs-error are compared as model_drift only"])


def c13(tier):
    return _run("C13", tier, ("release", "hang"), [
        "an entry counts as released by Dirent.Clunk, Dirent.Remove or by being the receiver of a successful Dirent.Create",
        "entries returned by incomplete walks are placeholders that must never be used or released",
        "every history ends with Session.Stop, so stop strikes at every reachable table state"])
