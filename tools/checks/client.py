"""Engine client (C05, C12): ClientImpl.tla (transport.send/handle/reader, allocateTag) checked by TLC;
TLC behaviours replayed as peer/caller schedules on the real CSession; traces validated by TLC (ClientTrace.tla)."""
import json, os, re
import vlib
from vlib import Check, tlc, harness, OUT

C05 = {"reply-delivered-to-wrong-call", "success-without-own-reply", "error-reply-delivered-to-wrong-call",
       "tag-reused-while-outstanding", "notag-used-for-request", "call-returned-twice", "call-never-returned", "spurious-failure"}
C12 = {"call-never-returned", "context-error-without-cancel", "spurious-failure", "wrong-typed-reply-delivered-as-success",
       "unexpected-message-error-without-cause", "call-returned-twice"}


def to_scenario(name, labels, with_faults, repeat=0):
    steps, nrogue, ended = [], 0, set()
    for a in labels:
        k, i = a["a"], a["i"]
        if k == "invoke":
            steps.append({"a": "start", "i": i})
        elif k == "dispatch":
            if i not in ended:      # (a request whose context has ended never reaches the wire)
                steps.append({"a": "await_req", "i": i})
        elif k == "ctxret":
            steps.append({"a": "await_ret", "i": i})
        elif k == "reply" and i > 0:
            kind = a["k"]
            if not with_faults and kind == "badtype":
                kind = "err"
            steps.append({"a": "reply", "i": i, "kind": kind})
        elif k == "rogue" and with_faults:
            nrogue += 1
            steps.append({"a": "rogue", "k": nrogue})
        elif k == "deliver" and i > 0:
            steps.append({"a": "await_ret", "i": i})
        elif k == "cancel":
            ended.add(i)
            steps.append({"a": "cancel", "i": i})
        elif k in ("stall", "resume") and with_faults:
            steps.append({"a": k})      # the peer stops / resumes reading (the handle loop blocks in its request write)
        elif k == "fault" and with_faults:
            steps.append({"a": "fault", "k": len(steps)})
    sc = {"name": name, "steps": steps}
    if repeat:
        sc["repeat"] = repeat
    return sc


def simulate(num, depth):
    r = tlc("client", "ClientSim", "ClientSim.cfg", workers=1, timeout=600, want_printed=True,
            simulate="num=%d" % num, depth=depth, extra=["-seed", str(vlib.seed())])
    behs, cur = [], []
    for lvl, act in r.printed:
        if lvl == 1 and cur:
            behs.append(cur)
            cur = []
        cur.append(act)
    if cur:
        behs.append(cur)
    return behs


def validate(ck, tp, classes, runs):
    """TLC trace validation (ClientTrace.tla): one linear pass; the spec prints the verdict of every bad run."""
    with open(tp) as f:
        lines = f.read().splitlines()
    traces, cur, n = {}, [], 0
    for ln in lines:
        cur.append(ln)
        if '"e":"reset"' in ln:
            n += 1
            traces[n] = cur
            cur = []
    r = tlc("client", "ClientTrace", "ClientTrace.cfg", workers=1, timeout=2400, env_extra={"TRACE": tp}, javaopts="-Xss64m", want_printed=True)
    if not r.ok:
        raise vlib.Inconclusive("client trace validation failed (%s):\n%s" % (r.violation, r.out[-3000:]))
    for v in r.printed:
        if not v.get("bad"):
            continue
        evs = [json.loads(x) for x in traces.get(v["tr"], [])]
        name = runs.get(str(v.get("run", 0)), "?")
        bad = v["bad"]
        faulted = any(e["e"] == "fault" for e in evs)
        mine = bad in classes and not (bad == "call-never-returned" and ((ck.pid == "C05") == faulted))
        if mine:
            ck.violation("contract:" + bad, "recorded run %s (scenario %s) breaks the contract: %s" % (v.get("run"), name, bad),
                         {"engine": "client", "scenario": name, "trace": evs[:300]})
        else:
            ck.notes.append("contract class %s seen in scenario %s (belongs to another property)" % (bad, name))
    ck.notes[:] = sorted(set(ck.notes))[:20]
    return n


def _run(pid, tier, classes, with_faults):
    ck = Check(pid, tier, "model_checking")
    q = tier == "quick"
    r = tlc("client", "ClientImpl", "ClientImpl_quick.cfg", workers=16, timeout=1500)
    if not r.ok:
        raise vlib.Inconclusive("ClientImpl violates %s:\n%s" % (r.violation, r.out[-3000:]))
    ck.add_cov(states=r.distinct, transitions=r.generated, tlc_runs=[{"cfg": "ClientImpl_quick.cfg", **r.summary()}])
    if not q:
        r2 = tlc("client", "ClientImpl", "ClientImpl_thorough.cfg", workers=16, timeout=2400)
        if not r2.ok:
            raise vlib.Inconclusive("ClientImpl (thorough) violates %s:\n%s" % (r2.violation, r2.out[-3000:]))
        ck.add_cov(states=r2.distinct, transitions=r2.generated)
        ck.cov["tlc_runs"].append({"cfg": "ClientImpl_thorough.cfg", **r2.summary()})
    if with_faults:
        ra = tlc("client", "ClientImpl", "ClientImpl_asis.cfg", workers=8, timeout=600, dump_trace=True)
        if ra.violation is None:
            raise vlib.Inconclusive("ClientImpl as-is: no violation (vacuity guard failed)")
        ck.cov["tlc_runs"].append({"cfg": "ClientImpl_asis.cfg", "expected_violation": ra.violation})
        rn = tlc("client", "ClientImpl", "ClientImpl_nooffer.cfg", workers=8, timeout=600)
        if rn.violation is None:
            raise vlib.Inconclusive("ClientImpl nooffer: no violation (vacuity guard failed)")
        ck.cov["tlc_runs"].append({"cfg": "ClientImpl_nooffer.cfg", "expected_violation": rn.violation})
        rc = tlc("client", "ClientImpl", "ClientImpl_ctxclose.cfg", workers=8, timeout=600)
        if rc.violation is None:
            raise vlib.Inconclusive("ClientImpl ctxclose: no violation (vacuity guard failed)")
        ck.cov["tlc_runs"].append({"cfg": "ClientImpl_ctxclose.cfg", "expected_violation": rc.violation})
    if not with_faults:
        # the connection's read deadline register: only the reader arms it (a call's deadline cannot desynchronise the stream)
        for cfg, expect in (("ConnReadDeadline.cfg", None), ("ConnReadDeadline_slip.cfg", "NoDesync")):
            rr = tlc("stack", "ConnReadDeadline", cfg, workers=1, timeout=300)
            if (expect is None and not rr.ok) or (expect is not None and rr.violation != expect):
                raise vlib.Inconclusive("ConnReadDeadline %s: expected %s, TLC says %s" % (cfg, expect or "no violation", rr.violation))
            ck.cov["tlc_runs"].append({"cfg": cfg, "expected_violation": expect, **rr.summary()})
    behs = simulate(150 if q else 2000, 40)
    scs = [to_scenario("sim-%d" % i, b, with_faults, 1 if q else 2) for i, b in enumerate(behs)]
    if with_faults and ra.trace_json:
        labels = [st[1]["act"] for st in ra.trace_json["counterexample"]["state"]]
        scs.insert(0, to_scenario("tlc-cex-unknown-tag", labels, True, 2))
    # calls issued with a context that has already ended (deadline passed / cancelled), next to ordinary calls
    st = []
    for k in range(1, 13):
        st += [{"a": "start", "i": 2 * k, "kind": "expired"}, {"a": "start", "i": 2 * k + 1}, {"a": "await_req", "i": 2 * k + 1},
               {"a": "reply", "i": 2 * k + 1, "kind": "ok"}, {"a": "await_ret", "i": 2 * k + 1}, {"a": "await_ret", "i": 2 * k}]
    scs.append({"name": "expired-context-calls", "steps": st, "repeat": 3})
    if not with_faults:
        scs.append({"name": "tag-wrap-true-width", "steps": [], "wrap": 132000 if q else 200000})
        # all permutations of reply order for 4 concurrent callers
        import itertools
        for k, perm in enumerate(itertools.permutations([1, 2, 3, 4])):
            steps = [{"a": "start", "i": i} for i in (1, 2, 3, 4)] + [{"a": "await_req", "i": i} for i in (1, 2, 3, 4)]
            steps += [{"a": "reply", "i": i, "kind": "err" if (i + k) % 3 == 0 else "ok"} for i in perm]
            scs.append({"name": "perm-%s" % "".join(map(str, perm)), "steps": steps})
    sp = os.path.join(OUT, "client-sc-%s.ndjson" % pid)
    tp = os.path.join(OUT, "client-tr-%s.ndjson" % pid)
    with open(sp, "w") as f:
        for s in scs:
            f.write(json.dumps(s) + "\n")
    doc = harness(["client", "-scenarios", sp, "-trace", tp] + (["-wrongtype"] if with_faults else []), timeout=1500, allow_crash=True)
    if not q and not with_faults:
        # "concurrent use is free of data races": the same schedules under the Go race detector
        tp2 = tp + ".race"
        d3 = harness(["client", "-scenarios", sp, "-trace", tp2], timeout=2400, race=True, ok_codes=(0, 66), allow_crash=True)
        out3 = d3.get("_stdout", "")
        races = out3.count("WARNING: DATA RACE")
        ck.add_cov(race_detector_reports=races)
        if races:
            first = out3[out3.index("WARNING: DATA RACE"):][:3000]
            ck.violation("data-race", "the Go race detector reports %d data race(s) in concurrent use of one client session\n%s" % (races, first), {"race": first})
        if os.path.exists(tp2):
            os.unlink(tp2)
    os.unlink(sp)
    if doc.get("crashed"):
        out = doc["_stdout"]
        if "panic:" in out and "github.com/frobnitzem/go-p9p" in out:
            i = out.index("panic:")
            if pid == "C12":
                ck.violation("client-process-crashed", "the client process crashed while talking to the scripted peer:\n" + out[i:i + 1500],
                             {"engine": "client", "stdout": out[i:i + 3000]})
                ck.add_cov(evaluations=len(scs), distinct_nontrivial=len(scs), samples=scs[:2], traces_validated_against_impl=0)
                return ck.finish()
            raise vlib.Inconclusive("client process crashed (a C12 matter):\n" + out[i:i + 800])
        raise vlib.Inconclusive("client harness failed rc=%s:\n%s" % (doc.get("rc"), out[-3000:]))
    if doc.get("extra", {}).get("error"):
        raise vlib.Inconclusive("client harness: " + doc["extra"]["error"])
    runs = doc["extra"].pop("run_names", {})
    hv = doc.get("violations") or []
    if any(v["tag"] == "harness" for v in hv):
        raise vlib.Inconclusive("client harness problem: %s" % [v for v in hv if v["tag"] == "harness"][0])
    doc["violations"] = [v for v in hv if v["tag"] == pid]
    ck.take(doc)
    n = validate(ck, tp, classes, runs)
    os.unlink(tp)
    ck.add_cov(traces_validated_against_impl=n,
               rule="schedules = caller/peer projection of TLC behaviours of ClientImpl (seeded simulation); C05 adds all 24 reply orders of 4 concurrent "
                    "callers and a true-width tag wrap (3 calls parked across >65535 sequential calls); C12 adds unsolicited / repeated-tag / "
                    "wrong-typed replies and 6 fault kinds (close, read error, impossible prefix, undecodable frame, stream cut, session cancel); "
                    "every recorded trace validated by TLC against ClientTrace.tla; evaluations = scenario runs")
    return ck.finish()


def c05(tier):
    return _run("C05", tier, C05, False)


def c12(tier):
    return _run("C12", tier, C12, True)
