"""Engine path (C16): PathRes.tla (stepwise resolution) enumerated by TLC -> real path helpers."""
import os
import vlib
from vlib import Check, tlc, harness, OUT


def c16(tier):
    ck = Check("C16", tier, "exploration")
    ck.assumptions = ["exhaustive within the bounds: canonical directories of depth <=3 over {a,b} x name lists of length <=3 (quick) / <=4 (thorough) over a "
                      "12-symbol alphabet with every special form ('', '.', '..', names with '/' or '\\\\', '/', names containing dots, a name with a space)"]
    cfg = "PathRes_quick.cfg" if tier == "quick" else "PathRes_thorough.cfg"
    vp = os.path.join(OUT, "path-%d.ndjson" % os.getpid())
    r = tlc("path", "PathRes", cfg, workers=1, timeout=2400, printed_to=vp, javaopts="-Xss64m")
    if not r.ok:
        raise vlib.Inconclusive("PathRes failed / lemma violated:\n" + r.out[-3000:])
    ck.cov["tlc_runs"] = [{"cfg": cfg, "vectors_emitted": r.nprinted, "wall_s": round(r.wall, 1),
                           "lemmas": "result canonical and never above root; Normalize idempotent, valid, identity on valid lists, agrees with stepwise resolution"}]
    try:
        doc = harness(["path", "-vectors", vp], timeout=2400)
    finally:
        os.unlink(vp)
    if doc.get("extra", {}).get("error"):
        raise vlib.Inconclusive("path harness: " + doc["extra"]["error"])
    ck.take(doc)
    ck.add_cov(exhaustive=True,
               rule="every input of the bounded space is enumerated by TLC with the specification's result (ValidPath, NormalizePath, WalkName per directory, "
                    "CreateName per directory and name) and compared with the real helper; all inputs are distinct")
    return ck.finish()
