"""Engine ramfs (C18): RamFS.tla -> LTS / simulation -> replay on ramfs behind SFileSys; concurrent sessions under the race detector."""
import os
import vlib
from vlib import Check, tlc, harness, OUT


def _ok(doc, what):
    if doc.get("extra", {}).get("error"):
        raise vlib.Inconclusive("%s harness: %s" % (what, doc["extra"]["error"]))
    hv = doc.get("violations") or []
    if any(v["tag"] == "harness" for v in hv):
        raise vlib.Inconclusive("%s harness problem: %s" % (what, [v for v in hv if v["tag"] == "harness"][0]))


def c18(tier):
    ck = Check("C18", tier, "model_checking")
    q = tier == "quick"
    ck.assumptions = ["offsets are symbolic classes (0, 1, end, end+1, negative-as-int64: -2^63 / -2 / -2^40, 2^64-1) resolved against the file length; counts 0,1,2,9",
                      "hooks (build tag verif): ramfs.NewTestServer (fresh server per history), VerifTree (snapshot of the live tree), VerifValidate (nref = parent links)",
                      "exhaustive LTS: 1 session x 2 fids x 3 nodes (state-changing transitions all, others sampled 1 in 4); two sessions x 3 fids x 4 nodes by seeded "
                      "TLC simulation; truly concurrent sessions are checked for panics, data races and final reference counts only, not for linearizability",
                      "stat results and wstat of anything but the length are not part of the verdict"]
    p1 = os.path.join(OUT, "ram-small-%d.lts" % os.getpid())
    r = tlc("ramfs", "RamLTS", "RamLTS_small.cfg", workers=8, timeout=1500, printed_to=p1)
    if not r.ok:
        raise vlib.Inconclusive("RamFS model violates %s:\n%s" % (r.violation, r.out[-3000:]))
    ck.add_cov(states=r.distinct, transitions=r.generated, tlc_runs=[{"cfg": "RamLTS_small.cfg", "edges_emitted": r.nprinted, **r.summary()}])
    if not q:
        r2 = tlc("ramfs", "RamFS", "RamFS_mid.cfg", workers=16, timeout=2400)
        if not r2.ok:
            raise vlib.Inconclusive("RamFS (2 sessions) violates %s:\n%s" % (r2.violation, r2.out[-3000:]))
        ck.add_cov(states=r2.distinct, transitions=r2.generated)
        ck.cov["tlc_runs"].append({"cfg": "RamFS_mid.cfg", **r2.summary()})
    p2 = os.path.join(OUT, "ram-sim-%d.lts" % os.getpid())
    r3 = tlc("ramfs", "RamLTS", "RamLTS_sim.cfg", workers=1, timeout=1500, printed_to=p2,
             simulate="num=%d" % (400 if q else 4000), depth=45, extra=["-seed", str(vlib.seed())])
    ck.cov["tlc_runs"].append({"cfg": "RamLTS_sim.cfg -simulate", "edges_emitted": r3.nprinted, "wall_s": round(r3.wall, 1)})
    # goal-directed behaviours (TLC refutes "never reached"): a walk two levels up and down into another branch
    p3 = os.path.join(OUT, "ram-goal-%d.lts" % os.getpid())
    rg, ng = vlib.goal_lts("ramfs", "RamFS", "RamFS_goal_upupdown.cfg", ["kind", "child", "data", "tab"], p3)
    ck.cov["tlc_runs"].append({"cfg": "RamFS_goal_upupdown.cfg", "goal_reached_via": rg.violation, "steps": ng})
    traces = 0
    try:
        for p, nr in ((p1, 200 if q else 2000), (p2, 100 if q else 1000), (p3, 2)):
            doc = harness(["ramfs", "-lts", p, "-random", str(nr), "-depth", "40"], timeout=2400)
            _ok(doc, "ramfs")
            traces += doc["extra"].get("histories", 0)
            ck.take(doc)
    finally:
        for p in (p1, p2, p3):
            if os.path.exists(p):
                os.unlink(p)
    # concurrent sessions
    doc = harness(["ramconc", "-rounds", "30" if q else "150"], timeout=2400)
    _ok(doc, "ramconc")
    doc["samples"] = []
    ck.take(doc, prefix="conc_")
    if not q:
        d3 = harness(["ramconc", "-rounds", "80"], timeout=2400, race=True, ok_codes=(0, 66))
        out = d3["_stdout"]
        races = out.count("WARNING: DATA RACE")
        ck.add_cov(race_detector_reports=races)
        if races:
            first = out[out.index("WARNING: DATA RACE"):][:3000]
            ck.violation("data-race", "the Go race detector reports %d data race(s) between sessions sharing the tree\n%s" % (races, first),
                         {"engine": "ramconc", "race": first})
    ck.add_cov(traces_validated_against_impl=traces,
               rule="edge-cover tours + seeded random walks over the TLC-computed LTS of RamFS.tla (and over TLC-simulated behaviours of the two-session "
                    "instance); per step: result class, read data, listing, walk qid, the whole live tree and the node of every fid are compared with the "
                    "model; reference counts validated whenever no fid is bound; evaluations = executed steps, distinct_nontrivial = distinct LTS edges")
    return ck.finish()
