"""Engine ufs (C15, C19): HostFS.tla -> TLC-simulated request sequences -> ufs behind SFileSys vs twin directory (direct OS calls) vs model."""
import os, shutil
import vlib
from vlib import Check, tlc, harness, OUT


def _run(pid, tier, cfg, mode, note, focus=None):
    ck = Check(pid, tier, "model_checking")
    q = tier == "quick"
    ck.assumptions = note
    r = tlc("ufs", "HostFS", "HostFS_small.cfg", workers=16, timeout=1500)
    if not r.ok:
        raise vlib.Inconclusive("HostFS model violates %s:\n%s" % (r.violation, r.out[-3000:]))
    ck.add_cov(states=r.distinct, transitions=r.generated, tlc_runs=[{"cfg": "HostFS_small.cfg (exhaustive)", **r.summary()}])
    p = os.path.join(OUT, "ufs-%s-%d.lts" % (mode, os.getpid()))
    sb = os.path.join(OUT, "ufs-sb-%d" % os.getpid())
    r2 = tlc("ufs", "HostLTS", cfg, workers=1, timeout=1500, printed_to=p,
             simulate="num=%d" % (400 if q else 5000), depth=45, extra=["-seed", str(vlib.seed())])
    if r2.violation:
        raise vlib.Inconclusive("HostFS simulation violates %s:\n%s" % (r2.violation, r2.out[-3000:]))
    ck.cov["tlc_runs"].append({"cfg": cfg + " -simulate", "edges_emitted": r2.nprinted, "wall_s": round(r2.wall, 1)})
    try:
        doc = harness(["ufs", "-lts", p, "-sandbox", sb, "-mode", mode, "-random", "50" if q else "500"], timeout=2400)
    finally:
        os.unlink(p)
        shutil.rmtree(sb, ignore_errors=True)
    def take(doc, prefix=""):
        if doc.get("extra", {}).get("error"):
            raise vlib.Inconclusive("ufs harness: " + doc["extra"]["error"])
        hv = doc.get("violations") or []
        if any(v["tag"] == "harness" for v in hv):
            raise vlib.Inconclusive("ufs harness problem: %s" % [v for v in hv if v["tag"] == "harness"][0])
        doc["violations"] = [v for v in hv if v["tag"] == pid]
        if prefix:
            ck.take(doc, prefix=prefix)
        else:
            ck.take(doc)
        return doc["extra"].get("histories", 0)
    n = take(doc)
    if focus:
        # the complete LTS of a one-name instance (all open modes): every transition replayed, so that every short
        # combination (e.g. open in each mode, then truncate / chmod / rename / create-again on the same fid) is covered
        p2 = os.path.join(OUT, "ufs-focus-%d.lts" % os.getpid())
        r3 = tlc("ufs", "HostLTS", focus, workers=8, timeout=1500, printed_to=p2)
        if not r3.ok:
            raise vlib.Inconclusive("HostFS (focus instance) violates %s:\n%s" % (r3.violation, r3.out[-3000:]))
        ck.add_cov(states=r3.distinct, transitions=r3.generated)
        ck.cov["tlc_runs"].append({"cfg": focus + " (exhaustive)", "edges_emitted": r3.nprinted, **r3.summary()})
        try:
            d2 = harness(["ufs", "-lts", p2, "-sandbox", sb + "f", "-mode", mode, "-random", "20" if q else "300"], timeout=2400)
        finally:
            os.unlink(p2)
            shutil.rmtree(sb + "f", ignore_errors=True)
        d2["samples"] = []
        n += take(d2, prefix="focus_")
    ck.add_cov(traces_validated_against_impl=n)
    return ck


def c15(tier):
    ck = _run("C15", tier, "HostLTS_sim15.cfg", "c15", [
        "hostile alphabet in walk, create and rename: '', '.', '..', 'a/b', '/', '/etc', 'a\\\\b', '../x', chains of '..' longer than the depth, from depths 0..2",
        "oracle independent of the model: after every request everything under the sandbox outside the export (sentinel files, a sibling named "
        "'export-evil', a sibling file 'a', a sibling directory 'etc', the entry list) is byte-identical and the export root keeps its inode",
        "the check runs as root: permission denials cannot contribute to confinement; pre-existing symlinks are out of scope as the property states"])
    ck.add_cov(rule="request sequences = TLC simulation of HostFS.tla with the hostile alphabet (seeded); every distinct transition is replayed on "
                    "ufs.NewServer(T/export) behind SFileSys (edge cover + random walks); evaluations = requests executed, distinct_nontrivial = distinct "
                    "model transitions covered")
    return ck.finish()


def c19(tier):
    ck = _run("C19", tier, "HostLTS_sim19.cfg", "c19", [
        "the oracle is the host: each accepted request is also performed as the equivalent direct OS call on a twin directory; ufs tree == twin tree "
        "(names, kinds, contents, permission bits) after every step, read data == twin file data, stat/listing through freshly walked fids == os.Stat/os.ReadDir of the twin",
        "umask 0; runs as root (permission denials are not reachable); names are ordinary names and '..'; rename onto an existing name is not generated",
        "model vs twin disagreement is reported as model_drift, not as a violation"], focus="HostLTS_focus.cfg")
    ck.add_cov(rule="request sequences = TLC simulation of HostFS.tla (2-3 fids, tree depth <=2, files <=3 bytes, 3 creation modes, 3 chmod modes, "
                    "read/write/rdwr with and without truncate); every distinct transition replayed three-way (ufs, twin, model)")
    return ck.finish()
