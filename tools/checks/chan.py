"""Engine chan (C02, C03, C10): ChanWrite.tla / ChanRead.tla / Negotiate.tla against the real channel."""
import json, os
import vlib
from vlib import Check, tlc, harness, OUT
from checks.wire import vectors


def _harness_ok(doc, what):
    if doc.get("extra", {}).get("error"):
        raise vlib.Inconclusive("%s harness: %s" % (what, doc["extra"]["error"]))
    hv = doc.get("violations") or []
    if any(v["tag"] == "harness" for v in hv):
        raise vlib.Inconclusive("%s harness problem: %s" % (what, [v for v in hv if v["tag"] == "harness"][0]))


def c02(tier):
    ck = Check("C02", tier, "exploration")
    ck.assumptions = ["msize is swept within +-40 (quick) / +-120 (thorough) bytes of every message's own frame size, clipped to [24, 2^20], plus 24, 65536, 2^20; not all of [24, 2^20]",
                      "counts >= 2^31 are not TLC integers: the spec treats them as one class 'big' (larger than any msize)",
                      "expected frames are the Wire9P encodings of the (shortened / clamped) message"]
    r = tlc("chan", "ChanWrite", "ChanWrite.cfg", workers=16, timeout=900)
    if not r.ok:
        raise vlib.Inconclusive("ChanWrite violates %s:\n%s" % (r.violation, r.out[-2000:]))
    ck.cov["tlc_runs"] = [{"cfg": "ChanWrite.cfg (scaled instance, exhaustive)", **r.summary()}]
    vp, n = vectors(ck)
    tp = os.path.join(OUT, "chanw-tuples-%d.ndjson" % os.getpid())
    op = os.path.join(OUT, "chanw-out-%d.ndjson" % os.getpid())
    try:
        d0 = harness(["chanw", "-vectors", vp, "-tuples", tp], timeout=600)
        _harness_ok(d0, "chanw")
        cfgtxt = open(os.path.join(vlib.SPECS, "chan", "ChanVectors.cfg")).read()
        if tier != "quick":
            cfgtxt = cfgtxt.replace("Delta = 40", "Delta = 120")
        r2 = tlc("chan", "ChanVectors", "CV.cfg", workers=1, timeout=1500, printed_to=op, env_extra={"VECIN": tp}, files={"CV.cfg": cfgtxt})
        if not r2.ok:
            raise vlib.Inconclusive("ChanVectors failed:\n" + r2.out[-2000:])
        ck.cov["tlc_runs"].append({"module": "ChanVectors", "outcomes_emitted": r2.nprinted, "wall_s": round(r2.wall, 1)})
        doc = harness(["chanw", "-vectors", vp, "-outcomes", op], timeout=2400)
        _harness_ok(doc, "chanw")
    finally:
        for p in (vp, tp, op):
            if os.path.exists(p):
                os.unlink(p)
    ck.take(doc)
    ck.add_cov(model_states=r.distinct, model_transitions=r.generated,
               rule="every message vector of C01 plus synthetic Twrite/Rread sizes and Tread counts (incl. 2^31-1, 2^31, 2^32-1) x every msize "
                    "near its frame size x live/cancelled context; expected outcome computed by TLC from ChanWrite!WOut; compared: exact bytes "
                    "on the connection (or none), Overflow(err), caller buffers untouched; channels are reused across writes and half of them "
                    "resized with SetMSize; distinct_nontrivial = distinct (kind, size-msize, ctx, outcome) classes")
    return ck.finish()


def c03(tier):
    ck = Check("C03", tier, "model_checking")
    ck.assumptions = ["frame classes are concretised relative to msize in {64, 257, 8192}; chunkings: all-at-once, byte-wise, 3-byte, seeded random 1..9",
                      "a frame whose body is longer than its message needs is not generated (the property leaves it open)",
                      "a length prefix below 4 is treated as consuming its 4 bytes"]
    cfgtxt = open(os.path.join(vlib.SPECS, "chan", "ChanRead.cfg")).read()
    if tier != "quick":
        cfgtxt = cfgtxt.replace("MaxFrames = 3", "MaxFrames = 4")
    sp = os.path.join(OUT, "chanr-seqs-%d.ndjson" % os.getpid())
    r = tlc("chan", "ChanReadSeqs", "CR.cfg", workers=8, timeout=1500, printed_to=sp, files={"CR.cfg": cfgtxt})
    if not r.ok:
        raise vlib.Inconclusive("ChanRead violates %s:\n%s" % (r.violation, r.out[-2000:]))
    ck.add_cov(states=r.distinct, transitions=r.generated, exhaustive=True,
               tlc_runs=[{"module": "ChanReadSeqs", "sequences_emitted": r.nprinted, **r.summary()}])
    vp, n = vectors(ck)
    try:
        doc = harness(["chanr", "-vectors", vp, "-seqs", sp, "-stride", "2" if tier == "quick" else "5"], timeout=2400)
        _harness_ok(doc, "chanr")
    finally:
        for p in (vp, sp):
            if os.path.exists(p):
                os.unlink(p)
    ck.take(doc)
    ck.add_cov(traces_validated_against_impl=doc["extra"].get("streams_run", 0),
               rule="all sequences of <=3 (thorough: <=4, sampled 1 in 5) frames over 16 classes (valid of every kind, Tread to be clamped, exact fit, "
                    "oversize by 1/7/70000, undecodable type, string beyond body, body short by 1/3, prefix 0..4, stream cut mid-frame) x 3 msize x 4 "
                    "chunkings; every read compared with the outcome ChanRead.tla prescribes (message equality, exact overflow, error without panic); "
                    "evaluations = ReadFcall calls")
    return ck.finish()


def c10(tier):
    ck = Check("C10", tier, "model_checking")
    ck.assumptions = ["proposals/answers are a boundary-dense list (0,1,18..25,64,4096,65535..65537,2^20,2^31-1; 2^31 and 2^32-1 share the expectation of 2^31-1: "
                      "the decision is constant above the server's own maximum, checked by TLC on its integer range), not all of 0..2^32-1",
                      "the server's own maximum is p9p.DefaultMSize = 65536 (ServeConn offers no other)",
                      "the handshake model is exhaustive on a scaled instance (Own = 40, offers 0..63)"]
    r = tlc("chan", "Negotiate", "Negotiate.cfg", workers=8, timeout=600)
    if not r.ok:
        raise vlib.Inconclusive("Negotiate violates %s:\n%s" % (r.violation, r.out[-2000:]))
    ck.add_cov(states=r.distinct, transitions=r.generated, exhaustive=True, tlc_runs=[{"cfg": "Negotiate.cfg", **r.summary()}])
    vp = os.path.join(OUT, "neg-%d.ndjson" % os.getpid())
    r2 = tlc("chan", "NegVectors", "NegVectors.cfg", workers=1, timeout=600, printed_to=vp)
    if not r2.ok:
        raise vlib.Inconclusive("NegVectors failed:\n" + r2.out[-2000:])
    try:
        doc = harness(["neg", "-vectors", vp], timeout=1500)
        _harness_ok(doc, "neg")
    finally:
        os.unlink(vp)
    ck.take(doc)
    ck.add_cov(traces_validated_against_impl=int(doc.get("evaluations", 0)),
               rule="server side: every first-message kind x proposal x version string against the real ServeConn (answer, refusal without dispatch, then "
                    "a request of exactly msize accepted, msize+1 refused, a 2^32-1 read lowered, an over-long reply never emitted, every server frame "
                    "tapped); client side: every answer against the real CSession (adopted msize, 1 MiB write leaves as exactly msize, 1 MiB read asks "
                    "msize-11, a reply of exactly msize is accepted, every client frame tapped); expectations computed by TLC from Negotiate.tla")
    return ck.finish()
