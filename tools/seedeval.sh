#!/bin/sh
# seedeval.sh <property> <mutant-dir> <k> [tier]
# Confirms a seeded change (mutants/m<k>.diff + m<k>_demo_test.go produced in a scratch worktree),
# then runs the property's check against it in /repo and undoes it.  Prints a summary line:
#   SEED <property> m<k> confirm=<ok|FAIL:why> check=<caught|missed|inconclusive> sigs=<...>
set -u
P=$1; D=$2; K=$3; TIER=${4:-quick}
export GOPROXY=off GOSUMDB=off GOTOOLCHAIN=local
WT=/tmp/seedeval-$$
DIFF=$D/m$K.diff
DEMO=$D/m${K}_demo_test.go
[ -f "$DIFF" ] && [ -f "$DEMO" ] || { echo "SEED $P m$K confirm=FAIL:missing-files"; exit 0; }
# where does the demo go?  (package clause decides)
PKG=$(grep -m1 '^package ' "$DEMO" | awk '{print $2}')
case "$PKG" in p9p) SUB=. ;; ramfs) SUB=ramfs ;; ufs) SUB=ufs ;; sleepfs) SUB=sleepfs ;; *) SUB=. ;; esac
git -C /repo worktree add -q --detach $WT HEAD || { echo "SEED $P m$K confirm=FAIL:worktree"; exit 0; }
confirm=ok
cp "$DEMO" $WT/$SUB/zz_demo_test.go
( cd $WT && go test -vet=off -count=1 -run 'Test' ./$SUB >/tmp/seedeval-$$.clean 2>&1 ) || confirm="FAIL:demo-fails-on-clean-tree"
if [ "$confirm" = ok ]; then
  rm -f $WT/$SUB/zz_demo_test.go
  ( cd $WT && git apply "$DIFF" ) || confirm="FAIL:patch-does-not-apply"
fi
if [ "$confirm" = ok ]; then
  ( cd $WT && go build ./... >/dev/null 2>&1 && go test -vet=off -count=1 ./... >/tmp/seedeval-$$.suite 2>&1 ) || confirm="FAIL:suite-fails-with-patch"
fi
if [ "$confirm" = ok ]; then
  cp "$DEMO" $WT/$SUB/zz_demo_test.go
  if ( cd $WT && go test -vet=off -count=1 -run 'Test' ./$SUB >/tmp/seedeval-$$.demo 2>&1 ); then confirm="FAIL:demo-passes-with-patch"; fi
fi
git -C /repo worktree remove --force $WT
rm -f /tmp/seedeval-$$.*
if [ "$confirm" != ok ]; then echo "SEED $P m$K confirm=$confirm"; exit 0; fi
# run the check against the change in /repo itself, then undo it
git -C /repo apply "$DIFF" || { echo "SEED $P m$K confirm=ok check=inconclusive(apply)"; exit 0; }
OUT=$(cd /verif && ./vcheck $P $TIER 2>&1); rc=$?
git -C /repo checkout -- .
sigs=$(echo "$OUT" | grep -E '^\s+sig=' | sed -E 's/^\s+sig=([^ ]+).*/\1/' | sort -u | tr '\n' ',' | cut -c1-300)
case $rc in 1) res=caught ;; 0) res=missed ;; *) res="inconclusive($(echo "$OUT" | grep -m1 INCONCLUSIVE | cut -c1-200))" ;; esac
echo "SEED $P m$K confirm=ok check=$res tier=$TIER sigs=$sigs"
