------------------------------- MODULE PathRes -------------------------------
(***************************************************************************)
(* C16: the path helpers of go-p9p (path.go), specified from the property  *)
(* text by stepwise resolution on component sequences.  A canonical        *)
(* directory is a sequence of ordinary names (the root is <<>>).           *)
(*   Valid(names)  = number of leading ".." if no element contains a       *)
(*                   separator, is empty or ".", and ".." occurs only as a *)
(*                   leading run; otherwise -1                             *)
(*   WalkName      = rejected iff invalid or it would climb above the      *)
(*                   root; else the stepwise resolution of the names       *)
(*   CreateName    = rejected iff the name contains a separator or is "",  *)
(*                   "." or ".."; else dir + name                          *)
(*   Normalize     = drop "" and ".", ".." cancels a preceding ordinary    *)
(*                   name, a ".." that cannot cancel is kept and counted;  *)
(*                   idempotent; agrees with stepwise resolution           *)
(* TLC enumerates every canonical directory of depth <= MaxDepth over      *)
(* {a, b} and every name list of length <= MaxLen over an alphabet with    *)
(* all special forms, checks the lemmas below and prints the expected      *)
(* results for the conformance harness.                                    *)
(***************************************************************************)
EXTENDS Integers, Sequences, FiniteSets, TLC, Json

CONSTANTS MaxDepth, MaxLen

Alphabet == {"", ".", "..", "a", "b", "a/b", "a\\b", "/", "..a", "...", "a.", "c d"}
SepNames == {"a/b", "a\\b", "/"}
Ordinary(s) == s \notin SepNames /\ s \notin {"", ".", ".."}

RECURSIVE Lead(_)
Lead(ns) == IF ns = <<>> \/ Head(ns) # ".." THEN 0 ELSE 1 + Lead(Tail(ns))
Valid(ns) ==
  IF \E i \in 1..Len(ns) : ns[i] \in SepNames \/ ns[i] = "" \/ ns[i] = "." THEN -1
  ELSE IF \E i \in 1..Len(ns) : ns[i] = ".." /\ \E j \in 1..i : ns[j] # ".." THEN -1
  ELSE Lead(ns)

\* stepwise resolution; NONE when a ".." would climb above the root
None == <<"*none*">>
RECURSIVE Resolve(_, _)
Resolve(dir, ns) ==
  IF dir = None THEN None
  ELSE IF ns = <<>> THEN dir
  ELSE LET x == Head(ns) IN
       IF x = "" \/ x = "." THEN Resolve(dir, Tail(ns))
       ELSE IF x = ".." THEN (IF dir = <<>> THEN None ELSE Resolve(SubSeq(dir, 1, Len(dir) - 1), Tail(ns)))
       ELSE Resolve(Append(dir, x), Tail(ns))

WalkName(dir, ns) ==
  IF Valid(ns) < 0 \/ Valid(ns) > Len(dir) THEN [ok |-> FALSE, path |-> <<>>]
  ELSE [ok |-> TRUE, path |-> Resolve(dir, ns)]
CreateName(dir, n) == IF Ordinary(n) THEN [ok |-> TRUE, path |-> Append(dir, n)] ELSE [ok |-> FALSE, path |-> <<>>]

RECURSIVE Norm(_, _, _)
Norm(s, acc, lo) ==
  IF s = <<>> THEN [steps |-> acc, bsp |-> lo]
  ELSE LET x == Head(s) IN
       IF x \in SepNames THEN [steps |-> <<>>, bsp |-> -1]
       ELSE IF x = "" \/ x = "." THEN Norm(Tail(s), acc, lo)
       ELSE IF x = ".." THEN
              IF Len(acc) > lo THEN Norm(Tail(s), SubSeq(acc, 1, Len(acc) - 1), lo)
              ELSE Norm(Tail(s), Append(acc, ".."), lo + 1)
       ELSE Norm(Tail(s), Append(acc, x), lo)
Normalize(ns) == Norm(ns, <<>>, 0)

Dirs == UNION {[1..n -> {"a", "b"}] : n \in 0..MaxDepth}
Lists == UNION {[1..n -> Alphabet] : n \in 0..MaxLen}
Canonical(p) == \A i \in 1..Len(p) : Ordinary(p[i])

\* ---- lemmas checked by TLC while enumerating
ASSUME \A d \in Dirs, ns \in Lists :
         LET w == WalkName(d, ns) IN w.ok => (w.path # None /\ Canonical(w.path))        \* never above root, canonical
ASSUME \A ns \in Lists :
         LET n == Normalize(ns) IN
         n.bsp >= 0 => /\ Valid(n.steps) = n.bsp                                           \* the result is a valid walk
                       /\ Normalize(n.steps) = n                                           \* idempotent
ASSUME \A ns \in Lists : (Valid(ns) >= 0) => Normalize(ns) = [steps |-> ns, bsp |-> Valid(ns)]
\* agreement with stepwise resolution from a directory deep enough
Deep == [i \in 1..(MaxLen + 1) |-> "a"]
ASSUME \A ns \in Lists : Normalize(ns).bsp >= 0 => Resolve(Deep, Normalize(ns).steps) = Resolve(Deep, ns)

\* ---- ToWalk (the command-line helper): a path string, given here by its "/"-separated components and whether it
\* starts with "/"; steps to hand to Walk from the root (absolute) or from the current entry (relative).
\* An absolute path may not keep any ".." (it would climb above the root); a relative one may keep a leading run.
NoSlash == {n \in Alphabet : n \notin {"a/b", "/"}}
TWLists == UNION {[1..n -> NoSlash] : n \in 0..MaxLen}
\* (a first component "" followed by more components makes the string itself start with "/")
IsAbs(abs, cs) == abs \/ (Len(cs) >= 2 /\ cs[1] = "")
ToWalk(abs, cs) ==
  LET n == Normalize(cs) IN
  IF IsAbs(abs, cs) THEN [isabs |-> TRUE, ok |-> n.bsp = 0, steps |-> IF n.bsp = 0 THEN n.steps ELSE <<>>]
  ELSE [isabs |-> FALSE, ok |-> n.bsp >= 0, steps |-> IF n.bsp >= 0 THEN n.steps ELSE <<>>]
\* an accepted absolute path resolves from the root exactly as its components do, and never above it
ASSUME \A cs \in TWLists : LET w == ToWalk(TRUE, cs) IN
         w.ok => (Resolve(<<>>, w.steps) # None /\ Resolve(<<>>, w.steps) = Resolve(<<>>, cs) /\ Valid(w.steps) = 0)
\* a rejected absolute path is one whose stepwise resolution climbs above the root at some point, or has a separator
ASSUME \A cs \in TWLists : LET w == ToWalk(TRUE, cs) IN
         (~w.ok /\ \A i \in 1..Len(cs) : cs[i] # "a\\b") => \E k \in 1..Len(cs) : Resolve(<<>>, SubSeq(cs, 1, k)) = None
ASSUME \A cs \in TWLists : LET w == ToWalk(FALSE, cs) IN
         (w.ok /\ ~w.isabs) => (Valid(w.steps) >= 0 /\ Resolve(Deep, w.steps) = Resolve(Deep, cs))
ASSUME \A abs \in BOOLEAN, cs \in TWLists : PrintT(ToJson([t |-> "towalk", abs |-> abs, comps |-> cs, r |-> ToWalk(abs, cs)]))

ASSUME \A ns \in Lists : PrintT(ToJson([t |-> "list", names |-> ns, valid |-> Valid(ns), norm |-> Normalize(ns)]))
ASSUME \A d \in Dirs, ns \in Lists : PrintT(ToJson([t |-> "walk", dir |-> d, names |-> ns, r |-> WalkName(d, ns)]))
ASSUME \A d \in Dirs, n \in Alphabet : PrintT(ToJson([t |-> "create", dir |-> d, name |-> n, r |-> CreateName(d, n)]))

VARIABLE x
PSpec == x = 0 /\ [][FALSE]_x
=============================================================================
