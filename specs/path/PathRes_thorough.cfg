CONSTANTS
  MaxDepth = 3
  MaxLen = 4
SPECIFICATION PSpec
CHECK_DEADLOCK FALSE
