CONSTANTS
  MaxDepth = 3
  MaxLen = 3
SPECIFICATION PSpec
CHECK_DEADLOCK FALSE
