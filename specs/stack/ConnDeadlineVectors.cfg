CONSTANTS
  MaxT = 8
  Waits = {0, 2, 4}
  Dls = {0, 1}
  NegT = 3
  Default = 100
  Refresh = TRUE
  MaxLen = 3
SPECIFICATION VSpec
CHECK_DEADLOCK FALSE
