CONSTANTS
  N = 7
  K = 1
  Coupled = TRUE
SPECIFICATION Spec
INVARIANT NoDeadlock

CHECK_DEADLOCK FALSE
