CONSTANTS
  N = 7
  K = 1
  Coupled = TRUE
  B = 0
  HCap = 0
SPECIFICATION Spec
INVARIANT NoDeadlock

CHECK_DEADLOCK FALSE
