--------------------------- MODULE ConnDeadlineInd ---------------------------
(* Unbounded check (Apalache): with Refresh = TRUE, "no write ever fails on a stale deadline" is an inductive
   invariant for every horizon, every set of idle times and deadlines, and every Default > 0, NegT >= 0. *)
EXTENDS Integers, Sequences, FiniteSets, TLC

CONSTANTS
  \* @type: Int;
  MaxT,
  \* @type: Set(Int);
  Waits,
  \* @type: Set(Int);
  Dls,
  \* @type: Int;
  NegT,
  \* @type: Int;
  Default,
  \* @type: Bool;
  Refresh

VARIABLES
  \* @type: Int;
  now,
  \* @type: Int;
  cw,
  \* @type: Int;
  sw,
  \* @type: Bool;
  failed

INSTANCE ConnDeadline

ConstBase == /\ MaxT \in 0..1000000 /\ NegT \in 0..1000 /\ Default \in 1..100000
             /\ Waits \in SUBSET (0..50) /\ Dls \in SUBSET (0..50)
ConstInit == ConstBase /\ Refresh = TRUE
ConstInitNoRefresh == ConstBase /\ Refresh = FALSE      \* vacuity guard: the induction step must fail
IndInv == ~failed /\ now >= 0
IndInit == now \in Int /\ cw \in Int /\ sw \in Int /\ failed \in BOOLEAN /\ IndInv
=============================================================================
