------------------------ MODULE ConnDeadlineVectors ------------------------
(* All call sequences of length 1..MaxLen over Waits x Dls whose total idle time fits the horizon. *)
EXTENDS ConnDeadline, Json
CONSTANT MaxLen
Steps == {[w |-> w, d |-> d] : w \in Waits, d \in Dls}
Seqs == UNION {[1..n -> Steps] : n \in 1..MaxLen}
RECURSIVE Total(_)
Total(s) == IF s = <<>> THEN 0 ELSE Head(s).w + Total(Tail(s))
ASSUME \A s \in Seqs : Total(s) <= MaxT => PrintT(ToJson([calls |-> s]))
VSpec == now = 0 /\ cw = 0 /\ sw = 0 /\ failed = FALSE /\ [][FALSE]_vars
=============================================================================
