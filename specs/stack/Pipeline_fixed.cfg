CONSTANTS
  N = 6
  K = 0
  Coupled = FALSE
SPECIFICATION Spec
INVARIANT NoDeadlock
PROPERTIES AllComplete
CHECK_DEADLOCK FALSE
