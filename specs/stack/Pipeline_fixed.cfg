CONSTANTS
  N = 6
  K = 0
  Coupled = FALSE
  B = 0
  HCap = 0
SPECIFICATION Spec
INVARIANT NoDeadlock
PROPERTIES AllComplete
CHECK_DEADLOCK FALSE
