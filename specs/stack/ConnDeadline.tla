---------------------------- MODULE ConnDeadline ----------------------------
(***************************************************************************)
(* C09 over time (and the deadline clause of C12): the write deadline of a *)
(* net.Conn is a register that stays set until it is set again.            *)
(* channel.WriteFcall sets it before every write - to the deadline of the  *)
(* context it was given or, when that context has none, to now + 30 s - so *)
(* a deadline left behind by an earlier write (the 1 s negotiation context *)
(* of ServeConn, a caller's per-call timeout) never decides a later write. *)
(*                                                                         *)
(* One client conn register (cw) and one server conn register (sw); time   *)
(* is counted in units; a call made with a context deadline of d units     *)
(* writes its request under that deadline, the server writes the response  *)
(* under the serving context (no deadline).  Every call that is issued     *)
(* before its own deadline must go through (EveryWriteGoesThrough): with   *)
(* Refresh = FALSE - the register is only touched when the context carries *)
(* a deadline - TLC finds the stale-deadline failures (vacuity guard).     *)
(* ConnDeadlineVectors emits all short call sequences for replay on the    *)
(* real CSession <-> ServeConn stack.                                      *)
(***************************************************************************)
EXTENDS Integers, Sequences, FiniteSets, TLC

CONSTANTS MaxT,      \* horizon of the clock
          Waits,     \* idle times before a call (units)
          Dls,       \* context deadlines of calls, relative (units); 0: no deadline
          NegT,      \* the version negotiation context's deadline (1 s), in units
          Default,   \* the default write timeout (30 s), in units: beyond the horizon
          Refresh    \* TRUE (the code): a context without deadline sets now + Default

VARIABLES now, cw, sw, failed
vars == <<now, cw, sw, failed>>

Init == now = 0 /\ cw = Default /\ sw = NegT /\ failed = FALSE

\* WriteFcall under a context with relative deadline d (0: none) at time t: new register value
Reg(old, d, t) == IF d > 0 THEN t + d ELSE IF Refresh THEN t + Default ELSE old

Call(w, d) ==
  /\ now + w <= MaxT
  /\ LET t == now + w
         c2 == Reg(cw, d, t)
         s2 == Reg(sw, 0, t) IN
     /\ now' = t /\ cw' = c2 /\ sw' = s2
     \* a write goes through iff the register's deadline has not passed
     /\ failed' = (failed \/ ~(t < c2) \/ ~(t < s2))

Next == \E w \in Waits, d \in Dls : Call(w, d)
Spec == Init /\ [][Next]_vars

EveryWriteGoesThrough == ~failed
=============================================================================
