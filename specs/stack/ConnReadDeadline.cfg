CONSTANTS
  MaxT = 8
  Gaps = {0, 1, 2}
  Dls = {0, 1}
  Default = 100
  WriteTouchesRead = FALSE
SPECIFICATION Spec
INVARIANTS NoDesync
CHECK_DEADLOCK FALSE
