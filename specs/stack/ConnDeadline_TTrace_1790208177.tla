---- MODULE ConnDeadline_TTrace_1790208177 ----
EXTENDS Sequences, TLCExt, Toolbox, ConnDeadline, Naturals, TLC

_expression ==
    LET ConnDeadline_TEExpression == INSTANCE ConnDeadline_TEExpression
    IN ConnDeadline_TEExpression!expression
----

_trace ==
    LET ConnDeadline_TETrace == INSTANCE ConnDeadline_TETrace
    IN ConnDeadline_TETrace!trace
----

_inv ==
    ~(
        TLCGet("level") = Len(_TETrace)
        /\
        ncalls = (1)
        /\
        sw = (3)
        /\
        cw = (100)
        /\
        now = (4)
        /\
        failed = (TRUE)
    )
----

_init ==
    /\ now = _TETrace[1].now
    /\ sw = _TETrace[1].sw
    /\ ncalls = _TETrace[1].ncalls
    /\ cw = _TETrace[1].cw
    /\ failed = _TETrace[1].failed
----

_next ==
    /\ \E i,j \in DOMAIN _TETrace:
        /\ \/ /\ j = i + 1
              /\ i = TLCGet("level")
        /\ now  = _TETrace[i].now
        /\ now' = _TETrace[j].now
        /\ sw  = _TETrace[i].sw
        /\ sw' = _TETrace[j].sw
        /\ ncalls  = _TETrace[i].ncalls
        /\ ncalls' = _TETrace[j].ncalls
        /\ cw  = _TETrace[i].cw
        /\ cw' = _TETrace[j].cw
        /\ failed  = _TETrace[i].failed
        /\ failed' = _TETrace[j].failed

\* Uncomment the ASSUME below to write the states of the error trace
\* to the given file in Json format. Note that you can pass any tuple
\* to `JsonSerialize`. For example, a sub-sequence of _TETrace.
    \* ASSUME
    \*     LET J == INSTANCE Json
    \*         IN J!JsonSerialize("ConnDeadline_TTrace_1790208177.json", _TETrace)

=============================================================================

 Note that you can extract this module `ConnDeadline_TEExpression`
  to a dedicated file to reuse `expression` (the module in the 
  dedicated `ConnDeadline_TEExpression.tla` file takes precedence 
  over the module `ConnDeadline_TEExpression` below).

---- MODULE ConnDeadline_TEExpression ----
EXTENDS Sequences, TLCExt, Toolbox, ConnDeadline, Naturals, TLC

expression == 
    [
        \* To hide variables of the `ConnDeadline` spec from the error trace,
        \* remove the variables below.  The trace will be written in the order
        \* of the fields of this record.
        now |-> now
        ,sw |-> sw
        ,ncalls |-> ncalls
        ,cw |-> cw
        ,failed |-> failed
        
        \* Put additional constant-, state-, and action-level expressions here:
        \* ,_stateNumber |-> _TEPosition
        \* ,_nowUnchanged |-> now = now'
        
        \* Format the `now` variable as Json value.
        \* ,_nowJson |->
        \*     LET J == INSTANCE Json
        \*     IN J!ToJson(now)
        
        \* Lastly, you may build expressions over arbitrary sets of states by
        \* leveraging the _TETrace operator.  For example, this is how to
        \* count the number of times a spec variable changed up to the current
        \* state in the trace.
        \* ,_nowModCount |->
        \*     LET F[s \in DOMAIN _TETrace] ==
        \*         IF s = 1 THEN 0
        \*         ELSE IF _TETrace[s].now # _TETrace[s-1].now
        \*             THEN 1 + F[s-1] ELSE F[s-1]
        \*     IN F[_TEPosition - 1]
    ]

=============================================================================



Parsing and semantic processing can take forever if the trace below is long.
 In this case, it is advised to uncomment the module below to deserialize the
 trace from a generated binary file.

\*
\*---- MODULE ConnDeadline_TETrace ----
\*EXTENDS IOUtils, ConnDeadline, TLC
\*
\*trace == IODeserialize("ConnDeadline_TTrace_1790208177.bin", TRUE)
\*
\*=============================================================================
\*

---- MODULE ConnDeadline_TETrace ----
EXTENDS ConnDeadline, TLC

trace == 
    <<
    ([ncalls |-> 0,sw |-> 3,cw |-> 100,now |-> 0,failed |-> FALSE]),
    ([ncalls |-> 1,sw |-> 3,cw |-> 100,now |-> 4,failed |-> TRUE])
    >>
----


=============================================================================

---- CONFIG ConnDeadline_TTrace_1790208177 ----
CONSTANTS
    MaxT = 8
    Waits = { 0 , 2 , 4 }
    Dls = { 0 , 1 }
    NegT = 3
    Default = 100
    Refresh = FALSE

INVARIANT
    _inv

CHECK_DEADLOCK
    \* CHECK_DEADLOCK off because of PROPERTY or INVARIANT above.
    FALSE

INIT
    _init

NEXT
    _next

CONSTANT
    _TETrace <- _trace

ALIAS
    _expression
=============================================================================
\* Generated on Thu Sep 24 00:02:58 UTC 2026