------------------------------- MODULE CallMap -------------------------------
(***************************************************************************)
(* C09, sequential clause: what a session S behind ServeConn must see, and *)
(* what the caller of the client session must get, for each of the 11      *)
(* Session methods - identical to calling S directly up to the documented  *)
(* wire limits:                                                            *)
(*   read  : S is handed a buffer of Min(len(p), msize - 11) bytes; the    *)
(*           caller gets exactly the bytes S produced; a zero-length       *)
(*           result reaches the caller as io.EOF (9P's EOF convention)     *)
(*   write : S sees the first Min(len(p), msize - 23) bytes; the caller    *)
(*           gets S's count, with io.ErrShortWrite when it is < len(p)     *)
(*   walk  : more than 16 names are refused by the client without a call   *)
(*   offsets travel as unsigned 64-bit patterns; times as whole seconds;   *)
(*   an error of S reaches the caller by its text                          *)
(* Every other argument and result is passed through unchanged.            *)
(* TLC evaluates the size rules at the real msize and emits boundary-dense *)
(* vectors; values that are not TLC integers are named anchors resolved by *)
(* the harness.                                                            *)
(***************************************************************************)
EXTENDS Integers, Sequences, FiniteSets, TLC, Json

CONSTANT MSize
Min(a, b) == IF a < b THEN a ELSE b
ReadSeen(len) == Min(len, MSize - 11)
WriteSeen(len) == Min(len, MSize - 23)

Lens == {0, 1, 2, MSize - 25, MSize - 24, MSize - 23, MSize - 22, MSize - 12, MSize - 11, MSize - 10, MSize, MSize + 1000, 1048576}
Offsets == {"0", "1", "2^31", "2^32", "2^63-1", "2^63", "2^64-1"}
Fids == {"0", "1", "NOFID-1", "NOFID"}
Errs == {"none", "plain", "empty", "long", "unicode", "rerror", "wrapped"}

\* read: S returns k bytes (k <= what it was handed) or an error
ReadVectors ==
  UNION {{[m |-> "read", fid |-> f, off |-> o, len |-> l, sres |-> k, serr |-> "none",
    seen |-> [len |-> ReadSeen(l), off |-> o, fid |-> f],
    got |-> [n |-> Min(k, ReadSeen(l)), eof |-> Min(k, ReadSeen(l)) = 0, err |-> "none"]]
     : f \in {"1", "NOFID"}, o \in Offsets, k \in {0, 1, ReadSeen(l)}} : l \in Lens}
  \cup {[m |-> "read", fid |-> "1", off |-> "0", len |-> 10, sres |-> 0, serr |-> e,
         seen |-> [len |-> 10, off |-> "0", fid |-> "1"], got |-> [n |-> 0, eof |-> FALSE, err |-> e]] : e \in Errs \ {"none"}}
\* write: S reports it wrote k bytes of what it saw
WriteVectors ==
  UNION {{[m |-> "write", fid |-> f, off |-> o, len |-> l, sres |-> k, serr |-> "none",
    seen |-> [len |-> WriteSeen(l), off |-> o, fid |-> f],
    got |-> [n |-> k, short |-> k < l, err |-> "none"]]
     : f \in {"0", "NOFID-1"}, o \in Offsets, k \in {0, WriteSeen(l)}} : l \in Lens}
  \cup {[m |-> "write", fid |-> "0", off |-> "1", len |-> 5, sres |-> 0, serr |-> e,
         seen |-> [len |-> 5, off |-> "1", fid |-> "0"], got |-> [n |-> 0, short |-> FALSE, err |-> e]] : e \in Errs \ {"none"}}
\* methods whose arguments and results pass through unchanged: one vector per boundary class
Simple == {"auth", "attach", "clunk", "remove", "open", "create", "stat", "wstat", "walk"}
PassVectors ==
  {[m |-> mm, fid |-> f, variant |-> v, serr |-> e] : mm \in Simple, f \in Fids, v \in 0..5, e \in {"none", "plain", "rerror"}}
  \cup {[m |-> "walk", fid |-> "1", variant |-> 17, serr |-> "none"]}       \* 17 names: refused by the client, S is not called

ASSUME \A l \in Lens : ReadSeen(l) <= l /\ ReadSeen(l) + 11 <= MSize /\ WriteSeen(l) + 23 <= MSize
ASSUME \A v \in ReadVectors : PrintT(ToJson(v))
ASSUME \A v \in WriteVectors : PrintT(ToJson(v))
ASSUME \A v \in PassVectors : PrintT(ToJson(v))
VARIABLE x
CSpec == x = 0 /\ [][FALSE]_x
=============================================================================
