CONSTANTS
  N = 5
  K = 0
  Coupled = TRUE
  B = 0
  HCap = 0
SPECIFICATION Spec
INVARIANT NoDeadlock

CHECK_DEADLOCK FALSE
