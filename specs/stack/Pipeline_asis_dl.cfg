CONSTANTS
  N = 5
  K = 0
  Coupled = TRUE
SPECIFICATION Spec
INVARIANT NoDeadlock

CHECK_DEADLOCK FALSE
