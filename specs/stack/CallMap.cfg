CONSTANT MSize = 65536
SPECIFICATION CSpec
CHECK_DEADLOCK FALSE
