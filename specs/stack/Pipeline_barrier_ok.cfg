CONSTANTS
  N = 5
  K = 5
  Coupled = TRUE
  B = 5
  HCap = 0
SPECIFICATION Spec
INVARIANT NoDeadlock
PROPERTIES AllComplete
CHECK_DEADLOCK FALSE
