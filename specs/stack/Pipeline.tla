------------------------------- MODULE Pipeline -------------------------------
(***************************************************************************)
(* C09, concurrency clause: the five loops of a client/server pair - the   *)
(* client's handle loop (H) and reader (CR), the server's reader (SR),     *)
(* serve loop (SL) and writer (SW) - connected by two byte pipes that hold *)
(* at most K messages each (K = 0: an unbuffered pipe such as net.Pipe).   *)
(* All Go channels involved are unbuffered: handing a value over is a      *)
(* rendezvous.  N callers issue one call each; handlers answer at once.    *)
(*                                                                         *)
(* Coupled = TRUE models transport.handle at the pinned commit: the loop   *)
(* that dispatches replies also performs the (blocking) request write.     *)
(* While it is blocked in the write it cannot take a reply from the        *)
(* reader; with enough calls in flight the five loops wait for each other  *)
(* in a cycle (D15).  Coupled = FALSE gives the handle loop a separate     *)
(* writer goroutine.                                                       *)
(*                                                                         *)
(* B > 0: the session's calls wait for each other - a call returns only    *)
(* once B calls have reached the session (sleepfs-like sessions, reads     *)
(* that a later write releases).  Called directly all of them complete, so *)
(* they must complete through the stack: the serve loop must keep taking   *)
(* requests however many handlers are running.  HCap > 0 bounds the number *)
(* of running handlers (the code has no bound: HCap = 0) and shows the     *)
(* circular wait such a bound creates.                                     *)
(***************************************************************************)
EXTENDS Integers, Sequences, FiniteSets, TLC

CONSTANTS N, K, Coupled, B, HCap

VARIABLES call,   \* caller -> "idle" | "offer" | "wait" | "done"
          h,      \* H: 0 = at its select, i > 0 = blocked writing request i
          wq,     \* decoupled only: requests handed to the client's writer
          c2s, s2c,   \* pipes (sequences of call ids)
          sr,     \* SR: 0 = reading, i = offering request i to SL
          sl,     \* SL: 0 = at its select, i = blocked handing reply i to SW
          ins,    \* handlers inside the session (waiting for the barrier when B > 0)
          arr,    \* number of calls that have reached the session
          comp,   \* handlers offering a completed reply
          sw,     \* SW: 0 = receiving, i = blocked writing reply i
          cr      \* CR: 0 = reading, i = offering reply i to H
vars == <<call, h, wq, c2s, s2c, sr, sl, ins, arr, comp, sw, cr>>
Calls == 1..N

Init == /\ call = [i \in Calls |-> "idle"] /\ h = 0 /\ wq = <<>> /\ c2s = <<>> /\ s2c = <<>>
        /\ sr = 0 /\ sl = 0 /\ ins = {} /\ arr = 0 /\ comp = {} /\ sw = 0 /\ cr = 0

Issue(i) == call[i] = "idle" /\ call' = [call EXCEPT ![i] = "offer"] /\ UNCHANGED <<h, wq, c2s, s2c, sr, sl, ins, arr, comp, sw, cr>>

\* H takes a request from a caller
HTake(i) == /\ h = 0 /\ call[i] = "offer"
            /\ call' = [call EXCEPT ![i] = "wait"]
            /\ IF Coupled THEN h' = i /\ UNCHANGED wq ELSE wq' = Append(wq, i) /\ UNCHANGED h
            /\ UNCHANGED <<c2s, s2c, sr, sl, ins, arr, comp, sw, cr>>
\* the request write: into the pipe if it has room, or straight into the hands of SR when K = 0
WriteReq(i) == IF K = 0 THEN sr = 0 /\ sr' = i /\ UNCHANGED c2s
               ELSE Len(c2s) < K /\ c2s' = Append(c2s, i) /\ UNCHANGED sr
HWrite == /\ Coupled /\ h # 0 /\ WriteReq(h) /\ h' = 0 /\ UNCHANGED <<call, wq, s2c, sl, ins, arr, comp, sw, cr>>
CWWrite == /\ ~Coupled /\ wq # <<>> /\ WriteReq(Head(wq)) /\ wq' = Tail(wq) /\ UNCHANGED <<call, h, s2c, sl, ins, arr, comp, sw, cr>>
SRRead == /\ K > 0 /\ sr = 0 /\ c2s # <<>> /\ sr' = Head(c2s) /\ c2s' = Tail(c2s) /\ UNCHANGED <<call, h, wq, s2c, sl, ins, arr, comp, sw, cr>>
\* SL takes the request, the handler runs and offers its reply
SLReq == /\ sl = 0 /\ sr # 0 /\ (HCap = 0 \/ Cardinality(ins) < HCap)
         /\ IF B = 0 THEN comp' = comp \cup {sr} /\ UNCHANGED <<ins, arr>>      \* handlers answer at once
                     ELSE ins' = ins \cup {sr} /\ arr' = arr + 1 /\ UNCHANGED comp
         /\ sr' = 0 /\ UNCHANGED <<call, h, wq, c2s, s2c, sl, sw, cr>>
\* the session call returns (at once when B = 0, else when B calls have arrived)
HRet(i) == /\ i \in ins /\ arr >= B /\ ins' = ins \ {i} /\ comp' = comp \cup {i}
           /\ UNCHANGED <<call, h, wq, c2s, s2c, sr, sl, arr, sw, cr>>
SLComp(i) == /\ sl = 0 /\ i \in comp /\ sl' = i /\ comp' = comp \ {i} /\ UNCHANGED <<call, h, wq, c2s, s2c, sr, ins, arr, sw, cr>>
SLFwd == /\ sl # 0 /\ sw = 0 /\ sw' = sl /\ sl' = 0 /\ UNCHANGED <<call, h, wq, c2s, s2c, sr, ins, arr, comp, cr>>
SWWrite == /\ sw # 0
           /\ IF K = 0 THEN cr = 0 /\ cr' = sw /\ UNCHANGED s2c ELSE Len(s2c) < K /\ s2c' = Append(s2c, sw) /\ UNCHANGED cr
           /\ sw' = 0 /\ UNCHANGED <<call, h, wq, c2s, sr, sl, ins, arr, comp>>
CRRead == /\ K > 0 /\ cr = 0 /\ s2c # <<>> /\ cr' = Head(s2c) /\ s2c' = Tail(s2c) /\ UNCHANGED <<call, h, wq, c2s, sr, sl, ins, arr, comp, sw>>
\* H takes the reply from CR and wakes the caller
HDeliver == /\ h = 0 /\ cr # 0 /\ call' = [call EXCEPT ![cr] = "done"] /\ cr' = 0 /\ UNCHANGED <<h, wq, c2s, s2c, sr, sl, ins, arr, comp, sw>>

AllDone == \A i \in Calls : call[i] = "done"
Step == \/ \E i \in Calls : Issue(i) \/ HTake(i) \/ SLComp(i) \/ HRet(i)
        \/ HWrite \/ CWWrite \/ SRRead \/ SLReq \/ SLFwd \/ SWWrite \/ CRRead \/ HDeliver
Next == Step \/ (AllDone /\ UNCHANGED vars)
Spec == Init /\ [][Next]_vars /\ WF_vars(Step)

\* every reachable state can move until all calls are done (no circular wait)
NoDeadlock == AllDone \/ ENABLED Step
AllComplete == <>AllDone
=============================================================================
