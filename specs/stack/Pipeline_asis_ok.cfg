CONSTANTS
  N = 4
  K = 0
  Coupled = TRUE
  B = 0
  HCap = 0
SPECIFICATION Spec
INVARIANT NoDeadlock
PROPERTIES AllComplete
CHECK_DEADLOCK FALSE
