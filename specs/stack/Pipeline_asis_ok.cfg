CONSTANTS
  N = 4
  K = 0
  Coupled = TRUE
SPECIFICATION Spec
INVARIANT NoDeadlock
PROPERTIES AllComplete
CHECK_DEADLOCK FALSE
