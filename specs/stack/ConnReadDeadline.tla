-------------------------- MODULE ConnReadDeadline --------------------------
(***************************************************************************)
(* Companion of ConnDeadline.tla for the *read* deadline register of the   *)
(* client's connection.  Only the reader arms it: ReadFcall sets it to     *)
(* now + 30 s (its context has no deadline) each time it starts waiting    *)
(* for a frame, and re-arms it when a wait between two frames times out    *)
(* (the read loop retries).  Calls write their requests under their own    *)
(* context deadline - which concerns the write register only.              *)
(*                                                                         *)
(* A reply frame may arrive in two pieces.  If the register fires between  *)
(* the pieces, the reader returns a timeout having consumed the first      *)
(* piece, and the stream is out of step for good (the code documents this  *)
(* for genuine 30 s stalls).  With WriteTouchesRead = FALSE (the code) no  *)
(* call's deadline can cause that: NoDesync holds as long as the pieces of *)
(* one frame are less than Default apart.  With TRUE - WriteFcall setting  *)
(* the read deadline, a one-word slip - TLC finds the desynchronisation.   *)
(* Bound to the code by the client engine's splitReplyAcrossDeadline.      *)
(***************************************************************************)
EXTENDS Integers, TLC

CONSTANTS MaxT, Gaps, Dls, Default, WriteTouchesRead

VARIABLES now, cr, mid, desync
vars == <<now, cr, mid, desync>>

Init == now = 0 /\ cr = Default /\ mid = FALSE /\ desync = FALSE

\* a call writes its request under a context deadline of d units (0: none)
Call(d) ==
  /\ cr' = IF WriteTouchesRead /\ d > 0 THEN now + d ELSE cr
  /\ UNCHANGED <<now, mid, desync>>
\* time passes with no frame under way: if the register fires the read loop retries and re-arms
Idle(w) ==
  /\ ~mid /\ now + w <= MaxT
  /\ now' = now + w
  /\ cr' = IF now + w >= cr THEN now + w + Default ELSE cr
  /\ UNCHANGED <<mid, desync>>
\* the first piece of a reply frame arrives
FrameBegin == ~mid /\ now < cr /\ mid' = TRUE /\ UNCHANGED <<now, cr, desync>>
\* the rest arrives w units later (w < Default: the peer is not stalling for good)
FrameEnd(w) ==
  /\ mid /\ w < Default /\ now + w <= MaxT
  /\ now' = now + w
  /\ desync' = (desync \/ now + w >= cr)
  /\ mid' = FALSE
  /\ cr' = now + w + Default      \* the reader starts waiting for the next frame
Next == \/ \E d \in Dls : Call(d)
        \/ \E w \in Gaps : Idle(w) \/ FrameEnd(w)
        \/ FrameBegin
Spec == Init /\ [][Next]_vars

NoDesync == ~desync
=============================================================================
