---- MODULE ConnReadDeadline_TTrace_1790221780 ----
EXTENDS Sequences, TLCExt, ConnReadDeadline, Toolbox, Naturals, TLC

_expression ==
    LET ConnReadDeadline_TEExpression == INSTANCE ConnReadDeadline_TEExpression
    IN ConnReadDeadline_TEExpression!expression
----

_trace ==
    LET ConnReadDeadline_TETrace == INSTANCE ConnReadDeadline_TETrace
    IN ConnReadDeadline_TETrace!trace
----

_inv ==
    ~(
        TLCGet("level") = Len(_TETrace)
        /\
        desync = (TRUE)
        /\
        now = (1)
        /\
        mid = (FALSE)
        /\
        cr = (101)
    )
----

_init ==
    /\ now = _TETrace[1].now
    /\ desync = _TETrace[1].desync
    /\ cr = _TETrace[1].cr
    /\ mid = _TETrace[1].mid
----

_next ==
    /\ \E i,j \in DOMAIN _TETrace:
        /\ \/ /\ j = i + 1
              /\ i = TLCGet("level")
        /\ now  = _TETrace[i].now
        /\ now' = _TETrace[j].now
        /\ desync  = _TETrace[i].desync
        /\ desync' = _TETrace[j].desync
        /\ cr  = _TETrace[i].cr
        /\ cr' = _TETrace[j].cr
        /\ mid  = _TETrace[i].mid
        /\ mid' = _TETrace[j].mid

\* Uncomment the ASSUME below to write the states of the error trace
\* to the given file in Json format. Note that you can pass any tuple
\* to `JsonSerialize`. For example, a sub-sequence of _TETrace.
    \* ASSUME
    \*     LET J == INSTANCE Json
    \*         IN J!JsonSerialize("ConnReadDeadline_TTrace_1790221780.json", _TETrace)

=============================================================================

 Note that you can extract this module `ConnReadDeadline_TEExpression`
  to a dedicated file to reuse `expression` (the module in the 
  dedicated `ConnReadDeadline_TEExpression.tla` file takes precedence 
  over the module `ConnReadDeadline_TEExpression` below).

---- MODULE ConnReadDeadline_TEExpression ----
EXTENDS Sequences, TLCExt, ConnReadDeadline, Toolbox, Naturals, TLC

expression == 
    [
        \* To hide variables of the `ConnReadDeadline` spec from the error trace,
        \* remove the variables below.  The trace will be written in the order
        \* of the fields of this record.
        now |-> now
        ,desync |-> desync
        ,cr |-> cr
        ,mid |-> mid
        
        \* Put additional constant-, state-, and action-level expressions here:
        \* ,_stateNumber |-> _TEPosition
        \* ,_nowUnchanged |-> now = now'
        
        \* Format the `now` variable as Json value.
        \* ,_nowJson |->
        \*     LET J == INSTANCE Json
        \*     IN J!ToJson(now)
        
        \* Lastly, you may build expressions over arbitrary sets of states by
        \* leveraging the _TETrace operator.  For example, this is how to
        \* count the number of times a spec variable changed up to the current
        \* state in the trace.
        \* ,_nowModCount |->
        \*     LET F[s \in DOMAIN _TETrace] ==
        \*         IF s = 1 THEN 0
        \*         ELSE IF _TETrace[s].now # _TETrace[s-1].now
        \*             THEN 1 + F[s-1] ELSE F[s-1]
        \*     IN F[_TEPosition - 1]
    ]

=============================================================================



Parsing and semantic processing can take forever if the trace below is long.
 In this case, it is advised to uncomment the module below to deserialize the
 trace from a generated binary file.

\*
\*---- MODULE ConnReadDeadline_TETrace ----
\*EXTENDS IOUtils, ConnReadDeadline, TLC
\*
\*trace == IODeserialize("ConnReadDeadline_TTrace_1790221780.bin", TRUE)
\*
\*=============================================================================
\*

---- MODULE ConnReadDeadline_TETrace ----
EXTENDS ConnReadDeadline, TLC

trace == 
    <<
    ([desync |-> FALSE,now |-> 0,mid |-> FALSE,cr |-> 100]),
    ([desync |-> FALSE,now |-> 0,mid |-> FALSE,cr |-> 1]),
    ([desync |-> FALSE,now |-> 0,mid |-> TRUE,cr |-> 1]),
    ([desync |-> TRUE,now |-> 1,mid |-> FALSE,cr |-> 101])
    >>
----


=============================================================================

---- CONFIG ConnReadDeadline_TTrace_1790221780 ----
CONSTANTS
    MaxT = 8
    Gaps = { 0 , 1 , 2 }
    Dls = { 0 , 1 }
    Default = 100
    WriteTouchesRead = TRUE

INVARIANT
    _inv

CHECK_DEADLOCK
    \* CHECK_DEADLOCK off because of PROPERTY or INVARIANT above.
    FALSE

INIT
    _init

NEXT
    _next

CONSTANT
    _TETrace <- _trace

ALIAS
    _expression
=============================================================================
\* Generated on Thu Sep 24 03:49:42 UTC 2026