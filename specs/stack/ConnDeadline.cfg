CONSTANTS
  MaxT = 8
  Waits = {0, 2, 4}
  Dls = {0, 1}
  NegT = 3
  Default = 100
  Refresh = TRUE
SPECIFICATION Spec
INVARIANTS EveryWriteGoesThrough
CHECK_DEADLOCK FALSE
