---- MODULE Pipeline_TTrace_1790208521 ----
EXTENDS Sequences, TLCExt, Toolbox, Naturals, TLC, Pipeline

_expression ==
    LET Pipeline_TEExpression == INSTANCE Pipeline_TEExpression
    IN Pipeline_TEExpression!expression
----

_trace ==
    LET Pipeline_TETrace == INSTANCE Pipeline_TETrace
    IN Pipeline_TETrace!trace
----

_inv ==
    ~(
        TLCGet("level") = Len(_TETrace)
        /\
        arr = (3)
        /\
        call = (<<"wait", "wait", "wait", "wait", "wait">>)
        /\
        comp = ({})
        /\
        sw = (0)
        /\
        c2s = (<<4>>)
        /\
        s2c = (<<>>)
        /\
        h = (0)
        /\
        sl = (0)
        /\
        wq = (<<>>)
        /\
        cr = (0)
        /\
        sr = (5)
        /\
        ins = ({1, 2, 3})
    )
----

_init ==
    /\ comp = _TETrace[1].comp
    /\ h = _TETrace[1].h
    /\ cr = _TETrace[1].cr
    /\ sl = _TETrace[1].sl
    /\ sr = _TETrace[1].sr
    /\ sw = _TETrace[1].sw
    /\ ins = _TETrace[1].ins
    /\ c2s = _TETrace[1].c2s
    /\ s2c = _TETrace[1].s2c
    /\ arr = _TETrace[1].arr
    /\ wq = _TETrace[1].wq
    /\ call = _TETrace[1].call
----

_next ==
    /\ \E i,j \in DOMAIN _TETrace:
        /\ \/ /\ j = i + 1
              /\ i = TLCGet("level")
        /\ comp  = _TETrace[i].comp
        /\ comp' = _TETrace[j].comp
        /\ h  = _TETrace[i].h
        /\ h' = _TETrace[j].h
        /\ cr  = _TETrace[i].cr
        /\ cr' = _TETrace[j].cr
        /\ sl  = _TETrace[i].sl
        /\ sl' = _TETrace[j].sl
        /\ sr  = _TETrace[i].sr
        /\ sr' = _TETrace[j].sr
        /\ sw  = _TETrace[i].sw
        /\ sw' = _TETrace[j].sw
        /\ ins  = _TETrace[i].ins
        /\ ins' = _TETrace[j].ins
        /\ c2s  = _TETrace[i].c2s
        /\ c2s' = _TETrace[j].c2s
        /\ s2c  = _TETrace[i].s2c
        /\ s2c' = _TETrace[j].s2c
        /\ arr  = _TETrace[i].arr
        /\ arr' = _TETrace[j].arr
        /\ wq  = _TETrace[i].wq
        /\ wq' = _TETrace[j].wq
        /\ call  = _TETrace[i].call
        /\ call' = _TETrace[j].call

\* Uncomment the ASSUME below to write the states of the error trace
\* to the given file in Json format. Note that you can pass any tuple
\* to `JsonSerialize`. For example, a sub-sequence of _TETrace.
    \* ASSUME
    \*     LET J == INSTANCE Json
    \*         IN J!JsonSerialize("Pipeline_TTrace_1790208521.json", _TETrace)

=============================================================================

 Note that you can extract this module `Pipeline_TEExpression`
  to a dedicated file to reuse `expression` (the module in the 
  dedicated `Pipeline_TEExpression.tla` file takes precedence 
  over the module `Pipeline_TEExpression` below).

---- MODULE Pipeline_TEExpression ----
EXTENDS Sequences, TLCExt, Toolbox, Naturals, TLC, Pipeline

expression == 
    [
        \* To hide variables of the `Pipeline` spec from the error trace,
        \* remove the variables below.  The trace will be written in the order
        \* of the fields of this record.
        comp |-> comp
        ,h |-> h
        ,cr |-> cr
        ,sl |-> sl
        ,sr |-> sr
        ,sw |-> sw
        ,ins |-> ins
        ,c2s |-> c2s
        ,s2c |-> s2c
        ,arr |-> arr
        ,wq |-> wq
        ,call |-> call
        
        \* Put additional constant-, state-, and action-level expressions here:
        \* ,_stateNumber |-> _TEPosition
        \* ,_compUnchanged |-> comp = comp'
        
        \* Format the `comp` variable as Json value.
        \* ,_compJson |->
        \*     LET J == INSTANCE Json
        \*     IN J!ToJson(comp)
        
        \* Lastly, you may build expressions over arbitrary sets of states by
        \* leveraging the _TETrace operator.  For example, this is how to
        \* count the number of times a spec variable changed up to the current
        \* state in the trace.
        \* ,_compModCount |->
        \*     LET F[s \in DOMAIN _TETrace] ==
        \*         IF s = 1 THEN 0
        \*         ELSE IF _TETrace[s].comp # _TETrace[s-1].comp
        \*             THEN 1 + F[s-1] ELSE F[s-1]
        \*     IN F[_TEPosition - 1]
    ]

=============================================================================



Parsing and semantic processing can take forever if the trace below is long.
 In this case, it is advised to uncomment the module below to deserialize the
 trace from a generated binary file.

\*
\*---- MODULE Pipeline_TETrace ----
\*EXTENDS IOUtils, TLC, Pipeline
\*
\*trace == IODeserialize("Pipeline_TTrace_1790208521.bin", TRUE)
\*
\*=============================================================================
\*

---- MODULE Pipeline_TETrace ----
EXTENDS TLC, Pipeline

trace == 
    <<
    ([arr |-> 0,call |-> <<"idle", "idle", "idle", "idle", "idle">>,comp |-> {},sw |-> 0,c2s |-> <<>>,s2c |-> <<>>,h |-> 0,sl |-> 0,wq |-> <<>>,cr |-> 0,sr |-> 0,ins |-> {}]),
    ([arr |-> 0,call |-> <<"idle", "offer", "idle", "idle", "idle">>,comp |-> {},sw |-> 0,c2s |-> <<>>,s2c |-> <<>>,h |-> 0,sl |-> 0,wq |-> <<>>,cr |-> 0,sr |-> 0,ins |-> {}]),
    ([arr |-> 0,call |-> <<"idle", "wait", "idle", "idle", "idle">>,comp |-> {},sw |-> 0,c2s |-> <<>>,s2c |-> <<>>,h |-> 2,sl |-> 0,wq |-> <<>>,cr |-> 0,sr |-> 0,ins |-> {}]),
    ([arr |-> 0,call |-> <<"offer", "wait", "idle", "idle", "idle">>,comp |-> {},sw |-> 0,c2s |-> <<>>,s2c |-> <<>>,h |-> 2,sl |-> 0,wq |-> <<>>,cr |-> 0,sr |-> 0,ins |-> {}]),
    ([arr |-> 0,call |-> <<"offer", "wait", "offer", "idle", "idle">>,comp |-> {},sw |-> 0,c2s |-> <<>>,s2c |-> <<>>,h |-> 2,sl |-> 0,wq |-> <<>>,cr |-> 0,sr |-> 0,ins |-> {}]),
    ([arr |-> 0,call |-> <<"offer", "wait", "offer", "offer", "idle">>,comp |-> {},sw |-> 0,c2s |-> <<>>,s2c |-> <<>>,h |-> 2,sl |-> 0,wq |-> <<>>,cr |-> 0,sr |-> 0,ins |-> {}]),
    ([arr |-> 0,call |-> <<"offer", "wait", "offer", "offer", "offer">>,comp |-> {},sw |-> 0,c2s |-> <<>>,s2c |-> <<>>,h |-> 2,sl |-> 0,wq |-> <<>>,cr |-> 0,sr |-> 0,ins |-> {}]),
    ([arr |-> 0,call |-> <<"offer", "wait", "offer", "offer", "offer">>,comp |-> {},sw |-> 0,c2s |-> <<2>>,s2c |-> <<>>,h |-> 0,sl |-> 0,wq |-> <<>>,cr |-> 0,sr |-> 0,ins |-> {}]),
    ([arr |-> 0,call |-> <<"wait", "wait", "offer", "offer", "offer">>,comp |-> {},sw |-> 0,c2s |-> <<2>>,s2c |-> <<>>,h |-> 1,sl |-> 0,wq |-> <<>>,cr |-> 0,sr |-> 0,ins |-> {}]),
    ([arr |-> 0,call |-> <<"wait", "wait", "offer", "offer", "offer">>,comp |-> {},sw |-> 0,c2s |-> <<2, 1>>,s2c |-> <<>>,h |-> 0,sl |-> 0,wq |-> <<>>,cr |-> 0,sr |-> 0,ins |-> {}]),
    ([arr |-> 0,call |-> <<"wait", "wait", "wait", "offer", "offer">>,comp |-> {},sw |-> 0,c2s |-> <<2, 1>>,s2c |-> <<>>,h |-> 3,sl |-> 0,wq |-> <<>>,cr |-> 0,sr |-> 0,ins |-> {}]),
    ([arr |-> 0,call |-> <<"wait", "wait", "wait", "offer", "offer">>,comp |-> {},sw |-> 0,c2s |-> <<2, 1, 3>>,s2c |-> <<>>,h |-> 0,sl |-> 0,wq |-> <<>>,cr |-> 0,sr |-> 0,ins |-> {}]),
    ([arr |-> 0,call |-> <<"wait", "wait", "wait", "offer", "wait">>,comp |-> {},sw |-> 0,c2s |-> <<2, 1, 3>>,s2c |-> <<>>,h |-> 5,sl |-> 0,wq |-> <<>>,cr |-> 0,sr |-> 0,ins |-> {}]),
    ([arr |-> 0,call |-> <<"wait", "wait", "wait", "offer", "wait">>,comp |-> {},sw |-> 0,c2s |-> <<2, 1, 3, 5>>,s2c |-> <<>>,h |-> 0,sl |-> 0,wq |-> <<>>,cr |-> 0,sr |-> 0,ins |-> {}]),
    ([arr |-> 0,call |-> <<"wait", "wait", "wait", "wait", "wait">>,comp |-> {},sw |-> 0,c2s |-> <<2, 1, 3, 5>>,s2c |-> <<>>,h |-> 4,sl |-> 0,wq |-> <<>>,cr |-> 0,sr |-> 0,ins |-> {}]),
    ([arr |-> 0,call |-> <<"wait", "wait", "wait", "wait", "wait">>,comp |-> {},sw |-> 0,c2s |-> <<2, 1, 3, 5, 4>>,s2c |-> <<>>,h |-> 0,sl |-> 0,wq |-> <<>>,cr |-> 0,sr |-> 0,ins |-> {}]),
    ([arr |-> 0,call |-> <<"wait", "wait", "wait", "wait", "wait">>,comp |-> {},sw |-> 0,c2s |-> <<1, 3, 5, 4>>,s2c |-> <<>>,h |-> 0,sl |-> 0,wq |-> <<>>,cr |-> 0,sr |-> 2,ins |-> {}]),
    ([arr |-> 1,call |-> <<"wait", "wait", "wait", "wait", "wait">>,comp |-> {},sw |-> 0,c2s |-> <<1, 3, 5, 4>>,s2c |-> <<>>,h |-> 0,sl |-> 0,wq |-> <<>>,cr |-> 0,sr |-> 0,ins |-> {2}]),
    ([arr |-> 1,call |-> <<"wait", "wait", "wait", "wait", "wait">>,comp |-> {},sw |-> 0,c2s |-> <<3, 5, 4>>,s2c |-> <<>>,h |-> 0,sl |-> 0,wq |-> <<>>,cr |-> 0,sr |-> 1,ins |-> {2}]),
    ([arr |-> 2,call |-> <<"wait", "wait", "wait", "wait", "wait">>,comp |-> {},sw |-> 0,c2s |-> <<3, 5, 4>>,s2c |-> <<>>,h |-> 0,sl |-> 0,wq |-> <<>>,cr |-> 0,sr |-> 0,ins |-> {1, 2}]),
    ([arr |-> 2,call |-> <<"wait", "wait", "wait", "wait", "wait">>,comp |-> {},sw |-> 0,c2s |-> <<5, 4>>,s2c |-> <<>>,h |-> 0,sl |-> 0,wq |-> <<>>,cr |-> 0,sr |-> 3,ins |-> {1, 2}]),
    ([arr |-> 3,call |-> <<"wait", "wait", "wait", "wait", "wait">>,comp |-> {},sw |-> 0,c2s |-> <<5, 4>>,s2c |-> <<>>,h |-> 0,sl |-> 0,wq |-> <<>>,cr |-> 0,sr |-> 0,ins |-> {1, 2, 3}]),
    ([arr |-> 3,call |-> <<"wait", "wait", "wait", "wait", "wait">>,comp |-> {},sw |-> 0,c2s |-> <<4>>,s2c |-> <<>>,h |-> 0,sl |-> 0,wq |-> <<>>,cr |-> 0,sr |-> 5,ins |-> {1, 2, 3}])
    >>
----


=============================================================================

---- CONFIG Pipeline_TTrace_1790208521 ----
CONSTANTS
    N = 5
    K = 5
    Coupled = TRUE
    B = 5
    HCap = 3

INVARIANT
    _inv

CHECK_DEADLOCK
    \* CHECK_DEADLOCK off because of PROPERTY or INVARIANT above.
    FALSE

INIT
    _init

NEXT
    _next

CONSTANT
    _TETrace <- _trace

ALIAS
    _expression
=============================================================================
\* Generated on Thu Sep 24 00:08:44 UTC 2026