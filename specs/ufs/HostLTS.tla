------------------------------- MODULE HostLTS -------------------------------
EXTENDS HostFS, Json
CONSTANT Sample
Emit == (View' = View /\ RandomElement(1..Sample) # 1) \/ PrintT(ToJson(<<View, last', View', TLCGet("level")>>))
=============================================================================
