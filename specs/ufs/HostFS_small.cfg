CONSTANTS
  Fids = {1, 2}
  Good = {"a", "b"}
  Hostile <- HostileSmall
  MaxDepth = 2
  MaxIno = 3
  MaxLen = 1
  CPerms = {420}
  MPerms = {384}
  OModes = {0, 2}
  
SPECIFICATION Spec
INVARIANTS Inside RootStays TreeClosed OneLink NoLeak
VIEW View

CHECK_DEADLOCK FALSE
