-------------------------------- MODULE HostFS --------------------------------
(***************************************************************************)
(* C15 / C19: the host-directory file server (ufs) behind p9p.SFileSys,    *)
(* modelled as a POSIX-like tree.  The export root is the path <<>>.       *)
(*   tree : path -> inode number (0: no such path)                         *)
(*   ino  : inode -> [kind, data, perm]                                    *)
(*   fid  : [path, open, ino, mode]; an *open* fid keeps its inode (POSIX  *)
(*          file descriptors survive rename and unlink); everything else   *)
(*          goes through the path, so a fid whose path was removed or      *)
(*          renamed away by another fid dangles.                           *)
(* Names come from a hostile alphabet.  The reference semantics either     *)
(* rejects a request or resolves it inside the root: Inside is an          *)
(* invariant of every path the model ever touches.                         *)
(* The host file system is the oracle of C19; this model generates the     *)
(* request sequences, predicts acceptance and the tree, and the harness    *)
(* replays each step on ufs, on a twin directory with direct OS calls, and *)
(* compares all three.                                                     *)
(***************************************************************************)
EXTENDS Integers, Sequences, FiniteSets, TLC

CONSTANTS Fids, Good, Hostile, MaxDepth, MaxIno, MaxLen, CPerms, MPerms, OModes

VARIABLES tree, ino, fid, last
vars == <<tree, ino, fid, last>>
View == <<tree, ino, fid>>

Names == Good \cup Hostile
Paths == UNION {[1..n -> Good] : n \in 0..MaxDepth}
Inos == 1..MaxIno
Free == [kind |-> "free", data |-> <<>>, perm |-> 0]
\* at: the inode the fid's path denoted when the fid was bound
Unbound == [path |-> <<>>, bound |-> FALSE, open |-> FALSE, ino |-> 0, mode |-> 0, at |-> 0]

\* ---- name validation, from the property text of C16 (separators, "", ".", ".." rules)
Sep(s) == s \in {"a/b", "/", "/etc", "a\\b", "../x", "/../export-evil/x", "../export-evil/keep"}
Ordinary(s) == ~Sep(s) /\ s \notin {"", ".", ".."}
Lead(ns) == Cardinality({i \in 1..Len(ns) : \A j \in 1..i : ns[j] = ".."})
ValidWalk(ns) == /\ \A i \in 1..Len(ns) : ~Sep(ns[i]) /\ ns[i] \notin {"", "."}
                 /\ \A i \in 1..Len(ns) : ns[i] = ".." => \A j \in 1..i : ns[j] = ".."
Resolve(p, ns) == LET k == Lead(ns) IN SubSeq(p, 1, Len(p) - k) \o SubSeq(ns, k + 1, Len(ns))

Exists(p) == p \in Paths /\ tree[p] # 0
KindAt(p) == IF Exists(p) THEN ino[tree[p]].kind ELSE "none"
Parent(p) == SubSeq(p, 1, Len(p) - 1)
HasKids(p) == \E q \in Paths : Len(q) = Len(p) + 1 /\ SubSeq(q, 1, Len(p)) = p /\ tree[q] # 0
FreeIno == CHOOSE i \in Inos : ino[i].kind = "free" /\ \A j \in Inos : ino[j].kind = "free" => i <= j
HaveFree == \E i \in Inos : ino[i].kind = "free"

Rec(op, f, nf, names, name, a, b, res) == [op |-> op, f |-> f, nf |-> nf, names |-> names, name |-> name, a |-> a, b |-> b, res |-> res]
R0 == Rec("init", 0, 0, <<>>, "", 0, 0, "ok")

Init == /\ tree = [p \in Paths |-> IF p = <<>> THEN 1 ELSE 0]
        /\ ino = [i \in Inos |-> IF i = 1 THEN [kind |-> "dir", data |-> <<>>, perm |-> 493] ELSE Free]
        /\ fid = [f \in Fids |-> Unbound]
        /\ last = R0

Same == UNCHANGED <<tree, ino, fid>>
Err(r) == Same /\ last' = [r EXCEPT !.res = "err"]

Attach(f) == LET r == [R0 EXCEPT !.op = "attach", !.f = f] IN
  IF fid[f].bound THEN Err(r)
  ELSE /\ fid' = [fid EXCEPT ![f] = [Unbound EXCEPT !.bound = TRUE, !.at = 1]] /\ UNCHANGED <<tree, ino>> /\ last' = r

Walk(f, nf, ns) == LET r == [R0 EXCEPT !.op = "walk", !.f = f, !.nf = nf, !.names = ns] IN
  IF ~fid[f].bound \/ (nf # f /\ fid[nf].bound) THEN Err(r)
  ELSE IF ~ValidWalk(ns) \/ Lead(ns) > Len(fid[f].path) THEN Err(r)
  ELSE IF ns = <<>> /\ nf = f THEN Same /\ last' = r
  ELSE LET t == Resolve(fid[f].path, ns) IN
       IF (ns # <<>> /\ KindAt(fid[f].path) # "dir") \/ ~Exists(t) THEN Err(r)
       ELSE /\ fid' = [fid EXCEPT ![nf] = [Unbound EXCEPT !.bound = TRUE, !.path = t, !.at = tree[t]]]
            /\ UNCHANGED <<tree, ino>> /\ last' = r
WalkOK(f, nf, ns) == ~(f = nf /\ ns # <<>> /\ fid[f].open)

\* create: a = 1 directory / 0 file ; b = permission bits
Create(f, nm, isdir, perm) == LET r == [R0 EXCEPT !.op = "create", !.f = f, !.name = nm, !.a = IF isdir THEN 1 ELSE 0, !.b = perm] IN
  IF ~fid[f].bound \/ KindAt(fid[f].path) # "dir" \/ ~Ordinary(nm) THEN Err(r)
  ELSE LET t == Append(fid[f].path, nm) IN
       IF Len(t) <= MaxDepth /\ Exists(t) /\ ~isdir /\ KindAt(t) = "file" THEN
            \* a plain-file create of a name that already denotes a file: the host's open(O_CREAT) without O_EXCL
            \* opens the existing file and - the mode carries no truncation - leaves its content alone.
            \* (A server that refuses instead is also faithful to 9P; the harness accepts both and compares the trees.)
            /\ fid' = [fid EXCEPT ![f] = [path |-> t, bound |-> TRUE, open |-> TRUE, ino |-> tree[t], mode |-> 2, at |-> tree[t]]]
            /\ UNCHANGED <<tree, ino>> /\ last' = [r EXCEPT !.res = "ok-existing"]
       ELSE IF Len(t) > MaxDepth \/ Exists(t) \/ ~HaveFree THEN Len(t) <= MaxDepth /\ Exists(t) /\ isdir /\ Err(r)   \* mkdir of an existing name
       ELSE LET i == FreeIno IN
            /\ ino' = [ino EXCEPT ![i] = [kind |-> IF isdir THEN "dir" ELSE "file", data |-> <<>>, perm |-> perm]]
            /\ tree' = [tree EXCEPT ![t] = i]
            /\ fid' = [fid EXCEPT ![f] = [path |-> t, bound |-> TRUE, open |-> TRUE, ino |-> i, mode |-> 2, at |-> i]]
            /\ last' = r
CreateOK(f) == ~fid[f].open

\* open: a = mode (0 read, 1 write, 2 rdwr), b = 1 truncate
Open(f, m, tr) == LET r == [R0 EXCEPT !.op = "open", !.f = f, !.a = m, !.b = tr] IN
  IF ~fid[f].bound \/ fid[f].open \/ ~Exists(fid[f].path) THEN Err(r)
  ELSE LET i == tree[fid[f].path] IN
       /\ ino' = IF tr = 1 /\ ino[i].kind = "file" /\ m # 0 THEN [ino EXCEPT ![i].data = <<>>] ELSE ino
       /\ fid' = [fid EXCEPT ![f].open = TRUE, ![f].ino = i, ![f].mode = m]
       /\ UNCHANGED tree /\ last' = r
OpenOK(f, m, tr) == ~(tr = 1 /\ m = 0) /\ ~(fid[f].bound /\ KindAt(fid[f].path) = "dir" /\ (m # 0 \/ tr = 1))

IsOpenFile(f) == fid[f].bound /\ fid[f].open /\ ino[fid[f].ino].kind = "file"
\* read: a = offset, b = count ; the data is checked against the twin
Read(f, o, c) == Same /\ last' = [R0 EXCEPT !.op = "read", !.f = f, !.a = o, !.b = c, !.res = IF fid[f].mode = 1 THEN "err" ELSE "ok"]
\* write: a = offset, b = number of bytes; beyond the end the gap is zero-filled
Write(f, o, n) == LET r == [R0 EXCEPT !.op = "write", !.f = f, !.a = o, !.b = n]
                      i == fid[f].ino
                      d == ino[i].data
                      pad == [k \in 1..(IF o > Len(d) THEN o - Len(d) ELSE 0) |-> 0]
                      w == [k \in 1..n |-> 1]
                      nd == SubSeq(d \o pad, 1, o) \o w \o (IF o + n < Len(d) THEN SubSeq(d, o + n + 1, Len(d)) ELSE <<>>) IN
  IF fid[f].mode = 0 THEN Err(r)
  ELSE /\ Len(nd) <= MaxLen
       /\ ino' = [ino EXCEPT ![i].data = nd] /\ UNCHANGED <<tree, fid>> /\ last' = r

\* wstat length (by path): a = new length, may grow with zero fill
Truncate(f, l) == LET r == [R0 EXCEPT !.op = "truncate", !.f = f, !.a = l] IN
  IF ~fid[f].bound \/ KindAt(fid[f].path) # "file" THEN Err(r)
  ELSE LET i == tree[fid[f].path]
           d == ino[i].data IN
       /\ ino' = [ino EXCEPT ![i].data = IF l <= Len(d) THEN SubSeq(d, 1, l) ELSE d \o [k \in 1..(l - Len(d)) |-> 0]]
       /\ UNCHANGED <<tree, fid>> /\ last' = r
Chmod(f, perm) == LET r == [R0 EXCEPT !.op = "chmod", !.f = f, !.b = perm] IN
  IF ~fid[f].bound \/ ~Exists(fid[f].path) THEN Err(r)
  ELSE /\ ino' = [ino EXCEPT ![tree[fid[f].path]].perm = perm] /\ UNCHANGED <<tree, fid>> /\ last' = r

\* wstat name: the new name is resolved in the parent directory; hostile names are rejected or stay inside
Rename(f, nm) == LET r == [R0 EXCEPT !.op = "rename", !.f = f, !.name = nm] IN
  IF ~fid[f].bound \/ ~Exists(fid[f].path) \/ fid[f].path = <<>> \/ ~Ordinary(nm) THEN Err(r)
  ELSE LET p == fid[f].path
           t == Append(Parent(p), nm) IN
       IF t = p THEN Same /\ last' = r
       ELSE IF Exists(t) THEN FALSE            \* replacing an existing name is not generated
       ELSE /\ tree' = [q \in Paths |->
                          IF Len(q) >= Len(t) /\ SubSeq(q, 1, Len(t)) = t THEN tree[p \o SubSeq(q, Len(t) + 1, Len(q))]
                          ELSE IF Len(q) >= Len(p) /\ SubSeq(q, 1, Len(p)) = p THEN 0 ELSE tree[q]]
            /\ fid' = [fid EXCEPT ![f].path = t]
            /\ UNCHANGED ino /\ last' = r

\* (an inode number is not reused while some fid was bound to it: no ABA confusion in Fresh)
Referenced(i, t, fd) == (\E q \in Paths : t[q] = i) \/ (\E g \in Fids : fd[g].bound /\ ((fd[g].open /\ fd[g].ino = i) \/ fd[g].at = i))
\* inodes nobody can reach any more are freed (keeps the model finite; invisible to clients)
Collect(t, fd) == [i \in Inos |-> IF ino[i].kind # "free" /\ ~Referenced(i, t, fd) THEN Free ELSE ino[i]]
Remove(f) == LET r == [R0 EXCEPT !.op = "remove", !.f = f] IN
  IF ~fid[f].bound THEN Err(r)
  ELSE LET p == fid[f].path
           fd2 == [fid EXCEPT ![f] = Unbound] IN
       IF p = <<>> \/ ~Exists(p) \/ HasKids(p) THEN /\ fid' = fd2 /\ UNCHANGED tree /\ ino' = Collect(tree, fd2) /\ last' = [r EXCEPT !.res = "err"]
       ELSE LET t2 == [tree EXCEPT ![p] = 0] IN
            /\ tree' = t2 /\ fid' = fd2
            /\ ino' = Collect(t2, fd2)
            /\ last' = r
Clunk(f) == LET r == [R0 EXCEPT !.op = "clunk", !.f = f] IN
  IF ~fid[f].bound THEN Err(r)
  ELSE LET fd2 == [fid EXCEPT ![f] = Unbound] IN
       /\ fid' = fd2 /\ UNCHANGED tree
       /\ ino' = Collect(tree, fd2)
       /\ last' = r

\* A fid whose path was removed, renamed away or re-created by another fid dangles: 9P says it no longer
\* denotes a file, the host would resolve the path anew - "the equivalent OS operation" is not defined, so
\* only clunk / remove (and I/O on an already open descriptor) are generated for it.
Fresh(f) == fid[f].bound /\ tree[fid[f].path] = fid[f].at /\ fid[f].at # 0
WalkLists == {<<>>, <<"a">>, <<"b">>, <<"..">>, <<"a", "b">>, <<"..", "a">>, <<"..", "..">>} \cup {<<h>> : h \in Hostile} \cup {<<"a", h>> : h \in Hostile}
Next ==
  \/ \E f \in Fids : Attach(f)
  \/ \E f \in Fids, nf \in Fids, ns \in WalkLists : Fresh(f) /\ WalkOK(f, nf, ns) /\ Walk(f, nf, ns)
  \/ \E f \in Fids, nm \in Names, d \in BOOLEAN, perm \in CPerms : Fresh(f) /\ CreateOK(f) /\ Create(f, nm, d, perm)
  \/ \E f \in Fids, m \in OModes, tr \in 0..1 : Fresh(f) /\ OpenOK(f, m, tr) /\ Open(f, m, tr)
  \/ \E f \in Fids, o \in 0..(MaxLen + 1), c \in {0, 1, 9} : IsOpenFile(f) /\ Read(f, o, c)
  \/ \E f \in Fids, o \in 0..MaxLen, n \in 0..2 : IsOpenFile(f) /\ Write(f, o, n)
  \/ \E f \in Fids, l \in 0..MaxLen : Fresh(f) /\ Truncate(f, l)
  \/ \E f \in Fids, perm \in MPerms : Fresh(f) /\ Chmod(f, perm)
  \/ \E f \in Fids, nm \in Names : Fresh(f) /\ Rename(f, nm)
  \/ \E f \in Fids : fid[f].bound /\ Remove(f)
  \/ \E f \in Fids : Clunk(f)
Spec == Init /\ [][Next]_vars

\* ------------------------------------------------------------- properties
\* C15: every path the server is asked to touch after validation lies inside the root (a sequence of ordinary names)
Inside == \A f \in Fids : fid[f].bound => (fid[f].path \in Paths /\ \A i \in 1..Len(fid[f].path) : Ordinary(fid[f].path[i]))
RootStays == tree[<<>>] = 1 /\ ino[1].kind = "dir"
TreeClosed == \A p \in Paths : (p # <<>> /\ tree[p] # 0) => KindAt(Parent(p)) = "dir"
OneLink == \A p, q \in Paths : (tree[p] # 0 /\ tree[p] = tree[q]) => p = q
NoLeak == \A i \in Inos : ino[i].kind # "free" => Referenced(i, tree, fid)
HostileFull == {"", ".", "..", "a/b", "/", "/etc", "a\\b", "../x", "/../export-evil/x", "../export-evil/keep"}
\* (the sandbox has a sibling directory whose name starts with the export's name: "export-evil")
HostileSmall == {".."}
HostileNone == {}
=============================================================================
