CONSTANTS
  Fids = {1, 2, 3}
  Good = {"a", "b"}
  Hostile <- HostileSmall
  MaxDepth = 2
  MaxIno = 4
  MaxLen = 3
  CPerms = {420, 448, 511}
  MPerms = {384, 420, 511}
  OModes = {0, 1, 2}
  Sample = 1
SPECIFICATION Spec
INVARIANTS Inside RootStays TreeClosed OneLink NoLeak
VIEW View
ACTION_CONSTRAINT Emit
CHECK_DEADLOCK FALSE
