CONSTANTS
  Fids = {1, 2}
  Good = {"a"}
  Hostile <- HostileNone
  MaxDepth = 1
  MaxIno = 2
  MaxLen = 1
  CPerms = {420}
  MPerms = {384}
  OModes = {0, 1, 2}
  Sample = 8
SPECIFICATION Spec
INVARIANTS Inside RootStays TreeClosed OneLink NoLeak
VIEW View
ACTION_CONSTRAINT Emit
CHECK_DEADLOCK FALSE
