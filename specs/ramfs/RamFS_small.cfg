CONSTANTS
  Sess = {1}
  Fids = {1, 2}
  Names = {"a", "b"}
  MaxNodes = 3
  MaxLen = 1
  Bytes = {120}
SPECIFICATION Spec
INVARIANTS TypeOK TreeShape FilesAreLeaves RootStays HandlesLive
VIEW View

CHECK_DEADLOCK FALSE
