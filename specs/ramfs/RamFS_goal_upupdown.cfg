CONSTANTS
  Sess = {1}
  Fids = {1, 2}
  Names = {"a", "b"}
  MaxNodes = 4
  MaxLen = 0
  Bytes = {120}
SPECIFICATION Spec
INVARIANTS NeverUpUpDown
VIEW View
CHECK_DEADLOCK FALSE
