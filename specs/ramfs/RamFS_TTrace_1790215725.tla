---- MODULE RamFS_TTrace_1790215725 ----
EXTENDS Sequences, TLCExt, Toolbox, Naturals, TLC, RamFS

_expression ==
    LET RamFS_TEExpression == INSTANCE RamFS_TEExpression
    IN RamFS_TEExpression!expression
----

_trace ==
    LET RamFS_TETrace == INSTANCE RamFS_TETrace
    IN RamFS_TETrace!trace
----

_inv ==
    ~(
        TLCGet("level") = Len(_TETrace)
        /\
        tab = ((<<1, 1>> :> [n |-> 4, chain |-> <<1, 3>>, open |-> TRUE] @@ <<1, 2>> :> [n |-> 2, chain |-> <<1>>, open |-> FALSE]))
        /\
        data = (<<<<>>, <<>>, <<>>, <<>>>>)
        /\
        last = ([op |-> "walk", s |-> 1, f |-> 1, nf |-> 2, names |-> <<"..", "..", "a">>, name |-> "", off |-> "0", cnt |-> 3, bytes |-> <<>>, res |-> "ok", out |-> <<>>, newnode |-> 0])
        /\
        kind = (<<"dir", "file", "dir", "dir">>)
        /\
        child = (<<[a |-> 2, b |-> 3], [a |-> 0, b |-> 0], [a |-> 4, b |-> 0], [a |-> 0, b |-> 0]>>)
    )
----

_init ==
    /\ tab = _TETrace[1].tab
    /\ data = _TETrace[1].data
    /\ kind = _TETrace[1].kind
    /\ last = _TETrace[1].last
    /\ child = _TETrace[1].child
----

_next ==
    /\ \E i,j \in DOMAIN _TETrace:
        /\ \/ /\ j = i + 1
              /\ i = TLCGet("level")
        /\ tab  = _TETrace[i].tab
        /\ tab' = _TETrace[j].tab
        /\ data  = _TETrace[i].data
        /\ data' = _TETrace[j].data
        /\ kind  = _TETrace[i].kind
        /\ kind' = _TETrace[j].kind
        /\ last  = _TETrace[i].last
        /\ last' = _TETrace[j].last
        /\ child  = _TETrace[i].child
        /\ child' = _TETrace[j].child

\* Uncomment the ASSUME below to write the states of the error trace
\* to the given file in Json format. Note that you can pass any tuple
\* to `JsonSerialize`. For example, a sub-sequence of _TETrace.
    \* ASSUME
    \*     LET J == INSTANCE Json
    \*         IN J!JsonSerialize("RamFS_TTrace_1790215725.json", _TETrace)

=============================================================================

 Note that you can extract this module `RamFS_TEExpression`
  to a dedicated file to reuse `expression` (the module in the 
  dedicated `RamFS_TEExpression.tla` file takes precedence 
  over the module `RamFS_TEExpression` below).

---- MODULE RamFS_TEExpression ----
EXTENDS Sequences, TLCExt, Toolbox, Naturals, TLC, RamFS

expression == 
    [
        \* To hide variables of the `RamFS` spec from the error trace,
        \* remove the variables below.  The trace will be written in the order
        \* of the fields of this record.
        tab |-> tab
        ,data |-> data
        ,kind |-> kind
        ,last |-> last
        ,child |-> child
        
        \* Put additional constant-, state-, and action-level expressions here:
        \* ,_stateNumber |-> _TEPosition
        \* ,_tabUnchanged |-> tab = tab'
        
        \* Format the `tab` variable as Json value.
        \* ,_tabJson |->
        \*     LET J == INSTANCE Json
        \*     IN J!ToJson(tab)
        
        \* Lastly, you may build expressions over arbitrary sets of states by
        \* leveraging the _TETrace operator.  For example, this is how to
        \* count the number of times a spec variable changed up to the current
        \* state in the trace.
        \* ,_tabModCount |->
        \*     LET F[s \in DOMAIN _TETrace] ==
        \*         IF s = 1 THEN 0
        \*         ELSE IF _TETrace[s].tab # _TETrace[s-1].tab
        \*             THEN 1 + F[s-1] ELSE F[s-1]
        \*     IN F[_TEPosition - 1]
    ]

=============================================================================



Parsing and semantic processing can take forever if the trace below is long.
 In this case, it is advised to uncomment the module below to deserialize the
 trace from a generated binary file.

\*
\*---- MODULE RamFS_TETrace ----
\*EXTENDS IOUtils, TLC, RamFS
\*
\*trace == IODeserialize("RamFS_TTrace_1790215725.bin", TRUE)
\*
\*=============================================================================
\*

---- MODULE RamFS_TETrace ----
EXTENDS TLC, RamFS

trace == 
    <<
    ([tab |-> (<<1, 1>> :> [n |-> 0, chain |-> <<>>, open |-> FALSE] @@ <<1, 2>> :> [n |-> 0, chain |-> <<>>, open |-> FALSE]),data |-> <<<<>>, <<>>, <<>>, <<>>>>,last |-> [op |-> "init", s |-> 0, f |-> 0, nf |-> 0, names |-> <<>>, name |-> "", off |-> "0", cnt |-> 0, bytes |-> <<>>, res |-> "ok", out |-> <<>>, newnode |-> 0],kind |-> <<"dir", "free", "free", "free">>,child |-> <<[a |-> 0, b |-> 0], [a |-> 0, b |-> 0], [a |-> 0, b |-> 0], [a |-> 0, b |-> 0]>>]),
    ([tab |-> (<<1, 1>> :> [n |-> 0, chain |-> <<>>, open |-> FALSE] @@ <<1, 2>> :> [n |-> 1, chain |-> <<>>, open |-> FALSE]),data |-> <<<<>>, <<>>, <<>>, <<>>>>,last |-> [op |-> "attach", s |-> 1, f |-> 2, nf |-> 0, names |-> <<>>, name |-> "", off |-> "0", cnt |-> 0, bytes |-> <<>>, res |-> "ok", out |-> <<>>, newnode |-> 0],kind |-> <<"dir", "free", "free", "free">>,child |-> <<[a |-> 0, b |-> 0], [a |-> 0, b |-> 0], [a |-> 0, b |-> 0], [a |-> 0, b |-> 0]>>]),
    ([tab |-> (<<1, 1>> :> [n |-> 1, chain |-> <<>>, open |-> FALSE] @@ <<1, 2>> :> [n |-> 1, chain |-> <<>>, open |-> FALSE]),data |-> <<<<>>, <<>>, <<>>, <<>>>>,last |-> [op |-> "attach", s |-> 1, f |-> 1, nf |-> 0, names |-> <<>>, name |-> "", off |-> "0", cnt |-> 0, bytes |-> <<>>, res |-> "ok", out |-> <<>>, newnode |-> 0],kind |-> <<"dir", "free", "free", "free">>,child |-> <<[a |-> 0, b |-> 0], [a |-> 0, b |-> 0], [a |-> 0, b |-> 0], [a |-> 0, b |-> 0]>>]),
    ([tab |-> (<<1, 1>> :> [n |-> 2, chain |-> <<1>>, open |-> TRUE] @@ <<1, 2>> :> [n |-> 1, chain |-> <<>>, open |-> FALSE]),data |-> <<<<>>, <<>>, <<>>, <<>>>>,last |-> [op |-> "create", s |-> 1, f |-> 1, nf |-> 0, names |-> <<>>, name |-> "a", off |-> "0", cnt |-> 0, bytes |-> <<>>, res |-> "ok", out |-> <<>>, newnode |-> 2],kind |-> <<"dir", "file", "free", "free">>,child |-> <<[a |-> 2, b |-> 0], [a |-> 0, b |-> 0], [a |-> 0, b |-> 0], [a |-> 0, b |-> 0]>>]),
    ([tab |-> (<<1, 1>> :> [n |-> 0, chain |-> <<>>, open |-> FALSE] @@ <<1, 2>> :> [n |-> 1, chain |-> <<>>, open |-> FALSE]),data |-> <<<<>>, <<>>, <<>>, <<>>>>,last |-> [op |-> "clunk", s |-> 1, f |-> 1, nf |-> 0, names |-> <<>>, name |-> "", off |-> "0", cnt |-> 0, bytes |-> <<>>, res |-> "ok", out |-> <<>>, newnode |-> 0],kind |-> <<"dir", "file", "free", "free">>,child |-> <<[a |-> 2, b |-> 0], [a |-> 0, b |-> 0], [a |-> 0, b |-> 0], [a |-> 0, b |-> 0]>>]),
    ([tab |-> (<<1, 1>> :> [n |-> 0, chain |-> <<>>, open |-> FALSE] @@ <<1, 2>> :> [n |-> 3, chain |-> <<1>>, open |-> TRUE]),data |-> <<<<>>, <<>>, <<>>, <<>>>>,last |-> [op |-> "create", s |-> 1, f |-> 2, nf |-> 0, names |-> <<>>, name |-> "b", off |-> "0", cnt |-> 1, bytes |-> <<>>, res |-> "ok", out |-> <<>>, newnode |-> 3],kind |-> <<"dir", "file", "dir", "free">>,child |-> <<[a |-> 2, b |-> 3], [a |-> 0, b |-> 0], [a |-> 0, b |-> 0], [a |-> 0, b |-> 0]>>]),
    ([tab |-> (<<1, 1>> :> [n |-> 3, chain |-> <<1>>, open |-> FALSE] @@ <<1, 2>> :> [n |-> 3, chain |-> <<1>>, open |-> TRUE]),data |-> <<<<>>, <<>>, <<>>, <<>>>>,last |-> [op |-> "walk", s |-> 1, f |-> 2, nf |-> 1, names |-> <<>>, name |-> "", off |-> "0", cnt |-> 0, bytes |-> <<>>, res |-> "ok", out |-> <<>>, newnode |-> 0],kind |-> <<"dir", "file", "dir", "free">>,child |-> <<[a |-> 2, b |-> 3], [a |-> 0, b |-> 0], [a |-> 0, b |-> 0], [a |-> 0, b |-> 0]>>]),
    ([tab |-> (<<1, 1>> :> [n |-> 3, chain |-> <<1>>, open |-> FALSE] @@ <<1, 2>> :> [n |-> 0, chain |-> <<>>, open |-> FALSE]),data |-> <<<<>>, <<>>, <<>>, <<>>>>,last |-> [op |-> "clunk", s |-> 1, f |-> 2, nf |-> 0, names |-> <<>>, name |-> "", off |-> "0", cnt |-> 0, bytes |-> <<>>, res |-> "ok", out |-> <<>>, newnode |-> 0],kind |-> <<"dir", "file", "dir", "free">>,child |-> <<[a |-> 2, b |-> 3], [a |-> 0, b |-> 0], [a |-> 0, b |-> 0], [a |-> 0, b |-> 0]>>]),
    ([tab |-> (<<1, 1>> :> [n |-> 4, chain |-> <<1, 3>>, open |-> TRUE] @@ <<1, 2>> :> [n |-> 0, chain |-> <<>>, open |-> FALSE]),data |-> <<<<>>, <<>>, <<>>, <<>>>>,last |-> [op |-> "create", s |-> 1, f |-> 1, nf |-> 0, names |-> <<>>, name |-> "a", off |-> "0", cnt |-> 1, bytes |-> <<>>, res |-> "ok", out |-> <<>>, newnode |-> 4],kind |-> <<"dir", "file", "dir", "dir">>,child |-> <<[a |-> 2, b |-> 3], [a |-> 0, b |-> 0], [a |-> 4, b |-> 0], [a |-> 0, b |-> 0]>>]),
    ([tab |-> (<<1, 1>> :> [n |-> 4, chain |-> <<1, 3>>, open |-> TRUE] @@ <<1, 2>> :> [n |-> 2, chain |-> <<1>>, open |-> FALSE]),data |-> <<<<>>, <<>>, <<>>, <<>>>>,last |-> [op |-> "walk", s |-> 1, f |-> 1, nf |-> 2, names |-> <<"..", "..", "a">>, name |-> "", off |-> "0", cnt |-> 3, bytes |-> <<>>, res |-> "ok", out |-> <<>>, newnode |-> 0],kind |-> <<"dir", "file", "dir", "dir">>,child |-> <<[a |-> 2, b |-> 3], [a |-> 0, b |-> 0], [a |-> 4, b |-> 0], [a |-> 0, b |-> 0]>>])
    >>
----


=============================================================================

---- CONFIG RamFS_TTrace_1790215725 ----
CONSTANTS
    Sess = { 1 }
    Fids = { 1 , 2 }
    Names = { "a" , "b" }
    MaxNodes = 4
    MaxLen = 0
    Bytes = { 120 }

INVARIANT
    _inv

CHECK_DEADLOCK
    \* CHECK_DEADLOCK off because of PROPERTY or INVARIANT above.
    FALSE

INIT
    _init

NEXT
    _next

CONSTANT
    _TETrace <- _trace

ALIAS
    _expression
=============================================================================
\* Generated on Thu Sep 24 02:08:49 UTC 2026