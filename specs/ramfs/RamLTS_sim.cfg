CONSTANTS
  Sess = {1, 2}
  Fids = {1, 2, 3}
  Names = {"a", "b"}
  MaxNodes = 4
  MaxLen = 3
  Bytes = {120, 121}
  Sample = 1
SPECIFICATION Spec
INVARIANTS TypeOK TreeShape FilesAreLeaves RootStays HandlesLive
VIEW View
ACTION_CONSTRAINT Emit
CHECK_DEADLOCK FALSE
