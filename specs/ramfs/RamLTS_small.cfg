CONSTANTS
  Sess = {1}
  Fids = {1, 2}
  Names = {"a", "b"}
  MaxNodes = 3
  MaxLen = 1
  Bytes = {120}
  Sample = 4
SPECIFICATION Spec
INVARIANTS TypeOK TreeShape FilesAreLeaves RootStays HandlesLive
VIEW View
ACTION_CONSTRAINT Emit
CHECK_DEADLOCK FALSE
