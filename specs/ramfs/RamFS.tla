-------------------------------- MODULE RamFS --------------------------------
(***************************************************************************)
(* C18: the in-memory file server (ramfs) as a tree of byte arrays shared  *)
(* by several sessions, driven through p9p.SFileSys sessions.              *)
(*   node  : directory (children: name -> node) or file (byte sequence)    *)
(*   handle: a node plus the chain of directories it was reached through   *)
(*           (root first); ".." follows the chain, also through removed    *)
(*           directories                                                   *)
(* Reads return the bytes last written; a write at off <= len overwrites / *)
(* extends, beyond the end (or at an offset that is negative as int64) it  *)
(* is refused; wstat(length) only shrinks; listings are the live children  *)
(* plus ".."; remove unlinks the name only if it still denotes this node   *)
(* (a stale handle must not remove a newer file of the same name); a       *)
(* removed directory stays usable through handles that reference it.       *)
(* Offsets are symbolic classes resolved against the file length ("end+1"  *)
(* stands for every offset beyond the end, up to 2^63-1, where offset +    *)
(* count no longer fits an int64).                                         *)
(***************************************************************************)
EXTENDS Integers, Sequences, FiniteSets, TLC

CONSTANTS Sess, Fids, Names, MaxNodes, MaxLen, Bytes

VARIABLES kind,     \* node -> "dir" | "file" | "free"
          child,    \* node -> [Names -> node or 0]
          data,     \* node -> byte sequence
          tab,      \* <<session, fid>> -> [n: node or 0, chain: Seq(node), open: BOOLEAN]
          last
vars == <<kind, child, data, tab, last>>
View == <<kind, child, data, tab>>

Nodes == 1..MaxNodes
Root == 1
NoKids == [nm \in Names |-> 0]
Unbound == [n |-> 0, chain |-> <<>>, open |-> FALSE]
SF == Sess \X Fids

Offs == {"0", "1", "end", "end+1", "neg", "max"}
OffOf(o, len) == CASE o = "0" -> 0 [] o = "1" -> 1 [] o = "end" -> len [] o = "end+1" -> len + 1 [] OTHER -> -1

Rec(op, s, f, nf, names, name, off, cnt, bytes, res, out, newnode) ==
  [op |-> op, s |-> s, f |-> f, nf |-> nf, names |-> names, name |-> name, off |-> off, cnt |-> cnt,
   bytes |-> bytes, res |-> res, out |-> out, newnode |-> newnode]
R0 == Rec("init", 0, 0, 0, <<>>, "", "0", 0, <<>>, "ok", <<>>, 0)

Init == /\ kind = [n \in Nodes |-> IF n = Root THEN "dir" ELSE "free"]
        /\ child = [n \in Nodes |-> NoKids]
        /\ data = [n \in Nodes |-> <<>>]
        /\ tab = [x \in SF |-> Unbound]
        /\ last = R0

Bound(s, f) == tab[<<s, f>>].n # 0
Same == UNCHANGED <<kind, child, data, tab>>

Attach(s, f) ==
  IF Bound(s, f) THEN Same /\ last' = [R0 EXCEPT !.op = "attach", !.s = s, !.f = f, !.res = "err"]
  ELSE /\ tab' = [tab EXCEPT ![<<s, f>>] = [n |-> Root, chain |-> <<>>, open |-> FALSE]]
       /\ UNCHANGED <<kind, child, data>>
       /\ last' = [R0 EXCEPT !.op = "attach", !.s = s, !.f = f]

\* ---- walk: leading ".." follow the chain, then names are looked up in the live tree
Lead(ns) == Cardinality({i \in 1..Len(ns) : \A j \in 1..i : ns[j] = ".."})
ValidNames(ns) == \A i \in 1..Len(ns) : ns[i] = ".." => \A j \in 1..i : ns[j] = ".."
RECURSIVE Fwd(_, _, _)
\* forward lookup: returns the sequence of nodes reached (stops at the first missing name)
Fwd(n, ns, acc) == IF ns = <<>> \/ kind[n] # "dir" \/ child[n][Head(ns)] = 0 THEN acc
                   ELSE Fwd(child[n][Head(ns)], Tail(ns), Append(acc, child[n][Head(ns)]))

Walk(s, f, nf, ns) ==
  LET a == [R0 EXCEPT !.op = "walk", !.s = s, !.f = f, !.nf = nf, !.names = ns] IN
  IF ~Bound(s, f) \/ (nf # f /\ Bound(s, nf)) THEN Same /\ last' = [a EXCEPT !.res = "err"]
  ELSE LET h == tab[<<s, f>>]
           nd == Lead(ns)
           full == Append(h.chain, h.n) IN          \* root .. the node itself
       IF ns = <<>> /\ nf = f THEN Same /\ last' = a          \* walking a fid to itself with no names: nothing happens
       ELSE IF ns = <<>> THEN
         /\ tab' = [tab EXCEPT ![<<s, nf>>] = [h EXCEPT !.open = FALSE]]
         /\ UNCHANGED <<kind, child, data>> /\ last' = a
       ELSE IF kind[h.n] # "dir" \/ nd > Len(h.chain) THEN Same /\ last' = [a EXCEPT !.res = "err"]
       ELSE LET base == SubSeq(full, 1, Len(full) - nd)        \* chain of the directory reached by the ".." run
                start == base[Len(base)]
                fw == Fwd(start, SubSeq(ns, nd + 1, Len(ns)), <<>>)
                nq == nd + Len(fw) IN
            IF nq = 0 THEN Same /\ last' = [a EXCEPT !.res = "err"]                 \* first element not found
            ELSE IF nq < Len(ns) THEN Same /\ last' = [a EXCEPT !.res = "partial", !.cnt = nq]
            ELSE LET path == base \o fw IN
                 /\ tab' = [tab EXCEPT ![<<s, nf>>] = [n |-> path[Len(path)], chain |-> SubSeq(path, 1, Len(path) - 1),
                                                       open |-> IF nf = f THEN h.open ELSE FALSE]]
                 /\ UNCHANGED <<kind, child, data>>
                 /\ last' = [a EXCEPT !.cnt = nq]
WalkOK(s, f, nf, ns) == ValidNames(ns) /\ ~(f = nf /\ ns # <<>> /\ Bound(s, f) /\ tab[<<s, f>>].open)

Create(s, f, nm, isdir) ==
  LET a == [R0 EXCEPT !.op = "create", !.s = s, !.f = f, !.name = nm, !.cnt = IF isdir THEN 1 ELSE 0] IN
  IF ~Bound(s, f) THEN Same /\ last' = [a EXCEPT !.res = "err"]
  ELSE LET h == tab[<<s, f>>] IN
       IF kind[h.n] # "dir" \/ child[h.n][nm] # 0 \/ \A n \in Nodes : kind[n] # "free"
         THEN /\ kind[h.n] = "dir" => child[h.n][nm] # 0      \* (out of nodes: not generated)
              /\ Same /\ last' = [a EXCEPT !.res = "err"]
         ELSE LET n == CHOOSE x \in Nodes : kind[x] = "free" /\ \A y \in Nodes : kind[y] = "free" => x <= y IN
              /\ kind' = [kind EXCEPT ![n] = IF isdir THEN "dir" ELSE "file"]
              /\ child' = [child EXCEPT ![h.n][nm] = n, ![n] = NoKids]
              /\ data' = [data EXCEPT ![n] = <<>>]
              /\ tab' = [tab EXCEPT ![<<s, f>>] = [n |-> n, chain |-> Append(h.chain, h.n), open |-> TRUE]]
              /\ last' = [a EXCEPT !.newnode = n]
CreateOK(s, f) == ~(Bound(s, f) /\ tab[<<s, f>>].open)

Open(s, f) ==
  LET a == [R0 EXCEPT !.op = "open", !.s = s, !.f = f] IN
  IF ~Bound(s, f) \/ tab[<<s, f>>].open THEN Same /\ last' = [a EXCEPT !.res = "err"]
  ELSE /\ tab' = [tab EXCEPT ![<<s, f>>].open = TRUE] /\ UNCHANGED <<kind, child, data>> /\ last' = a

IsOpenFile(s, f) == Bound(s, f) /\ tab[<<s, f>>].open /\ kind[tab[<<s, f>>].n] = "file"

Read(s, f, o, c) ==
  LET a == [R0 EXCEPT !.op = "read", !.s = s, !.f = f, !.off = o, !.cnt = c] IN
  /\ Same
  /\ IF ~IsOpenFile(s, f) THEN last' = [a EXCEPT !.res = "skip"]
     ELSE LET d == data[tab[<<s, f>>].n]
              p == OffOf(o, Len(d)) IN
          IF p < 0 \/ p >= Len(d) THEN last' = [a EXCEPT !.res = "nobytes"]
          ELSE last' = [a EXCEPT !.out = SubSeq(d, p + 1, IF p + c > Len(d) THEN Len(d) ELSE p + c)]

Write(s, f, o, w) ==
  LET a == [R0 EXCEPT !.op = "write", !.s = s, !.f = f, !.off = o, !.bytes = w] IN
  IF ~IsOpenFile(s, f) THEN Same /\ last' = [a EXCEPT !.res = "skip"]
  ELSE LET n == tab[<<s, f>>].n
           d == data[n]
           p == OffOf(o, Len(d)) IN
       IF p < 0 \/ p > Len(d) THEN Same /\ last' = [a EXCEPT !.res = "err"]
       ELSE LET nd == SubSeq(d, 1, p) \o w \o (IF p + Len(w) < Len(d) THEN SubSeq(d, p + Len(w) + 1, Len(d)) ELSE <<>>) IN
            /\ Len(nd) <= MaxLen
            /\ data' = [data EXCEPT ![n] = nd]
            /\ UNCHANGED <<kind, child, tab>>
            /\ last' = a

Truncate(s, f, l) ==      \* wstat with a length: shrinks only
  LET a == [R0 EXCEPT !.op = "truncate", !.s = s, !.f = f, !.cnt = l] IN
  IF ~Bound(s, f) \/ kind[tab[<<s, f>>].n] # "file" THEN Same /\ last' = [a EXCEPT !.res = "skip"]
  ELSE LET n == tab[<<s, f>>].n IN
       IF l > Len(data[n]) THEN Same /\ last' = [a EXCEPT !.res = "err"]
       ELSE /\ data' = [data EXCEPT ![n] = SubSeq(data[n], 1, l)] /\ UNCHANGED <<kind, child, tab>> /\ last' = a

\* listing a directory: opens the fid (read-only) and reads all entries
List(s, f) ==
  LET a == [R0 EXCEPT !.op = "list", !.s = s, !.f = f] IN
  IF ~Bound(s, f) \/ kind[tab[<<s, f>>].n] # "dir" \/ tab[<<s, f>>].open THEN Same /\ last' = [a EXCEPT !.res = "skip"]
  ELSE /\ tab' = [tab EXCEPT ![<<s, f>>].open = TRUE]
       /\ UNCHANGED <<kind, child, data>>
       /\ last' = [a EXCEPT !.out = <<{nm \in Names : child[tab[<<s, f>>].n][nm] # 0}>>]

Clunk(s, f) ==
  LET a == [R0 EXCEPT !.op = "clunk", !.s = s, !.f = f] IN
  IF ~Bound(s, f) THEN Same /\ last' = [a EXCEPT !.res = "err"]
  ELSE /\ tab' = [tab EXCEPT ![<<s, f>>] = Unbound] /\ UNCHANGED <<kind, child, data>> /\ last' = a

\* a node becomes free again when nothing references it any more
Referenced(n, t, ch) == \/ \E x \in SF : t[x].n = n \/ \E i \in 1..Len(t[x].chain) : t[x].chain[i] = n
                        \/ \E p \in Nodes : \E nm \in Names : ch[p][nm] = n
Remove(s, f) ==
  LET a == [R0 EXCEPT !.op = "remove", !.s = s, !.f = f] IN
  IF ~Bound(s, f) THEN Same /\ last' = [a EXCEPT !.res = "err"]
  ELSE LET h == tab[<<s, f>>] IN
       IF h.chain = <<>> THEN     \* the root cannot be removed; the fid is clunked all the same
         /\ tab' = [tab EXCEPT ![<<s, f>>] = Unbound] /\ UNCHANGED <<kind, child, data>> /\ last' = [a EXCEPT !.res = "err"]
       ELSE LET p == h.chain[Len(h.chain)]
                nms == {nm \in Names : child[p][nm] = h.n} IN
            /\ tab' = [tab EXCEPT ![<<s, f>>] = Unbound]
            /\ child' = [child EXCEPT ![p] = [nm \in Names |-> IF nm \in nms THEN 0 ELSE child[p][nm]]]
            /\ UNCHANGED <<kind, data>>
            /\ last' = [a EXCEPT !.res = IF nms = {} THEN "err" ELSE "ok"]

\* garbage collection of unreferenced nodes (keeps the model finite; invisible to clients)
Collect == \E n \in Nodes \ {Root} :
             /\ kind[n] # "free" /\ ~Referenced(n, tab, child)
             /\ kind' = [kind EXCEPT ![n] = "free"] /\ child' = [child EXCEPT ![n] = NoKids] /\ data' = [data EXCEPT ![n] = <<>>]
             /\ UNCHANGED tab /\ last' = [R0 EXCEPT !.op = "gc"]
NoGarbage == \A n \in Nodes \ {Root} : kind[n] = "free" \/ Referenced(n, tab, child)

WalkLists == {<<>>, <<"a">>, <<"b">>, <<"..">>, <<"a", "b">>, <<"..", "a">>, <<"..", "..">>, <<"a", "a">>, <<"..", "..", "a">>, <<"..", "..", "b">>, <<"..", "b">>}
\* (top-level disjunction of \E-actions: TLC's simulator then picks one instance at random)
G == NoGarbage
Next ==
  \/ Collect
  \/ \E s \in Sess, f \in Fids : G /\ Attach(s, f)
  \/ \E s \in Sess, f \in Fids : G /\ Bound(s, f) /\ Open(s, f)
  \/ \E s \in Sess, f \in Fids : G /\ Bound(s, f) /\ kind[tab[<<s, f>>].n] = "dir" /\ ~tab[<<s, f>>].open /\ List(s, f)
  \/ \E s \in Sess, f \in Fids : G /\ Clunk(s, f)
  \/ \E s \in Sess, f \in Fids : G /\ Remove(s, f)
  \/ \E s \in Sess, f \in Fids, nf \in Fids, ns \in WalkLists : G /\ Bound(s, f) /\ WalkOK(s, f, nf, ns) /\ Walk(s, f, nf, ns)
  \/ \E s \in Sess, f \in Fids, nm \in Names, d \in BOOLEAN : G /\ Bound(s, f) /\ CreateOK(s, f) /\ Create(s, f, nm, d)
  \/ \E s \in Sess, f \in Fids, o \in Offs, c \in {0, 1, 2, 9} : G /\ IsOpenFile(s, f) /\ Read(s, f, o, c)
  \/ \E s \in Sess, f \in Fids, o \in Offs, w \in {<<>>} \cup {<<b>> : b \in Bytes} \cup {<<b, c>> : b \in Bytes, c \in Bytes} :
        G /\ IsOpenFile(s, f) /\ Write(s, f, o, w)
  \/ \E s \in Sess, f \in Fids, l \in 0..MaxLen : G /\ Bound(s, f) /\ kind[tab[<<s, f>>].n] = "file" /\ Truncate(s, f, l)
Spec == Init /\ [][Next]_vars

\* ------------------------------------------------------------- properties
TypeOK == \A n \in Nodes : kind[n] \in {"dir", "file", "free"} /\ Len(data[n]) <= MaxLen
\* the tree stays a tree: every live non-root node has at most one parent link, files have no children
TreeShape == \A n \in Nodes \ {Root} : Cardinality({<<p, nm>> \in Nodes \X Names : child[p][nm] = n}) <= 1
FilesAreLeaves == \A n \in Nodes : kind[n] # "dir" => child[n] = NoKids
RootStays == kind[Root] = "dir"
\* handles only reference live nodes, and their chain consists of directories
HandlesLive == \A x \in SF : tab[x].n # 0 => (kind[tab[x].n] # "free" /\ \A i \in 1..Len(tab[x].chain) : kind[tab[x].chain[i]] = "dir")
\* ---- reachability goals (test generation, see ServeImpl): a walk two levels up and down into another branch
\* succeeds from a fid that stays bound
GoalUpUpDown == /\ last.op = "walk" /\ last.res = "ok" /\ Len(last.names) = 3 /\ last.names[2] = ".." /\ last.names[3] # ".."
                /\ last.nf # last.f /\ Len(tab[<<last.s, last.f>>].chain) >= 2
                /\ tab[<<last.s, last.nf>>].n # tab[<<last.s, last.f>>].chain[2]
NeverUpUpDown == ~GoalUpUpDown
=============================================================================
