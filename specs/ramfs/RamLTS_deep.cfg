CONSTANTS
  Sess = {1}
  Fids = {1, 2}
  Names = {"a", "b"}
  MaxNodes = 4
  MaxLen = 0
  Bytes = {120}
  Sample = 30
SPECIFICATION Spec
INVARIANTS TypeOK TreeShape FilesAreLeaves RootStays HandlesLive
VIEW View
ACTION_CONSTRAINT Emit
CHECK_DEADLOCK FALSE
