SPECIFICATION Spec
INVARIANTS MutualExclusion NoUseAfterRelease OpenAnswersOwnEntry
CONSTRAINT HighWater
POSTCONDITION Accepted
CHECK_DEADLOCK FALSE
