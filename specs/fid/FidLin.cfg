SPECIFICATION Spec
INVARIANT MutualExclusion
CONSTRAINT HighWater
POSTCONDITION Accepted
CHECK_DEADLOCK FALSE
