CONSTANTS
  Fids = {0, 1, 2}
  NOFID = 99
  MaxH = 4
  NameLists <- NL_full
  Modes = {0, 1, 2, 3, 17, 66}
  CreateNames = {"x", ".", ".."}
  WithFail = TRUE
SPECIFICATION Spec
INVARIANTS TypeOK HeldIsBound OneFidPerEntry UnboundIsBlank AfterStopNothingBound
PROPERTIES ReleaseExactlyOnce UsesOnlyHeld
VIEW View
ACTION_CONSTRAINT Emit
CHECK_DEADLOCK FALSE
