------------------------------ MODULE FidConc ------------------------------
(***************************************************************************)
(* The lock protocol of p9p's server session (sfilesys.go), step by step:  *)
(* the fid table is a concurrent map fid -> ref, every ref has a mutex and *)
(* an entry pointer (nil while reserved or after deletion).                *)
(*   getRef : lookup ; Lock ; re-check Ent (deleted meanwhile?)            *)
(*   newRef : LoadOrStore of a *locked* placeholder                        *)
(*   delRef : LoadAndDelete ; Lock ; act if Ent # nil                      *)
(*   walk   : getRef(fid) ; newRef(newfid) ; FS walk ; bind or roll back   *)
(* P processes (= handler goroutines of concurrently served requests) run  *)
(* one operation each.  FileSys calls are enter/exit pairs.                *)
(*                                                                         *)
(* C14: every operation returns (deadlock freedom), the file system never  *)
(* sees two overlapping calls on one entry, no ref is left locked, and the *)
(* results are those of some sequential order consistent with real time.   *)
(* Client discipline assumed (the property's parenthesis): a fid that one  *)
(* in-flight request allocates is not named by another in-flight request.  *)
(***************************************************************************)
EXTENDS Integers, Sequences, FiniteSets, TLC

CONSTANTS Procs,      \* process ids 1..P
          Fids,       \* fids
          InitBound,  \* fids bound before the concurrent phase
          OpSet,      \* candidate operations (records [k, f, nf, out])
          FixAttach,  \* TRUE: Attach unlocks afid on every path (D9 repaired)
          Literal,    \* TRUE: the property's literal client discipline (no fid is allocated by two requests at once);
                      \*       FALSE: additionally a fid being allocated is not named by any other in-flight request
          FixDel,     \* TRUE: clunk/remove look up and lock the fid like every other operation and unbind it
                      \*       under the lock; FALSE (pinned commit): LoadAndDelete first, Lock afterwards (D16)
          AtomicNewRef, \* TRUE (the code): newRef is one LoadOrStore; FALSE: Load, then Store (check-then-act)
          CreateNils  \* TRUE (the code): when Create has made a directory whose opening fails, the fid's ref gets
                      \*       Ent = nil before it is unlocked, so a request already queued on the lock sees
                      \*       "unknown fid"; FALSE: the line is missing (why-it-matters configuration)

VARIABLES refs,   \* fid -> ref id (0: absent)
          ref,    \* ref id -> [lk: owner process or 0, ent: entry id or 0, file: BOOLEAN]
          nref, nent,
          pr,     \* process -> [op, pc, r, r2, res]
          inFS,   \* entry id -> set of processes inside a FileSys call on it
          hist,   \* invocation / return events (for linearizability)
          overlap,\* ghost: two processes were inside FileSys calls on one entry
          dead,   \* ghost: entries released (clunk) or consumed (successful create)
          uar     \* ghost: a FileSys call was made on a dead entry
vars == <<refs, ref, nref, nent, pr, inFS, hist, overlap, dead, uar>>

MaxRef == Cardinality(Fids) + Cardinality(Procs) + 1
MaxEnt == Cardinality(Fids) + Cardinality(Procs) + 1
NoRef == [lk |-> 0, ent |-> 0, file |-> FALSE]

Op(k, f, nf, out) == [k |-> k, f |-> f, nf |-> nf, out |-> out]
Alloc(o) == CASE o.k \in {"clone", "walkfail"} -> {o.nf} [] o.k \in {"attach", "attachfail", "attachaf"} -> {o.f} [] OTHER -> {}
Uses(o) == IF o.k \in {"clone", "walkfail", "attachaf"} THEN {o.f, o.nf} ELSE {o.f}

\* assignments of one operation per process obeying the client discipline
\* client discipline: with FixDel the property's literal one (no fid is allocated by two requests at once);
\* for the pinned commit additionally "a fid being allocated is not named by another request"
Assignments == {a \in [Procs -> OpSet] :
                  \A p, q \in Procs : p # q => IF Literal THEN Alloc(a[p]) \cap Alloc(a[q]) = {}
                                                         ELSE Alloc(a[p]) \cap Uses(a[q]) = {}}

Init ==
  /\ \E a \in Assignments : pr = [p \in Procs |-> [op |-> a[p], pc |-> "start", r |-> 0, r2 |-> 0, e2 |-> 0, res |-> "?"]]
  /\ refs = [f \in Fids |-> IF f \in InitBound THEN 1 + Cardinality({g \in InitBound : g < f}) ELSE 0]
  /\ ref = [i \in 1..MaxRef |-> IF i <= Cardinality(InitBound) THEN [lk |-> 0, ent |-> i, file |-> FALSE] ELSE NoRef]
  /\ nref = Cardinality(InitBound) /\ nent = Cardinality(InitBound)
  /\ inFS = [e \in 1..MaxEnt |-> {}]
  /\ hist = <<>> /\ overlap = FALSE /\ dead = {} /\ uar = FALSE

Set(p, pc) == pr' = [pr EXCEPT ![p].pc = pc]
Done(p, res) == /\ pr' = [pr EXCEPT ![p].pc = "done", ![p].res = res]
                /\ hist' = Append(hist, [e |-> "ret", p |-> p, res |-> res])

\* ---------------------------------------------------------------- steps
Start(p) ==
  /\ pr[p].pc = "start"
  /\ hist' = Append(hist, [e |-> "inv", p |-> p, res |-> ""])
  /\ LET o == pr[p].op IN
     Set(p, CASE o.k \in {"stat", "clone", "walkfail", "createdir", "createdirfail", "createfail"} -> "lookup"
              [] o.k \in {"clunk"} -> IF FixDel THEN "lookup" ELSE "del"
              [] o.k = "attachaf" -> "aflookup"
              [] OTHER -> "newref")
  /\ UNCHANGED <<refs, ref, nref, nent, inFS, overlap, dead, uar>>

\* getRef step 1: table lookup
Lookup(p) ==
  /\ pr[p].pc \in {"lookup", "aflookup"}
  /\ LET f == IF pr[p].pc = "aflookup" THEN pr[p].op.nf ELSE pr[p].op.f
         r == refs[f] IN
     IF r = 0 THEN Done(p, "unknownfid") /\ UNCHANGED <<refs, ref, nref, nent, inFS, overlap, dead, uar>>
     ELSE /\ pr' = [pr EXCEPT ![p].r = r, ![p].pc = IF pr[p].pc = "aflookup" THEN "aflock" ELSE "lock"]
          /\ UNCHANGED <<refs, ref, nref, nent, inFS, hist, overlap, dead, uar>>

\* getRef step 2+3: Lock (blocks while held), then the Ent re-check
Lock(p) ==
  /\ pr[p].pc \in {"lock", "aflock"}
  /\ LET r == pr[p].r IN
     /\ ref[r].lk = 0
     /\ IF ref[r].ent = 0
          THEN \* deleted (or still reserved) -> unlock, unknown fid
               /\ Done(p, "unknownfid") /\ UNCHANGED <<refs, ref, nref, nent, inFS, overlap, dead, uar>>
          ELSE /\ ref' = [ref EXCEPT ![r].lk = p]
               /\ Set(p, CASE pr[p].pc = "aflock" -> "afcheck"
                           [] pr[p].op.k \in {"stat", "clunk", "createdir", "createdirfail", "createfail"} -> "fsenter"
                           [] OTHER -> "newref")
               /\ UNCHANGED <<refs, nref, nent, inFS, hist, overlap, dead, uar>>

\* Attach with an afid: the fid named as afid is an ordinary fid without an auth file -> refused.
\* At the pinned commit this path returned without unlocking (FixAttach = FALSE).
AfCheck(p) ==
  /\ pr[p].pc = "afcheck"
  /\ ref' = IF FixAttach THEN [ref EXCEPT ![pr[p].r].lk = 0] ELSE ref
  /\ Done(p, "unknownfid")
  /\ UNCHANGED <<refs, nref, nent, inFS, overlap, dead, uar>>

\* newRef: LoadOrStore of a locked placeholder
NewRef(p) ==
  /\ pr[p].pc \in {"newref", "newref2"}
  /\ LET o == pr[p].op
         target == IF o.k \in {"clone", "walkfail"} THEN o.nf ELSE o.f IN
     IF pr[p].pc = "newref" /\ refs[target] = 0 /\ ~AtomicNewRef
       THEN \* check-then-act variant: the Load found nothing; the Store follows as a separate step
            /\ Set(p, "newref2") /\ UNCHANGED <<refs, ref, nref, nent, inFS, hist, overlap, dead, uar>>
     ELSE IF pr[p].pc = "newref" /\ refs[target] # 0
       THEN /\ ref' = IF pr[p].r # 0 THEN [ref EXCEPT ![pr[p].r].lk = 0] ELSE ref   \* deferred unlock of the source
            /\ Done(p, "dupfid") /\ UNCHANGED <<refs, nref, nent, inFS, overlap, dead, uar>>
       ELSE LET n == nref + 1 IN
            /\ n <= MaxRef
            /\ nref' = n
            /\ refs' = [refs EXCEPT ![target] = n]
            /\ ref' = [ref EXCEPT ![n] = [lk |-> p, ent |-> 0, file |-> FALSE]]
            /\ pr' = [pr EXCEPT ![p].r2 = n, ![p].pc = "fsenter"]
            /\ UNCHANGED <<nent, inFS, hist, overlap, dead, uar>>

\* delRef: LoadAndDelete, then Lock, then act
Del(p) ==
  /\ pr[p].pc = "del"
  /\ LET f == pr[p].op.f
         r == refs[f] IN
     IF r = 0 THEN Done(p, "unknownfid") /\ UNCHANGED <<refs, ref, nref, nent, inFS, overlap, dead, uar>>
     ELSE /\ refs' = [refs EXCEPT ![f] = 0]
          /\ pr' = [pr EXCEPT ![p].r = r, ![p].pc = "dellock"]
          /\ UNCHANGED <<ref, nref, nent, inFS, hist, overlap, dead, uar>>
DelLock(p) ==
  /\ pr[p].pc = "dellock"
  /\ LET r == pr[p].r IN
     /\ ref[r].lk = 0
     /\ IF ref[r].ent = 0 THEN Done(p, "") /\ UNCHANGED <<refs, ref, nref, nent, inFS, overlap, dead, uar>>
        ELSE /\ ref' = [ref EXCEPT ![r].lk = p]
             /\ Set(p, "fsenter")
             /\ UNCHANGED <<refs, nref, nent, inFS, hist, overlap, dead, uar>>

\* the entry a FileSys call of p works on (0: the FileSys itself, as in attach)
EntOf(p) == IF pr[p].op.k \in {"attach", "attachfail"} THEN 0
            ELSE IF pr[p].e2 # 0 THEN pr[p].e2 ELSE ref[pr[p].r].ent

FSEnter(p) ==
  /\ pr[p].pc = "fsenter"
  /\ LET e == EntOf(p) IN
     /\ inFS' = IF e = 0 THEN inFS ELSE [inFS EXCEPT ![e] = @ \cup {p}]
     /\ overlap' = (overlap \/ (e # 0 /\ inFS[e] # {}))
     /\ uar' = (uar \/ e \in dead)
  /\ Set(p, "fsexit")
  /\ UNCHANGED <<refs, ref, nref, nent, hist, dead>>

FSExit(p) ==
  /\ pr[p].pc = "fsexit"
  /\ LET o == pr[p].op
         e == EntOf(p)
         r == pr[p].r
         r2 == pr[p].r2 IN
     /\ inFS' = IF e = 0 THEN inFS ELSE [inFS EXCEPT ![e] = @ \ {p}]
     /\ CASE o.k = "stat" ->
               /\ ref' = [ref EXCEPT ![r].lk = 0] /\ Done(p, "") /\ UNCHANGED <<refs, nent, dead>>
          [] o.k = "clunk" ->
               /\ ref' = [ref EXCEPT ![r] = [lk |-> 0, ent |-> 0, file |-> FALSE]] /\ Done(p, "")
               /\ refs' = IF FixDel /\ refs[o.f] = r THEN [refs EXCEPT ![o.f] = 0] ELSE refs
               /\ dead' = dead \cup {e}
               /\ UNCHANGED nent
          [] o.k = "createfail" ->
               /\ ref' = [ref EXCEPT ![r].lk = 0] /\ Done(p, "fs") /\ UNCHANGED <<refs, nent, dead>>
          [] o.k \in {"createdir", "createdirfail"} /\ pr[p].e2 = 0 ->
               \* Dirent.Create succeeded: the directory entry is consumed, a new entry exists; the
               \* session now opens the new directory itself (second FileSys call, on the new entry)
               /\ nent' = nent + 1
               /\ dead' = dead \cup {e}
               /\ pr' = [pr EXCEPT ![p].e2 = nent + 1, ![p].pc = "fsenter"]
               /\ UNCHANGED <<refs, ref, hist>>
          [] o.k = "createdir" /\ pr[p].e2 # 0 ->
               /\ ref' = [ref EXCEPT ![r] = [lk |-> 0, ent |-> pr[p].e2, file |-> TRUE]]
               /\ Done(p, "") /\ UNCHANGED <<refs, nent, dead>>
          [] o.k = "createdirfail" /\ pr[p].e2 # 0 /\ pr[p].pc = "fsexit" ->
               \* OpenDir failed: unbind the fid; the new entry is clunked next
               /\ refs' = IF refs[o.f] = r THEN [refs EXCEPT ![o.f] = 0] ELSE refs
               /\ pr' = [pr EXCEPT ![p].pc = "cdfclunk"]
               /\ UNCHANGED <<ref, nent, hist, dead>>
          [] o.k = "clone" ->       \* bind the reserved fid, unlock both
               /\ nent' = nent + 1
               /\ ref' = [ref EXCEPT ![r].lk = 0, ![r2] = [lk |-> 0, ent |-> nent + 1, file |-> FALSE]]
               /\ Done(p, "") /\ UNCHANGED <<refs, dead>>
          [] o.k = "walkfail" ->    \* roll back the reservation
               /\ refs' = [refs EXCEPT ![o.nf] = 0]
               /\ ref' = [ref EXCEPT ![r].lk = 0, ![r2].lk = 0]
               /\ Done(p, "fs") /\ UNCHANGED <<nent, dead>>
          [] o.k = "attach" ->
               /\ nent' = nent + 1
               /\ ref' = [ref EXCEPT ![r2] = [lk |-> 0, ent |-> nent + 1, file |-> FALSE]]
               /\ Done(p, "") /\ UNCHANGED <<refs, dead>>
          [] o.k = "attachfail" ->
               /\ refs' = [refs EXCEPT ![o.f] = 0]
               /\ ref' = [ref EXCEPT ![r2].lk = 0]
               /\ Done(p, "fs") /\ UNCHANGED <<nent, dead>>
  /\ UNCHANGED <<nref, overlap, uar>>

\* Create's clean-up after a failed OpenDir of the new directory: clunk the new entry (enter, exit),
\* set the fid's Ent to nil (CreateNils), unlock, report the error
CdfClunkEnter(p) ==
  /\ pr[p].pc = "cdfclunk"
  /\ LET e == pr[p].e2 IN
     /\ inFS' = [inFS EXCEPT ![e] = @ \cup {p}]
     /\ overlap' = (overlap \/ inFS[e] # {})
     /\ uar' = (uar \/ e \in dead)
  /\ Set(p, "cdfexit")
  /\ UNCHANGED <<refs, ref, nref, nent, hist, dead>>
CdfClunkExit(p) ==
  /\ pr[p].pc = "cdfexit"
  /\ LET e == pr[p].e2
         r == pr[p].r IN
     /\ inFS' = [inFS EXCEPT ![e] = @ \ {p}]
     /\ dead' = dead \cup {e}
     /\ ref' = [ref EXCEPT ![r] = [lk |-> 0, ent |-> IF CreateNils THEN 0 ELSE @.ent, file |-> FALSE]]
  /\ Done(p, "fs")
  /\ UNCHANGED <<refs, nref, nent, overlap, uar>>

Step(p) == Start(p) \/ Lookup(p) \/ Lock(p) \/ AfCheck(p) \/ NewRef(p) \/ Del(p) \/ DelLock(p) \/ FSEnter(p) \/ FSExit(p) \/ CdfClunkEnter(p) \/ CdfClunkExit(p)
AllDone == \A p \in Procs : pr[p].pc = "done"
Next == (\E p \in Procs : Step(p)) \/ (AllDone /\ UNCHANGED vars)
Spec == Init /\ [][Next]_vars /\ WF_vars(\E p \in Procs : Step(p))

\* ------------------------------------------------------------- properties
\* the file system never sees two overlapping calls on one entry
MutualExclusion == ~overlap /\ \A e \in 1..MaxEnt : Cardinality(inFS[e]) <= 1
\* the file system never sees a call on an entry the session has released or that a create consumed
NoUseAfterRelease == ~uar
\* C13 under concurrency: when all operations have returned, every entry the file system handed out and that was
\* not released is bound to a fid in the table (nothing is orphaned, so clunk / Stop can still release it)
NoOrphanEntry == AllDone => \A e \in 1..nent : e \notin dead => \E f \in Fids : refs[f] # 0 /\ ref[refs[f]].ent = e
\* deadlock freedom: some process can move unless all are done (TLC deadlock check is off because of the final stutter)
NoDeadlock == AllDone \/ ENABLED (\E p \in Procs : Step(p))
\* after the operations returned no ref reachable from the table is locked
NoLockLeft == AllDone => \A f \in Fids : refs[f] # 0 => ref[refs[f]].lk = 0
\* a process that has returned holds no lock
ReturnedHoldNothing == \A p \in Procs : pr[p].pc = "done" => \A i \in 1..MaxRef : ref[i].lk # p
EveryOpReturns == <>AllDone

\* ---- linearizability against the sequential fid table (bound set suffices for these operations)
SeqApply(b, o) ==
  CASE o.k = "stat"  -> IF o.f \in b THEN [b |-> b, res |-> ""] ELSE [b |-> b, res |-> "unknownfid"]
    [] o.k = "clunk" -> IF o.f \in b THEN [b |-> b \ {o.f}, res |-> ""] ELSE [b |-> b, res |-> "unknownfid"]
    [] o.k \in {"clone", "walkfail"} ->
         IF o.f \notin b THEN [b |-> b, res |-> "unknownfid"]
         ELSE IF o.nf \in b THEN [b |-> b, res |-> "dupfid"]
         ELSE IF o.k = "clone" THEN [b |-> b \cup {o.nf}, res |-> ""] ELSE [b |-> b, res |-> "fs"]
    [] o.k \in {"attach", "attachfail"} ->
         IF o.f \in b THEN [b |-> b, res |-> "dupfid"]
         ELSE IF o.k = "attach" THEN [b |-> b \cup {o.f}, res |-> ""] ELSE [b |-> b, res |-> "fs"]
    [] o.k = "attachaf" -> [b |-> b, res |-> "unknownfid"]
    [] o.k = "createdir" -> IF o.f \in b THEN [b |-> b, res |-> ""] ELSE [b |-> b, res |-> "unknownfid"]
    [] o.k = "createfail" -> IF o.f \in b THEN [b |-> b, res |-> "fs"] ELSE [b |-> b, res |-> "unknownfid"]
    [] o.k = "createdirfail" -> IF o.f \in b THEN [b |-> b \ {o.f}, res |-> "fs"] ELSE [b |-> b, res |-> "unknownfid"]

Pos(e, p) == CHOOSE i \in 1..Len(hist) : hist[i].e = e /\ hist[i].p = p
Before(p, q) == Pos("ret", p) < Pos("inv", q)      \* real-time order
RECURSIVE Replay(_, _)
Replay(b, s) == IF s = <<>> THEN TRUE
                ELSE LET a == SeqApply(b, pr[Head(s)].op) IN
                     a.res = pr[Head(s)].res /\ Replay(a.b, Tail(s))
Orders == {s \in [1..Cardinality(Procs) -> Procs] : \A i, j \in DOMAIN s : i # j => s[i] # s[j]}
Linearizable ==
  AllDone => \E s \in Orders :
               /\ \A i, j \in DOMAIN s : Before(s[j], s[i]) => j < i
               /\ Replay(InitBound, s)
\* without any client discipline (several requests may allocate the same new fid at once): newRef being one
\* atomic LoadOrStore keeps every property; see FidConc_nodisc.cfg / FidConc_nonatomic.cfg
AnyAssignments == [Procs -> OpSet]
OpsSameFid == { Op("attach", 2, 0, ""), Op("attachfail", 2, 0, ""), Op("clone", 0, 2, ""), Op("clone", 1, 2, ""), Op("walkfail", 0, 2, ""),
                Op("stat", 2, 0, ""), Op("clunk", 2, 0, "") }
\* ---- operation sets for the configs
OpsSmall == { Op("stat", 0, 0, ""), Op("clunk", 0, 0, ""), Op("clone", 0, 2, ""), Op("walkfail", 0, 2, ""),
              Op("attach", 2, 0, ""), Op("attachfail", 3, 0, ""), Op("attachaf", 3, 0, ""), Op("stat", 2, 0, ""),
              Op("clunk", 1, 0, ""), Op("clone", 1, 3, ""), Op("clone", 0, 1, ""), Op("clunk", 2, 0, ""),
              Op("createdir", 0, 0, ""), Op("createdirfail", 0, 0, ""), Op("createfail", 0, 0, ""), Op("createdirfail", 1, 0, "") }
\* the create clean-up path against every kind of request queued on the same fid
OpsCreate == { Op("createdirfail", 0, 0, ""), Op("createdir", 0, 0, ""), Op("stat", 0, 0, ""), Op("clunk", 0, 0, ""),
               Op("clone", 0, 2, ""), Op("attach", 0, 0, ""), Op("createfail", 0, 0, "") }
=============================================================================
