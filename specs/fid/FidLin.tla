------------------------------- MODULE FidLin -------------------------------
(***************************************************************************)
(* Trace validation for C14: concurrent histories recorded from the real   *)
(* p9p.SFileSys (invoke / return of session calls, enter / exit of         *)
(* FileSys calls, each with a global sequence number) are checked for      *)
(*   - mutual exclusion of FileSys calls per entry (invariant; Dirent.Qid   *)
(*     counts as a call on the entry),                                     *)
(*   - no FileSys call on an entry after its release (clunk / remove) or   *)
(*     after a successful create consumed it (invariant),                  *)
(*   - a successful open answers with the qid of the entry it opened, and  *)
(*   - linearizability against the sequential fid table: TLC searches for  *)
(*     linearization points (silent Lin steps between invoke and return)   *)
(*     such that every recorded result is the sequential one.              *)
(* A trace file holds many histories separated by "reset" events.  TLC     *)
(* records the highest trace position any behaviour reached; the file is   *)
(* accepted iff that is its end.                                           *)
(***************************************************************************)
EXTENDS Integers, Sequences, FiniteSets, TLC, Json, IOUtils

Fids == 0..7
Procs == 0..5
Tr == ndJsonDeserialize(IOEnv.TRACE)

VARIABLES l, tab, pend, infs, dead, uar, badq
vars == <<l, tab, pend, infs, dead, uar, badq>>

\* b: bound, o: open, d: denotes a directory
Blank == [b |-> FALSE, o |-> FALSE, d |-> FALSE]
Idle == [active |-> FALSE, lin |-> FALSE, k |-> "", f |-> 0, nf |-> 0, out |-> "", res |-> "", oh |-> 0]

Init == /\ l = 1 /\ tab = [f \in Fids |-> Blank] /\ pend = [p \in Procs |-> Idle] /\ infs = {}
        /\ dead = {} /\ uar = {} /\ badq = FALSE

R(t, res) == [t |-> t, res |-> res]
\* the sequential fid table (C08) restricted to what these histories use
SeqApply(t, q) ==
  LET f == q.f  nf == q.nf IN
  CASE q.k \in {"stat", "wstat"} -> IF t[f].b THEN R(t, IF q.out = "fail" THEN "fs" ELSE "") ELSE R(t, "unknownfid")
    [] q.k \in {"clunk", "remove"} -> IF t[f].b THEN R([t EXCEPT ![f] = Blank], IF q.out = "fail" THEN "fs" ELSE "") ELSE R(t, "unknownfid")
    [] q.k = "walk" ->
         IF ~t[f].b THEN R(t, "unknownfid")
         ELSE IF nf # f /\ t[nf].b THEN R(t, "dupfid")
         ELSE IF nf = f THEN R(t, "")                      \* no names, same fid: a no-op
         ELSE IF q.out # "clone" /\ ~t[f].d THEN R(t, "notdir")
         ELSE IF q.out = "fail" THEN R(t, "fs")
         ELSE R([t EXCEPT ![nf] = [b |-> TRUE, o |-> FALSE, d |-> IF q.out = "clone" THEN t[f].d ELSE q.out # "file"]], "")   \* (out "file": the name found is a plain file)
    [] q.k = "walkin" ->   \* one name, in place: the fid moves to the entry found (its open state is not touched)
         IF ~t[f].b THEN R(t, "unknownfid")
         ELSE IF ~t[f].d THEN R(t, "notdir")
         ELSE IF q.out = "fail" THEN R(t, "fs")
         ELSE R([t EXCEPT ![f].d = TRUE], "")
    [] q.k = "create" ->   \* out: ok (plain file) / dir / dirfail (directory made, its opening fails) / fail
         IF ~t[f].b THEN R(t, "unknownfid")
         ELSE IF ~t[f].d THEN R(t, "createnondir")
         ELSE IF q.out = "fail" THEN R(t, "fs")
         ELSE IF q.out = "dirfail" THEN R([t EXCEPT ![f] = Blank], "fs")
         ELSE R([t EXCEPT ![f] = [b |-> TRUE, o |-> TRUE, d |-> q.out = "dir"]], "")
    [] q.k \in {"open", "openr"} ->
         IF ~t[f].b THEN R(t, "unknownfid")
         ELSE IF t[f].o THEN R(t, "alreadyopen")
         ELSE IF q.out = "fail" THEN R(t, "fs")
         ELSE R([t EXCEPT ![f].o = TRUE], "")
    [] q.k = "read" ->
         IF ~t[f].b THEN R(t, "unknownfid")
         ELSE IF ~t[f].o THEN R(t, "notopen") ELSE R(t, "")
    [] q.k = "attach" ->
         IF t[f].b THEN R(t, "dupfid")
         ELSE IF q.out = "fail" THEN R(t, "fs")
         ELSE R([t EXCEPT ![f] = [b |-> TRUE, o |-> FALSE, d |-> TRUE]], "")
    [] OTHER -> R(t, "unsupported")

Consume ==
  /\ l <= Len(Tr)
  /\ l' = l + 1
  /\ LET e == Tr[l] IN
     CASE e.e = "inv" ->
            /\ ~pend[e.p].active
            /\ pend' = [pend EXCEPT ![e.p] = [active |-> TRUE, lin |-> FALSE, k |-> e.k, f |-> e.f, nf |-> e.nf, out |-> e.out, res |-> "", oh |-> 0]]
            /\ UNCHANGED <<tab, infs, dead, uar, badq>>
       [] e.e = "ret" ->
            /\ pend[e.p].active /\ pend[e.p].lin /\ pend[e.p].res = e.res
            /\ badq' = (badq \/ (e.k \in {"open", "openr"} /\ e.res = "" /\ e.q # pend[e.p].oh))
            /\ pend' = [pend EXCEPT ![e.p] = Idle]
            /\ UNCHANGED <<tab, infs, dead, uar>>
       [] e.e = "fse" ->
            /\ infs' = infs \cup {<<e.h, e.p>>}
            /\ uar' = IF e.h \in dead THEN uar \cup {<<e.h, e.k>>} ELSE uar
            /\ pend' = IF e.p \in Procs /\ e.k \in {"open", "opendir"} /\ pend[e.p].k \in {"open", "openr"}
                          THEN [pend EXCEPT ![e.p].oh = e.h] ELSE pend
            /\ UNCHANGED <<tab, dead, badq>>
       [] e.e = "fsx" ->
            /\ infs' = infs \ {<<e.h, e.p>>}
            \* a clunk or remove releases the entry whatever it reports; a successful create consumes the directory entry
            /\ dead' = IF e.k \in {"clunk", "remove"} \/ (e.k = "create" /\ e.out = "ok") THEN dead \cup {e.h} ELSE dead
            /\ UNCHANGED <<tab, pend, uar, badq>>
       [] e.e = "reset" ->
            /\ tab' = [f \in Fids |-> Blank] /\ pend' = [p \in Procs |-> Idle] /\ infs' = {}
            /\ dead' = {} /\ uar' = {} /\ badq' = FALSE
       [] OTHER -> UNCHANGED <<tab, pend, infs, dead, uar, badq>>

\* linearization point of the pending operation of process p
Lin(p) ==
  /\ pend[p].active /\ ~pend[p].lin
  /\ LET a == SeqApply(tab, pend[p]) IN
     /\ tab' = a.t
     /\ pend' = [pend EXCEPT ![p].lin = TRUE, ![p].res = a.res]
  /\ UNCHANGED <<l, infs, dead, uar, badq>>

Next == Consume \/ \E p \in Procs : Lin(p)
Spec == Init /\ [][Next]_vars

\* C14: the file system never sees two overlapping calls on one entry
MutualExclusion == \A x, y \in infs : x[1] = y[1] => x = y

\* C13/C14: no call on an entry after its release / consumption
NoUseAfterRelease == uar = {}
\* a successful open answers with the qid of the entry it opened
OpenAnswersOwnEntry == ~badq

\* high-water mark of the trace position (needs -workers 1)
HighWater == TLCSet(1, IF l > TLCGet(1) THEN l ELSE TLCGet(1))
ASSUME TLCSet(1, 0)
Accepted == IF TLCGet(1) = Len(Tr) + 1 THEN TRUE ELSE PrintT(<<"REJECTED-AT", TLCGet(1)>>) /\ FALSE
=============================================================================
