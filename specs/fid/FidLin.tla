------------------------------- MODULE FidLin -------------------------------
(***************************************************************************)
(* Trace validation for C14: concurrent histories recorded from the real   *)
(* p9p.SFileSys (invoke / return of session calls, enter / exit of         *)
(* FileSys calls, each with a global sequence number) are checked for      *)
(*   - mutual exclusion of FileSys calls per entry (invariant), and        *)
(*   - linearizability against the sequential fid table: TLC searches for  *)
(*     linearization points (silent Lin steps between invoke and return)   *)
(*     such that every recorded result is the sequential one.              *)
(* A trace file holds many histories separated by "reset" events.  TLC     *)
(* records the highest trace position any behaviour reached; the file is   *)
(* accepted iff that is its end.                                           *)
(***************************************************************************)
EXTENDS Integers, Sequences, FiniteSets, TLC, Json, IOUtils

Fids == 0..7
Procs == 0..5
Tr == ndJsonDeserialize(IOEnv.TRACE)

VARIABLES l, tab, pend, infs
vars == <<l, tab, pend, infs>>

Blank == [b |-> FALSE, o |-> FALSE]
Idle == [active |-> FALSE, lin |-> FALSE, k |-> "", f |-> 0, nf |-> 0, out |-> "", res |-> ""]

Init == /\ l = 1 /\ tab = [f \in Fids |-> Blank] /\ pend = [p \in Procs |-> Idle] /\ infs = {}

R(t, res) == [t |-> t, res |-> res]
\* the sequential fid table (C08) restricted to what these histories use
SeqApply(t, q) ==
  LET f == q.f  nf == q.nf IN
  CASE q.k \in {"stat", "wstat"} -> IF t[f].b THEN R(t, IF q.out = "fail" THEN "fs" ELSE "") ELSE R(t, "unknownfid")
    [] q.k \in {"clunk", "remove"} -> IF t[f].b THEN R([t EXCEPT ![f] = Blank], IF q.out = "fail" THEN "fs" ELSE "") ELSE R(t, "unknownfid")
    [] q.k = "walk" ->
         IF ~t[f].b THEN R(t, "unknownfid")
         ELSE IF nf # f /\ t[nf].b THEN R(t, "dupfid")
         ELSE IF q.out = "fail" THEN R(t, "fs")
         ELSE R([t EXCEPT ![nf] = [b |-> TRUE, o |-> IF nf = f THEN t[f].o ELSE FALSE]], "")
    [] q.k = "open" ->
         IF ~t[f].b THEN R(t, "unknownfid")
         ELSE IF t[f].o THEN R(t, "alreadyopen")
         ELSE IF q.out = "fail" THEN R(t, "fs")
         ELSE R([t EXCEPT ![f].o = TRUE], "")
    [] q.k = "read" ->
         IF ~t[f].b THEN R(t, "unknownfid")
         ELSE IF ~t[f].o THEN R(t, "notopen") ELSE R(t, "")
    [] q.k = "attach" ->
         IF t[f].b THEN R(t, "dupfid")
         ELSE IF q.out = "fail" THEN R(t, "fs")
         ELSE R([t EXCEPT ![f] = [b |-> TRUE, o |-> FALSE]], "")
    [] OTHER -> R(t, "unsupported")

Consume ==
  /\ l <= Len(Tr)
  /\ l' = l + 1
  /\ LET e == Tr[l] IN
     CASE e.e = "inv" ->
            /\ ~pend[e.p].active
            /\ pend' = [pend EXCEPT ![e.p] = [active |-> TRUE, lin |-> FALSE, k |-> e.k, f |-> e.f, nf |-> e.nf, out |-> e.out, res |-> ""]]
            /\ UNCHANGED <<tab, infs>>
       [] e.e = "ret" ->
            /\ pend[e.p].active /\ pend[e.p].lin /\ pend[e.p].res = e.res
            /\ pend' = [pend EXCEPT ![e.p] = Idle]
            /\ UNCHANGED <<tab, infs>>
       [] e.e = "fse" -> infs' = infs \cup {<<e.h, e.p>>} /\ UNCHANGED <<tab, pend>>
       [] e.e = "fsx" -> infs' = infs \ {<<e.h, e.p>>} /\ UNCHANGED <<tab, pend>>
       [] e.e = "reset" ->
            /\ tab' = [f \in Fids |-> Blank] /\ pend' = [p \in Procs |-> Idle] /\ infs' = {}
       [] OTHER -> UNCHANGED <<tab, pend, infs>>

\* linearization point of the pending operation of process p
Lin(p) ==
  /\ pend[p].active /\ ~pend[p].lin
  /\ LET a == SeqApply(tab, pend[p]) IN
     /\ tab' = a.t
     /\ pend' = [pend EXCEPT ![p].lin = TRUE, ![p].res = a.res]
  /\ UNCHANGED <<l, infs>>

Next == Consume \/ \E p \in Procs : Lin(p)
Spec == Init /\ [][Next]_vars

\* C14: the file system never sees two overlapping calls on one entry
MutualExclusion == \A x, y \in infs : x[1] = y[1] => x = y

\* high-water mark of the trace position (needs -workers 1)
HighWater == TLCSet(1, IF l > TLCGet(1) THEN l ELSE TLCGet(1))
ASSUME TLCSet(1, 0)
Accepted == IF TLCGet(1) = Len(Tr) + 1 THEN TRUE ELSE PrintT(<<"REJECTED-AT", TLCGet(1)>>) /\ FALSE
=============================================================================
