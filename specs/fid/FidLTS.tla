------------------------------- MODULE FidLTS -------------------------------
(* Emits the labelled transition system of FidTable as one JSON line per     *)
(* generated transition: [view, label, view'].  Used as ACTION_CONSTRAINT so *)
(* TLC evaluates it for every transition, also those into known states.      *)
EXTENDS FidTable, Json
Emit == PrintT(ToJson(<<View, last', View'>>))
\* sampled emission for large instances: every state-changing transition, one in Sample of the others
CONSTANTS Sample, SampleChange
EmitSampled == (View' = View /\ RandomElement(1..Sample) # 1) \/ (View' # View /\ RandomElement(1..SampleChange) # 1) \/ Emit
=============================================================================
