------------------------------ MODULE FidTable ------------------------------
(***************************************************************************)
(* Reference model of the server-side fid table of go-p9p (sfilesys.go),   *)
(* written from the property texts C08 / C13 and intro(5)/walk(5)/open(5): *)
(* a sequential machine whose operations are the Session calls, with the   *)
(* behaviour of the underlying FileSys (found / partial / error ...) as    *)
(* action parameters.  Every action records in `last` the operation, the   *)
(* FileSys calls the session is expected to make (on which entry handle,   *)
(* with which scripted outcome) and the expected result class; `last` is   *)
(* output only and hidden from the VIEW.                                   *)
(*                                                                         *)
(* Entry handles are drawn from a finite pool and recycled after release;  *)
(* the conformance harness maps a (re)allocated handle id to a fresh real  *)
(* Dirent object, so "released exactly once / never used after release"    *)
(* is checked on real objects while the model stays finite.                *)
(***************************************************************************)
EXTENDS Integers, Sequences, FiniteSets, TLC

CONSTANTS Fids,        \* fid numbers used by the client, e.g. {0,1,2}
          NOFID,       \* the reserved no-fid value (any value not in Fids)
          MaxH,        \* size of the handle pool (> Cardinality(Fids))
          NameLists,   \* name lists used in walks (sequences of strings)
          Modes,       \* open modes (integers; m % 4 is the access class)
          CreateNames, \* names used in create
          WithFail     \* TRUE: every FileSys call may also fail

VARIABLES tab,      \* fid -> [h, dir, open, mode]; h = 0: unbound
          live,     \* handles currently held by the session
          stopped,  \* Stop has run
          last      \* output only: what happened in the last step

vars == <<tab, live, stopped, last>>
View == <<tab, live, stopped>>

AllFids == Fids \cup {NOFID}
Unbound == [h |-> 0, dir |-> FALSE, open |-> FALSE, mode |-> 0]
Bound(f) == f \in Fids /\ tab[f].h # 0

\* ---- name validation (9P walk elements; see PathRes for the full helper spec)
BadElem(s) == s = "" \/ s = "." \/ s = "a/b" \/ s = "a\\b"
ValidNames(ns) ==
    /\ \A i \in 1..Len(ns) : ~BadElem(ns[i])
    /\ \A i \in 1..Len(ns) : ns[i] = ".." => \A j \in 1..i : ns[j] = ".."

NewH(lv) == CHOOSE h \in 1..MaxH : h \notin lv /\ \A g \in 1..MaxH : g \notin lv => h <= g

CanRead(m)  == (m % 4) # 1
CanWrite(m) == (m % 4) \in {1, 2}

FailSet == IF WithFail THEN {"fail"} ELSE {}
\* "failboth": the file system reports an error AND hands back a result (entry, file); the result is void:
\* the session must behave exactly as for a plain failure and neither keep, use nor release it
FailSetB == IF WithFail THEN {"fail", "failboth"} ELSE {}

\* one expected FileSys call: on handle h, kind call, scripted outcome out;
\* nh: handle id of the entry the call hands out (0: none), k: qids returned, dir: kind of new entry
FS(call, h, out, nh, k, dir) == [call |-> call, h |-> h, out |-> out, nh |-> nh, k |-> k, dir |-> dir]
NoArgs == [f |-> NOFID, nf |-> NOFID, af |-> NOFID, names |-> <<>>, name |-> "", mode |-> 0]
Rec(op, args, fs, err, nq) == [op |-> op, a |-> args, fs |-> fs, err |-> err, nq |-> nq]

Init == /\ tab = [f \in Fids |-> Unbound]
        /\ live = {}
        /\ stopped = FALSE
        /\ last = Rec("init", NoArgs, <<>>, "", 0)

Same == UNCHANGED <<tab, live, stopped>>

\* ------------------------------------------------------------------ attach
Attach(f, af) ==
  LET a == [NoArgs EXCEPT !.f = f, !.af = af] IN
  \/ /\ af # NOFID            \* no auth file can exist in these sessions: always refused
     /\ Same
     /\ last' = Rec("attach", a, <<>>, IF Bound(af) /\ tab[af].open THEN "unknownfid" ELSE "unknownfid", 0)
  \/ /\ af = NOFID /\ f = NOFID /\ Same
     /\ last' = Rec("attach", a, <<>>, "unknownfid", 0)
  \/ /\ af = NOFID /\ Bound(f) /\ Same
     /\ last' = Rec("attach", a, <<>>, "dupfid", 0)
  \/ /\ af = NOFID /\ f \in Fids /\ ~Bound(f)
     /\ \E out \in {"ok"} \cup FailSetB, d \in BOOLEAN :
          IF out = "ok" THEN
             LET h == NewH(live) IN
             /\ tab' = [tab EXCEPT ![f] = [h |-> h, dir |-> d, open |-> FALSE, mode |-> 0]]
             /\ live' = live \cup {h}
             /\ UNCHANGED stopped
             /\ last' = Rec("attach", a, <<FS("attach", 0, "ok", h, 0, d)>>, "", 0)
          ELSE
             /\ d = FALSE /\ Same
             /\ last' = Rec("attach", a, <<FS("attach", 0, out, 0, 0, FALSE)>>, "fs", 0)

\* -------------------------------------------------------------------- walk
Walk(f, nf, ns) ==
  LET a == [NoArgs EXCEPT !.f = f, !.nf = nf, !.names = ns]
      n == Len(ns) IN
  IF ~ValidNames(ns) THEN Same /\ last' = Rec("walk", a, <<>>, "badpath", 0)
  ELSE IF ~Bound(f) THEN Same /\ last' = Rec("walk", a, <<>>, "unknownfid", 0)
  ELSE IF nf # f /\ nf = NOFID THEN Same /\ last' = Rec("walk", a, <<>>, "unknownfid", 0)
  ELSE IF nf # f /\ Bound(nf) THEN Same /\ last' = Rec("walk", a, <<>>, "dupfid", 0)
  ELSE IF n = 0 /\ nf = f THEN Same /\ last' = Rec("walk", a, <<>>, "", 0)
  ELSE IF n > 0 /\ ~tab[f].dir THEN Same /\ last' = Rec("walk", a, <<>>, "notdir", 0)
  ELSE
    LET src == tab[f].h IN
    \/ \* complete walk (clone when n = 0)
       \E d \in (IF n = 0 THEN {tab[f].dir} ELSE BOOLEAN) :
         LET h == NewH(live) IN
         IF nf = f THEN
           \* in place: the fid moves; the old entry is released (clunk).  A clunk that
           \* reports an error is still a release: the fid moves all the same.
           \E co \in {"ok"} \cup FailSet :
           /\ tab' = [tab EXCEPT ![f] = [@ EXCEPT !.h = h, !.dir = d]]
           /\ live' = (live \cup {h}) \ {src}
           /\ UNCHANGED stopped
           /\ last' = Rec("walk", a, <<FS("walk", src, "ok", h, n, d), FS("clunk", src, co, 0, 0, FALSE)>>, "", n)
         ELSE
           /\ tab' = [tab EXCEPT ![nf] = [h |-> h, dir |-> d, open |-> FALSE, mode |-> 0]]
           /\ live' = live \cup {h}
           /\ UNCHANGED stopped
           /\ last' = Rec("walk", a, <<FS("walk", src, "ok", h, n, d)>>, "", n)
    \/ \* partial walk: k of n elements; nothing is bound; k = 0 without error is reported as 0 qids
       \E k \in 0..(n-1) :
         /\ n > 0 /\ Same
         /\ last' = Rec("walk", a, <<FS("walk", src, "partial", 0, k, FALSE)>>, "", k)
    \/ \* the file system refuses, or hands back no entry
       \E out \in FailSetB \cup (IF WithFail THEN {"nil"} ELSE {}) :
         /\ Same
         /\ last' = Rec("walk", a, <<FS("walk", src, out, 0, n, FALSE)>>,
                        IF out \in {"fail", "failboth"} THEN "fs" ELSE "invalidresult", 0)

\* in-place walks of an opened fid are outside the property (9P forbids walking an open fid)
WalkAllowed(f, nf, ns) == ~(f = nf /\ Len(ns) > 0 /\ Bound(f) /\ tab[f].open)

\* -------------------------------------------------------------------- open
Open(f, m) ==
  LET a == [NoArgs EXCEPT !.f = f, !.mode = m] IN
  IF ~Bound(f) THEN Same /\ last' = Rec("open", a, <<>>, "unknownfid", 0)
  ELSE IF tab[f].open THEN Same /\ last' = Rec("open", a, <<>>, "alreadyopen", 0)
  ELSE
    LET h == tab[f].h
        call == IF tab[f].dir THEN "opendir" ELSE "open" IN
    \* "nil": the file system returns no file and no error (plain files only: a nil
    \* directory iterator is indistinguishable from an empty one in Go)
    \E out \in {"ok"} \cup FailSetB \cup (IF WithFail /\ ~tab[f].dir THEN {"nil"} ELSE {}) :
      IF out = "ok" THEN
        /\ tab' = [tab EXCEPT ![f] = [@ EXCEPT !.open = TRUE, !.mode = m]]
        /\ UNCHANGED <<live, stopped>>
        /\ last' = Rec("open", a, <<FS(call, h, "ok", 0, 0, FALSE)>>, "", 0)
      ELSE
        /\ Same
        /\ last' = Rec("open", a, <<FS(call, h, out, 0, 0, FALSE)>>,
                       IF out \in {"fail", "failboth"} THEN "fs" ELSE "invalidresult", 0)

\* ------------------------------------------------------------ read / write
Read(f) ==
  LET a == [NoArgs EXCEPT !.f = f] IN
  /\ Same
  /\ IF ~Bound(f) THEN last' = Rec("read", a, <<>>, "unknownfid", 0)
     ELSE IF ~tab[f].open THEN last' = Rec("read", a, <<>>, "notopen", 0)
     ELSE IF ~CanRead(tab[f].mode) THEN last' = Rec("read", a, <<>>, "noread", 0)
     ELSE IF tab[f].dir THEN last' = Rec("read", a, <<>>, "", 0)  \* served by the session's own directory reader
     ELSE \E out \in {"ok"} \cup FailSet :
            last' = Rec("read", a, <<FS("read", tab[f].h, out, 0, 0, FALSE)>>, IF out = "ok" THEN "" ELSE "fs", 0)

Write(f) ==
  LET a == [NoArgs EXCEPT !.f = f] IN
  /\ Same
  /\ IF ~Bound(f) THEN last' = Rec("write", a, <<>>, "unknownfid", 0)
     ELSE IF ~tab[f].open THEN last' = Rec("write", a, <<>>, "notopen", 0)
     ELSE IF ~CanWrite(tab[f].mode) THEN last' = Rec("write", a, <<>>, "nowrite", 0)
     ELSE IF tab[f].dir THEN last' = Rec("write", a, <<>>, "dirwrite", 0)
     ELSE \E out \in {"ok"} \cup FailSet :
            last' = Rec("write", a, <<FS("write", tab[f].h, out, 0, 0, FALSE)>>, IF out = "ok" THEN "" ELSE "fs", 0)

\* ------------------------------------------------------------ stat / wstat
StatLike(op, f) ==
  LET a == [NoArgs EXCEPT !.f = f] IN
  /\ Same
  /\ IF ~Bound(f) THEN last' = Rec(op, a, <<>>, "unknownfid", 0)
     ELSE \E out \in {"ok"} \cup FailSet :
            last' = Rec(op, a, <<FS(op, tab[f].h, out, 0, 0, FALSE)>>, IF out = "ok" THEN "" ELSE "fs", 0)

\* --------------------------------------------------------- clunk / remove
\* always unbinds; the entry is released exactly once by the one FS call
Del(op, f) ==
  LET a == [NoArgs EXCEPT !.f = f] IN
  IF ~Bound(f) THEN Same /\ last' = Rec(op, a, <<>>, "unknownfid", 0)
  ELSE \E out \in {"ok"} \cup FailSet :
         /\ tab' = [tab EXCEPT ![f] = Unbound]
         /\ live' = live \ {tab[f].h}
         /\ UNCHANGED stopped
         /\ last' = Rec(op, a, <<FS(op, tab[f].h, out, 0, 0, FALSE)>>, IF out = "ok" THEN "" ELSE "fs", 0)

\* ------------------------------------------------------------------ create
\* Creating through an already opened fid is outside the property (9P forbids it).
CreateAllowed(f) == ~(Bound(f) /\ tab[f].open)
Create(f, nm, m) ==
  LET a == [NoArgs EXCEPT !.f = f, !.name = nm, !.mode = m] IN
  IF nm \in {".", ".."} THEN Same /\ last' = Rec("create", a, <<>>, "illegalname", 0)
  ELSE IF ~Bound(f) THEN Same /\ last' = Rec("create", a, <<>>, "unknownfid", 0)
  ELSE IF ~tab[f].dir THEN Same /\ last' = Rec("create", a, <<>>, "createnondir", 0)
  ELSE
    LET p == tab[f].h
        h == NewH(live) IN
    \/ \* new plain file: the fid now denotes the new, open file; the directory
       \* entry has been consumed by the file system's Create
       /\ tab' = [tab EXCEPT ![f] = [h |-> h, dir |-> FALSE, open |-> TRUE, mode |-> m]]
       /\ live' = (live \ {p}) \cup {h}
       /\ UNCHANGED stopped
       /\ last' = Rec("create", a, <<FS("create", p, "ok", h, 0, FALSE)>>, "", 0)
    \/ \* new directory: the session opens it itself
       /\ tab' = [tab EXCEPT ![f] = [h |-> h, dir |-> TRUE, open |-> TRUE, mode |-> m]]
       /\ live' = (live \ {p}) \cup {h}
       /\ UNCHANGED stopped
       /\ last' = Rec("create", a, <<FS("create", p, "ok", h, 0, TRUE), FS("opendir", h, "ok", 0, 0, FALSE)>>, "", 0)
    \/ \* new directory whose opening fails: the create has happened, the directory
       \* entry is consumed, the new entry is released and the fid ends unbound
       /\ WithFail
       /\ tab' = [tab EXCEPT ![f] = Unbound]
       /\ live' = live \ {p}
       /\ UNCHANGED stopped
       /\ \E out \in FailSetB :
            last' = Rec("create", a, <<FS("create", p, "ok", h, 0, TRUE), FS("opendir", h, out, 0, 0, FALSE),
                                       FS("clunk", h, "ok", 0, 0, FALSE)>>, "fs", 0)
    \/ /\ WithFail /\ Same
       /\ \E out \in FailSetB : last' = Rec("create", a, <<FS("create", p, out, 0, 0, FALSE)>>, "fs", 0)

\* -------------------------------------------------------------------- stop
\* releases every bound entry once (in any order); nothing remains bound
\* (fl: every release fails - a failing clunk is still a release and still unbinds)
Stop(fl) ==
  /\ tab' = [f \in Fids |-> Unbound]
  /\ live' = {}
  /\ stopped' = TRUE
  /\ last' = Rec("stop", [NoArgs EXCEPT !.name = IF fl THEN "fail" ELSE ""], <<>>, "", Cardinality(live))

\* (a top-level disjunction of \E-quantified actions: TLC's simulator then picks one
\* action instance at random instead of evaluating every successor)
Next ==
  \/ \E f \in AllFids, af \in AllFids : ~stopped /\ Attach(f, af)
  \/ \E f \in AllFids, nf \in AllFids, ns \in NameLists : ~stopped /\ WalkAllowed(f, nf, ns) /\ Walk(f, nf, ns)
  \/ \E f \in AllFids, m \in Modes : ~stopped /\ Open(f, m)
  \/ \E f \in AllFids : ~stopped /\ Read(f)
  \/ \E f \in AllFids : ~stopped /\ Write(f)
  \/ \E f \in AllFids : ~stopped /\ StatLike("stat", f)
  \/ \E f \in AllFids : ~stopped /\ StatLike("wstat", f)
  \/ \E f \in AllFids : ~stopped /\ Del("clunk", f)
  \/ \E f \in AllFids : ~stopped /\ Del("remove", f)
  \/ \E f \in AllFids, nm \in CreateNames, m \in Modes : ~stopped /\ CreateAllowed(f) /\ Create(f, nm, m)
  \/ \E fl \in (IF WithFail THEN BOOLEAN ELSE {FALSE}) : ~stopped /\ Stop(fl)

Spec == Init /\ [][Next]_vars

\* ------------------------------------------------------------- properties
TypeOK ==
  /\ tab \in [Fids -> [h : 0..MaxH, dir : BOOLEAN, open : BOOLEAN, mode : Modes \cup {0}]]
  /\ live \subseteq 1..MaxH
\* C13: the session holds exactly the entries bound to fids, each bound to one fid only
HeldIsBound == live = {tab[f].h : f \in {g \in Fids : tab[g].h # 0}}
OneFidPerEntry == \A f, g \in Fids : f # g /\ tab[f].h # 0 => tab[f].h # tab[g].h
UnboundIsBlank == \A f \in Fids : tab[f].h = 0 => tab[f] = Unbound
AfterStopNothingBound == stopped => (live = {} /\ \A f \in Fids : tab[f].h = 0)
\* an entry leaves `live` only in a step whose FS script releases or consumes it exactly once
ReleasedIn(h, fs) == Cardinality({i \in 1..Len(fs) : fs[i].h = h /\ fs[i].call \in {"clunk", "remove"}})
                     + Cardinality({i \in 1..Len(fs) : fs[i].h = h /\ fs[i].call = "create" /\ fs[i].out = "ok"})
ReleaseExactlyOnce ==
  [][ \A h \in 1..MaxH :
        /\ (h \in live /\ h \notin live' /\ last'.op # "stop") => ReleasedIn(h, last'.fs) = 1
        /\ (h \in live /\ h \in live') => ReleasedIn(h, last'.fs) = 0 ]_vars
\* no FS call is scripted on an entry the session does not hold (never used after release)
UsesOnlyHeld ==
  [][ \A i \in 1..Len(last'.fs) :
        LET c == last'.fs[i] IN
        c.h # 0 => (c.h \in live \/ \E j \in 1..(i-1) : last'.fs[j].nh = c.h) ]_vars
\* ---- constant sets for the configs (cfg files cannot contain tuples)
NL_quick == { <<>>, <<"a">>, <<"a", "b">>, <<"..">>, <<".">>, <<"a", "..">> }
NL_full  == { <<>>, <<"a">>, <<"a", "b">>, <<"a", "b", "c">>, <<"..">>, <<"..", "a">>, <<".">>, <<"">>,
              <<"a/b">>, <<"a", "..">>, <<"a", ".">> }
=============================================================================
