CONSTANTS
  Fids = {0, 1, 2}
  Sample = 40
  SampleChange = 3
  NOFID = 99
  MaxH = 4
  NameLists <- NL_quick
  Modes = {0, 1, 2, 17}
  CreateNames = {"x", ".."}
  WithFail = TRUE
SPECIFICATION Spec
INVARIANTS TypeOK HeldIsBound OneFidPerEntry UnboundIsBlank AfterStopNothingBound
PROPERTIES ReleaseExactlyOnce UsesOnlyHeld
VIEW View
ACTION_CONSTRAINT EmitSampled
CHECK_DEADLOCK FALSE
