CONSTANTS
  Procs = {1, 2}
  Fids = {0, 1, 2, 3}
  InitBound = {0, 1}
  OpSet <- OpsCreate
  FixAttach = TRUE
  Literal = TRUE
  FixDel = TRUE
  CreateNils = FALSE
  AtomicNewRef = TRUE
SPECIFICATION Spec
INVARIANTS MutualExclusion NoUseAfterRelease NoDeadlock NoLockLeft ReturnedHoldNothing Linearizable
PROPERTIES EveryOpReturns
CHECK_DEADLOCK FALSE
