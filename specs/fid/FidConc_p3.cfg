CONSTANTS
  Procs = {1, 2, 3}
  Fids = {0, 1, 2, 3}
  InitBound = {0, 1}
  OpSet <- OpsSmall
  FixAttach = TRUE
  Literal = TRUE
  FixDel = TRUE
  CreateNils = TRUE
  AtomicNewRef = TRUE
SPECIFICATION Spec
INVARIANTS MutualExclusion NoUseAfterRelease NoOrphanEntry NoDeadlock NoLockLeft ReturnedHoldNothing Linearizable
PROPERTIES EveryOpReturns
CHECK_DEADLOCK FALSE
