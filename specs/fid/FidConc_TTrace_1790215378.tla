---- MODULE FidConc_TTrace_1790215378 ----
EXTENDS FidConc, Sequences, TLCExt, Toolbox, Naturals, TLC

_expression ==
    LET FidConc_TEExpression == INSTANCE FidConc_TEExpression
    IN FidConc_TEExpression!expression
----

_trace ==
    LET FidConc_TETrace == INSTANCE FidConc_TETrace
    IN FidConc_TETrace!trace
----

_inv ==
    ~(
        TLCGet("level") = Len(_TETrace)
        /\
        pr = (<<[op |-> [k |-> "attach", f |-> 2, nf |-> 0, out |-> ""], pc |-> "done", r |-> 0, r2 |-> 0, e2 |-> 0, res |-> "dupfid"], [op |-> [k |-> "attach", f |-> 2, nf |-> 0, out |-> ""], pc |-> "done", r |-> 0, r2 |-> 0, e2 |-> 0, res |-> "dupfid"], [op |-> [k |-> "attachfail", f |-> 2, nf |-> 0, out |-> ""], pc |-> "done", r |-> 0, r2 |-> 3, e2 |-> 0, res |-> "fs"]>>)
        /\
        ref = (<<[lk |-> 0, ent |-> 1, file |-> FALSE], [lk |-> 0, ent |-> 2, file |-> FALSE], [lk |-> 0, ent |-> 0, file |-> FALSE], [lk |-> 0, ent |-> 0, file |-> FALSE], [lk |-> 0, ent |-> 0, file |-> FALSE], [lk |-> 0, ent |-> 0, file |-> FALSE], [lk |-> 0, ent |-> 0, file |-> FALSE], [lk |-> 0, ent |-> 0, file |-> FALSE]>>)
        /\
        hist = (<<[p |-> 1, res |-> "", e |-> "inv"], [p |-> 2, res |-> "", e |-> "inv"], [p |-> 3, res |-> "", e |-> "inv"], [p |-> 1, res |-> "dupfid", e |-> "ret"], [p |-> 2, res |-> "dupfid", e |-> "ret"], [p |-> 3, res |-> "fs", e |-> "ret"]>>)
        /\
        overlap = (FALSE)
        /\
        inFS = (<<{}, {}, {}, {}, {}, {}, {}, {}>>)
        /\
        refs = ((0 :> 1 @@ 1 :> 2 @@ 2 :> 0 @@ 3 :> 0))
        /\
        nref = (3)
        /\
        uar = (FALSE)
        /\
        dead = ({})
        /\
        nent = (2)
    )
----

_init ==
    /\ overlap = _TETrace[1].overlap
    /\ inFS = _TETrace[1].inFS
    /\ refs = _TETrace[1].refs
    /\ pr = _TETrace[1].pr
    /\ ref = _TETrace[1].ref
    /\ hist = _TETrace[1].hist
    /\ nref = _TETrace[1].nref
    /\ uar = _TETrace[1].uar
    /\ nent = _TETrace[1].nent
    /\ dead = _TETrace[1].dead
----

_next ==
    /\ \E i,j \in DOMAIN _TETrace:
        /\ \/ /\ j = i + 1
              /\ i = TLCGet("level")
        /\ overlap  = _TETrace[i].overlap
        /\ overlap' = _TETrace[j].overlap
        /\ inFS  = _TETrace[i].inFS
        /\ inFS' = _TETrace[j].inFS
        /\ refs  = _TETrace[i].refs
        /\ refs' = _TETrace[j].refs
        /\ pr  = _TETrace[i].pr
        /\ pr' = _TETrace[j].pr
        /\ ref  = _TETrace[i].ref
        /\ ref' = _TETrace[j].ref
        /\ hist  = _TETrace[i].hist
        /\ hist' = _TETrace[j].hist
        /\ nref  = _TETrace[i].nref
        /\ nref' = _TETrace[j].nref
        /\ uar  = _TETrace[i].uar
        /\ uar' = _TETrace[j].uar
        /\ nent  = _TETrace[i].nent
        /\ nent' = _TETrace[j].nent
        /\ dead  = _TETrace[i].dead
        /\ dead' = _TETrace[j].dead

\* Uncomment the ASSUME below to write the states of the error trace
\* to the given file in Json format. Note that you can pass any tuple
\* to `JsonSerialize`. For example, a sub-sequence of _TETrace.
    \* ASSUME
    \*     LET J == INSTANCE Json
    \*         IN J!JsonSerialize("FidConc_TTrace_1790215378.json", _TETrace)

=============================================================================

 Note that you can extract this module `FidConc_TEExpression`
  to a dedicated file to reuse `expression` (the module in the 
  dedicated `FidConc_TEExpression.tla` file takes precedence 
  over the module `FidConc_TEExpression` below).

---- MODULE FidConc_TEExpression ----
EXTENDS FidConc, Sequences, TLCExt, Toolbox, Naturals, TLC

expression == 
    [
        \* To hide variables of the `FidConc` spec from the error trace,
        \* remove the variables below.  The trace will be written in the order
        \* of the fields of this record.
        overlap |-> overlap
        ,inFS |-> inFS
        ,refs |-> refs
        ,pr |-> pr
        ,ref |-> ref
        ,hist |-> hist
        ,nref |-> nref
        ,uar |-> uar
        ,nent |-> nent
        ,dead |-> dead
        
        \* Put additional constant-, state-, and action-level expressions here:
        \* ,_stateNumber |-> _TEPosition
        \* ,_overlapUnchanged |-> overlap = overlap'
        
        \* Format the `overlap` variable as Json value.
        \* ,_overlapJson |->
        \*     LET J == INSTANCE Json
        \*     IN J!ToJson(overlap)
        
        \* Lastly, you may build expressions over arbitrary sets of states by
        \* leveraging the _TETrace operator.  For example, this is how to
        \* count the number of times a spec variable changed up to the current
        \* state in the trace.
        \* ,_overlapModCount |->
        \*     LET F[s \in DOMAIN _TETrace] ==
        \*         IF s = 1 THEN 0
        \*         ELSE IF _TETrace[s].overlap # _TETrace[s-1].overlap
        \*             THEN 1 + F[s-1] ELSE F[s-1]
        \*     IN F[_TEPosition - 1]
    ]

=============================================================================



Parsing and semantic processing can take forever if the trace below is long.
 In this case, it is advised to uncomment the module below to deserialize the
 trace from a generated binary file.

\*
\*---- MODULE FidConc_TETrace ----
\*EXTENDS FidConc, IOUtils, TLC
\*
\*trace == IODeserialize("FidConc_TTrace_1790215378.bin", TRUE)
\*
\*=============================================================================
\*

---- MODULE FidConc_TETrace ----
EXTENDS FidConc, TLC

trace == 
    <<
    ([pr |-> <<[op |-> [k |-> "attach", f |-> 2, nf |-> 0, out |-> ""], pc |-> "start", r |-> 0, r2 |-> 0, e2 |-> 0, res |-> "?"], [op |-> [k |-> "attach", f |-> 2, nf |-> 0, out |-> ""], pc |-> "start", r |-> 0, r2 |-> 0, e2 |-> 0, res |-> "?"], [op |-> [k |-> "attachfail", f |-> 2, nf |-> 0, out |-> ""], pc |-> "start", r |-> 0, r2 |-> 0, e2 |-> 0, res |-> "?"]>>,ref |-> <<[lk |-> 0, ent |-> 1, file |-> FALSE], [lk |-> 0, ent |-> 2, file |-> FALSE], [lk |-> 0, ent |-> 0, file |-> FALSE], [lk |-> 0, ent |-> 0, file |-> FALSE], [lk |-> 0, ent |-> 0, file |-> FALSE], [lk |-> 0, ent |-> 0, file |-> FALSE], [lk |-> 0, ent |-> 0, file |-> FALSE], [lk |-> 0, ent |-> 0, file |-> FALSE]>>,hist |-> <<>>,overlap |-> FALSE,inFS |-> <<{}, {}, {}, {}, {}, {}, {}, {}>>,refs |-> (0 :> 1 @@ 1 :> 2 @@ 2 :> 0 @@ 3 :> 0),nref |-> 2,uar |-> FALSE,dead |-> {},nent |-> 2]),
    ([pr |-> <<[op |-> [k |-> "attach", f |-> 2, nf |-> 0, out |-> ""], pc |-> "newref", r |-> 0, r2 |-> 0, e2 |-> 0, res |-> "?"], [op |-> [k |-> "attach", f |-> 2, nf |-> 0, out |-> ""], pc |-> "start", r |-> 0, r2 |-> 0, e2 |-> 0, res |-> "?"], [op |-> [k |-> "attachfail", f |-> 2, nf |-> 0, out |-> ""], pc |-> "start", r |-> 0, r2 |-> 0, e2 |-> 0, res |-> "?"]>>,ref |-> <<[lk |-> 0, ent |-> 1, file |-> FALSE], [lk |-> 0, ent |-> 2, file |-> FALSE], [lk |-> 0, ent |-> 0, file |-> FALSE], [lk |-> 0, ent |-> 0, file |-> FALSE], [lk |-> 0, ent |-> 0, file |-> FALSE], [lk |-> 0, ent |-> 0, file |-> FALSE], [lk |-> 0, ent |-> 0, file |-> FALSE], [lk |-> 0, ent |-> 0, file |-> FALSE]>>,hist |-> <<[p |-> 1, res |-> "", e |-> "inv"]>>,overlap |-> FALSE,inFS |-> <<{}, {}, {}, {}, {}, {}, {}, {}>>,refs |-> (0 :> 1 @@ 1 :> 2 @@ 2 :> 0 @@ 3 :> 0),nref |-> 2,uar |-> FALSE,dead |-> {},nent |-> 2]),
    ([pr |-> <<[op |-> [k |-> "attach", f |-> 2, nf |-> 0, out |-> ""], pc |-> "newref", r |-> 0, r2 |-> 0, e2 |-> 0, res |-> "?"], [op |-> [k |-> "attach", f |-> 2, nf |-> 0, out |-> ""], pc |-> "newref", r |-> 0, r2 |-> 0, e2 |-> 0, res |-> "?"], [op |-> [k |-> "attachfail", f |-> 2, nf |-> 0, out |-> ""], pc |-> "start", r |-> 0, r2 |-> 0, e2 |-> 0, res |-> "?"]>>,ref |-> <<[lk |-> 0, ent |-> 1, file |-> FALSE], [lk |-> 0, ent |-> 2, file |-> FALSE], [lk |-> 0, ent |-> 0, file |-> FALSE], [lk |-> 0, ent |-> 0, file |-> FALSE], [lk |-> 0, ent |-> 0, file |-> FALSE], [lk |-> 0, ent |-> 0, file |-> FALSE], [lk |-> 0, ent |-> 0, file |-> FALSE], [lk |-> 0, ent |-> 0, file |-> FALSE]>>,hist |-> <<[p |-> 1, res |-> "", e |-> "inv"], [p |-> 2, res |-> "", e |-> "inv"]>>,overlap |-> FALSE,inFS |-> <<{}, {}, {}, {}, {}, {}, {}, {}>>,refs |-> (0 :> 1 @@ 1 :> 2 @@ 2 :> 0 @@ 3 :> 0),nref |-> 2,uar |-> FALSE,dead |-> {},nent |-> 2]),
    ([pr |-> <<[op |-> [k |-> "attach", f |-> 2, nf |-> 0, out |-> ""], pc |-> "newref", r |-> 0, r2 |-> 0, e2 |-> 0, res |-> "?"], [op |-> [k |-> "attach", f |-> 2, nf |-> 0, out |-> ""], pc |-> "newref", r |-> 0, r2 |-> 0, e2 |-> 0, res |-> "?"], [op |-> [k |-> "attachfail", f |-> 2, nf |-> 0, out |-> ""], pc |-> "newref", r |-> 0, r2 |-> 0, e2 |-> 0, res |-> "?"]>>,ref |-> <<[lk |-> 0, ent |-> 1, file |-> FALSE], [lk |-> 0, ent |-> 2, file |-> FALSE], [lk |-> 0, ent |-> 0, file |-> FALSE], [lk |-> 0, ent |-> 0, file |-> FALSE], [lk |-> 0, ent |-> 0, file |-> FALSE], [lk |-> 0, ent |-> 0, file |-> FALSE], [lk |-> 0, ent |-> 0, file |-> FALSE], [lk |-> 0, ent |-> 0, file |-> FALSE]>>,hist |-> <<[p |-> 1, res |-> "", e |-> "inv"], [p |-> 2, res |-> "", e |-> "inv"], [p |-> 3, res |-> "", e |-> "inv"]>>,overlap |-> FALSE,inFS |-> <<{}, {}, {}, {}, {}, {}, {}, {}>>,refs |-> (0 :> 1 @@ 1 :> 2 @@ 2 :> 0 @@ 3 :> 0),nref |-> 2,uar |-> FALSE,dead |-> {},nent |-> 2]),
    ([pr |-> <<[op |-> [k |-> "attach", f |-> 2, nf |-> 0, out |-> ""], pc |-> "newref", r |-> 0, r2 |-> 0, e2 |-> 0, res |-> "?"], [op |-> [k |-> "attach", f |-> 2, nf |-> 0, out |-> ""], pc |-> "newref", r |-> 0, r2 |-> 0, e2 |-> 0, res |-> "?"], [op |-> [k |-> "attachfail", f |-> 2, nf |-> 0, out |-> ""], pc |-> "fsenter", r |-> 0, r2 |-> 3, e2 |-> 0, res |-> "?"]>>,ref |-> <<[lk |-> 0, ent |-> 1, file |-> FALSE], [lk |-> 0, ent |-> 2, file |-> FALSE], [lk |-> 3, ent |-> 0, file |-> FALSE], [lk |-> 0, ent |-> 0, file |-> FALSE], [lk |-> 0, ent |-> 0, file |-> FALSE], [lk |-> 0, ent |-> 0, file |-> FALSE], [lk |-> 0, ent |-> 0, file |-> FALSE], [lk |-> 0, ent |-> 0, file |-> FALSE]>>,hist |-> <<[p |-> 1, res |-> "", e |-> "inv"], [p |-> 2, res |-> "", e |-> "inv"], [p |-> 3, res |-> "", e |-> "inv"]>>,overlap |-> FALSE,inFS |-> <<{}, {}, {}, {}, {}, {}, {}, {}>>,refs |-> (0 :> 1 @@ 1 :> 2 @@ 2 :> 3 @@ 3 :> 0),nref |-> 3,uar |-> FALSE,dead |-> {},nent |-> 2]),
    ([pr |-> <<[op |-> [k |-> "attach", f |-> 2, nf |-> 0, out |-> ""], pc |-> "done", r |-> 0, r2 |-> 0, e2 |-> 0, res |-> "dupfid"], [op |-> [k |-> "attach", f |-> 2, nf |-> 0, out |-> ""], pc |-> "newref", r |-> 0, r2 |-> 0, e2 |-> 0, res |-> "?"], [op |-> [k |-> "attachfail", f |-> 2, nf |-> 0, out |-> ""], pc |-> "fsenter", r |-> 0, r2 |-> 3, e2 |-> 0, res |-> "?"]>>,ref |-> <<[lk |-> 0, ent |-> 1, file |-> FALSE], [lk |-> 0, ent |-> 2, file |-> FALSE], [lk |-> 3, ent |-> 0, file |-> FALSE], [lk |-> 0, ent |-> 0, file |-> FALSE], [lk |-> 0, ent |-> 0, file |-> FALSE], [lk |-> 0, ent |-> 0, file |-> FALSE], [lk |-> 0, ent |-> 0, file |-> FALSE], [lk |-> 0, ent |-> 0, file |-> FALSE]>>,hist |-> <<[p |-> 1, res |-> "", e |-> "inv"], [p |-> 2, res |-> "", e |-> "inv"], [p |-> 3, res |-> "", e |-> "inv"], [p |-> 1, res |-> "dupfid", e |-> "ret"]>>,overlap |-> FALSE,inFS |-> <<{}, {}, {}, {}, {}, {}, {}, {}>>,refs |-> (0 :> 1 @@ 1 :> 2 @@ 2 :> 3 @@ 3 :> 0),nref |-> 3,uar |-> FALSE,dead |-> {},nent |-> 2]),
    ([pr |-> <<[op |-> [k |-> "attach", f |-> 2, nf |-> 0, out |-> ""], pc |-> "done", r |-> 0, r2 |-> 0, e2 |-> 0, res |-> "dupfid"], [op |-> [k |-> "attach", f |-> 2, nf |-> 0, out |-> ""], pc |-> "done", r |-> 0, r2 |-> 0, e2 |-> 0, res |-> "dupfid"], [op |-> [k |-> "attachfail", f |-> 2, nf |-> 0, out |-> ""], pc |-> "fsenter", r |-> 0, r2 |-> 3, e2 |-> 0, res |-> "?"]>>,ref |-> <<[lk |-> 0, ent |-> 1, file |-> FALSE], [lk |-> 0, ent |-> 2, file |-> FALSE], [lk |-> 3, ent |-> 0, file |-> FALSE], [lk |-> 0, ent |-> 0, file |-> FALSE], [lk |-> 0, ent |-> 0, file |-> FALSE], [lk |-> 0, ent |-> 0, file |-> FALSE], [lk |-> 0, ent |-> 0, file |-> FALSE], [lk |-> 0, ent |-> 0, file |-> FALSE]>>,hist |-> <<[p |-> 1, res |-> "", e |-> "inv"], [p |-> 2, res |-> "", e |-> "inv"], [p |-> 3, res |-> "", e |-> "inv"], [p |-> 1, res |-> "dupfid", e |-> "ret"], [p |-> 2, res |-> "dupfid", e |-> "ret"]>>,overlap |-> FALSE,inFS |-> <<{}, {}, {}, {}, {}, {}, {}, {}>>,refs |-> (0 :> 1 @@ 1 :> 2 @@ 2 :> 3 @@ 3 :> 0),nref |-> 3,uar |-> FALSE,dead |-> {},nent |-> 2]),
    ([pr |-> <<[op |-> [k |-> "attach", f |-> 2, nf |-> 0, out |-> ""], pc |-> "done", r |-> 0, r2 |-> 0, e2 |-> 0, res |-> "dupfid"], [op |-> [k |-> "attach", f |-> 2, nf |-> 0, out |-> ""], pc |-> "done", r |-> 0, r2 |-> 0, e2 |-> 0, res |-> "dupfid"], [op |-> [k |-> "attachfail", f |-> 2, nf |-> 0, out |-> ""], pc |-> "fsexit", r |-> 0, r2 |-> 3, e2 |-> 0, res |-> "?"]>>,ref |-> <<[lk |-> 0, ent |-> 1, file |-> FALSE], [lk |-> 0, ent |-> 2, file |-> FALSE], [lk |-> 3, ent |-> 0, file |-> FALSE], [lk |-> 0, ent |-> 0, file |-> FALSE], [lk |-> 0, ent |-> 0, file |-> FALSE], [lk |-> 0, ent |-> 0, file |-> FALSE], [lk |-> 0, ent |-> 0, file |-> FALSE], [lk |-> 0, ent |-> 0, file |-> FALSE]>>,hist |-> <<[p |-> 1, res |-> "", e |-> "inv"], [p |-> 2, res |-> "", e |-> "inv"], [p |-> 3, res |-> "", e |-> "inv"], [p |-> 1, res |-> "dupfid", e |-> "ret"], [p |-> 2, res |-> "dupfid", e |-> "ret"]>>,overlap |-> FALSE,inFS |-> <<{}, {}, {}, {}, {}, {}, {}, {}>>,refs |-> (0 :> 1 @@ 1 :> 2 @@ 2 :> 3 @@ 3 :> 0),nref |-> 3,uar |-> FALSE,dead |-> {},nent |-> 2]),
    ([pr |-> <<[op |-> [k |-> "attach", f |-> 2, nf |-> 0, out |-> ""], pc |-> "done", r |-> 0, r2 |-> 0, e2 |-> 0, res |-> "dupfid"], [op |-> [k |-> "attach", f |-> 2, nf |-> 0, out |-> ""], pc |-> "done", r |-> 0, r2 |-> 0, e2 |-> 0, res |-> "dupfid"], [op |-> [k |-> "attachfail", f |-> 2, nf |-> 0, out |-> ""], pc |-> "done", r |-> 0, r2 |-> 3, e2 |-> 0, res |-> "fs"]>>,ref |-> <<[lk |-> 0, ent |-> 1, file |-> FALSE], [lk |-> 0, ent |-> 2, file |-> FALSE], [lk |-> 0, ent |-> 0, file |-> FALSE], [lk |-> 0, ent |-> 0, file |-> FALSE], [lk |-> 0, ent |-> 0, file |-> FALSE], [lk |-> 0, ent |-> 0, file |-> FALSE], [lk |-> 0, ent |-> 0, file |-> FALSE], [lk |-> 0, ent |-> 0, file |-> FALSE]>>,hist |-> <<[p |-> 1, res |-> "", e |-> "inv"], [p |-> 2, res |-> "", e |-> "inv"], [p |-> 3, res |-> "", e |-> "inv"], [p |-> 1, res |-> "dupfid", e |-> "ret"], [p |-> 2, res |-> "dupfid", e |-> "ret"], [p |-> 3, res |-> "fs", e |-> "ret"]>>,overlap |-> FALSE,inFS |-> <<{}, {}, {}, {}, {}, {}, {}, {}>>,refs |-> (0 :> 1 @@ 1 :> 2 @@ 2 :> 0 @@ 3 :> 0),nref |-> 3,uar |-> FALSE,dead |-> {},nent |-> 2])
    >>
----


=============================================================================

---- CONFIG FidConc_TTrace_1790215378 ----
CONSTANTS
    Procs = { 1 , 2 , 3 }
    Fids = { 0 , 1 , 2 , 3 }
    InitBound = { 0 , 1 }
    OpSet <- OpsSameFid
    Assignments <- AnyAssignments
    FixAttach = TRUE
    Literal = TRUE
    FixDel = TRUE
    CreateNils = TRUE
    AtomicNewRef = TRUE

INVARIANT
    _inv

CHECK_DEADLOCK
    \* CHECK_DEADLOCK off because of PROPERTY or INVARIANT above.
    FALSE

INIT
    _init

NEXT
    _next

CONSTANT
    _TETrace <- _trace

ALIAS
    _expression
=============================================================================
\* Generated on Thu Sep 24 02:03:07 UTC 2026