CONSTANTS
  Procs = {1, 2}
  Fids = {0, 1, 2, 3}
  InitBound = {0, 1}
  OpSet <- OpsSameFid
  Assignments <- AnyAssignments
  FixAttach = TRUE
  Literal = TRUE
  FixDel = TRUE
  CreateNils = TRUE
  AtomicNewRef = FALSE
SPECIFICATION Spec
INVARIANTS MutualExclusion NoUseAfterRelease NoDeadlock NoLockLeft ReturnedHoldNothing NoOrphanEntry
PROPERTIES EveryOpReturns
CHECK_DEADLOCK FALSE
