CONSTANTS
  Fids = {0, 1}
  Sample = 1
  SampleChange = 1
  NOFID = 99
  MaxH = 3
  NameLists <- NL_quick
  Modes = {0, 1, 2, 3, 17, 66}
  CreateNames = {"x", "."}
  WithFail = TRUE
SPECIFICATION Spec
INVARIANTS TypeOK HeldIsBound OneFidPerEntry UnboundIsBlank AfterStopNothingBound
PROPERTIES ReleaseExactlyOnce UsesOnlyHeld
VIEW View
ACTION_CONSTRAINT Emit
CHECK_DEADLOCK FALSE
