CONSTANTS
  Procs = {1, 2}
  Fids = {0, 1, 2, 3}
  InitBound = {0, 1}
  OpSet <- OpsSmall
  FixAttach = FALSE
  Literal = FALSE
  FixDel = FALSE
SPECIFICATION Spec
INVARIANTS MutualExclusion NoDeadlock NoLockLeft ReturnedHoldNothing Linearizable
PROPERTIES EveryOpReturns
CHECK_DEADLOCK FALSE
