CONSTANTS
  Procs = {1, 2}
  Fids = {0, 1, 2, 3}
  InitBound = {0, 1}
  OpSet <- OpsSmall
  FixAttach = FALSE
  Literal = FALSE
  FixDel = FALSE
  CreateNils = TRUE
  AtomicNewRef = TRUE
SPECIFICATION Spec
INVARIANTS MutualExclusion NoUseAfterRelease NoDeadlock NoLockLeft ReturnedHoldNothing Linearizable
PROPERTIES EveryOpReturns
CHECK_DEADLOCK FALSE
