SPECIFICATION Spec
