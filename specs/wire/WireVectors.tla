---------------------------- MODULE WireVectors ----------------------------
(***************************************************************************)
(* Boundary-dense message vectors with TLC-computed encodings (C01), and   *)
(* the layout table itself, emitted as JSON lines for the Go harness:      *)
(*   {"t":"layout", ...}                        once                       *)
(*   {"t":"msg", kind, tag, f, bytes, lf}       per message vector         *)
(*   {"t":"stat", f, bytes, lf}                 per bare directory entry   *)
(* Per kind: a baseline whose same-width fields carry pairwise different   *)
(* byte patterns, then each-choice variation of every field (and every     *)
(* sub-field of qids and stat records) over its boundary domain, plus the  *)
(* all-zero / all-max vectors.                                             *)
(***************************************************************************)
EXTENDS Wire9P, Json

Rep(n, b) == [i \in 1..n |-> b]
Pat(n, k) == [i \in 1..n |-> (16 * k + i) % 256]      \* distinct pattern number k

IntDom(t) == LET n == Width[t] IN {Rep(n, 0), <<1>> \o Rep(n - 1, 0), Rep(n, 255), Pat(n, 7), Rep(n - 1, 255) \o <<127>>}
\* empty, ASCII, invalid UTF-8 with NUL, "9P2000", separators + a broken sequence, and valid multi-byte UTF-8
\* ("caf" + U+00E9, U+65E5 U+672C): byte length # rune count
StrDom == {<<>>, <<97>>, <<0, 255, 128>>, <<57, 80, 50, 48, 48, 48>>, <<47, 92, 46, 46, 32, 195, 40, 10>>,
           <<99, 97, 102, 195, 169>>, <<230, 151, 165, 230, 156, 172>>}
DataDom == {<<>>, <<1, 2, 3>>, <<0>>}

QidOf(k) == [type |-> <<(128 + k) % 256>>, vers |-> Pat(4, k), path |-> Pat(8, k + 1)]
QidDom == {QidOf(1), [type |-> <<0>>, vers |-> Rep(4, 0), path |-> Rep(8, 0)],
           [type |-> <<255>>, vers |-> Rep(4, 255), path |-> Rep(8, 255)],
           [type |-> <<128>>, vers |-> Pat(4, 3), path |-> Pat(8, 4)]}
Name(k) == [i \in 1..(1 + (k % 3)) |-> 97 + ((k + i) % 26)]
NamesDom == {<<>>, <<Name(1)>>, <<Name(1), Name(2)>>, [i \in 1..16 |-> Name(i)], << <<>>, <<46>>, <<46, 46>> >>}
QidsDom == {<<>>, <<QidOf(2)>>, <<QidOf(2), QidOf(3)>>, [i \in 1..16 |-> QidOf(i)]}

BaseStat == [type |-> Pat(2, 1), dev |-> Pat(4, 2), qid |-> QidOf(5), mode |-> Pat(4, 3), atime |-> Pat(4, 4),
             mtime |-> Pat(4, 5), length |-> Pat(8, 6), name |-> <<110, 97, 109, 101>>, uid |-> <<117>>,
             gid |-> <<103, 105, 100>>, muid |-> <<>>]
\* timestamps are whole seconds in a 32-bit field; every value is representable
Dom(t) == CASE t \in DOMAIN Width -> IntDom(t) [] t = "str" -> StrDom [] t = "data" -> DataDom
            [] t = "qid" -> QidDom [] t = "names" -> NamesDom [] t = "qids" -> QidsDom
StatDom == {BaseStat}
           \cup UNION {{[BaseStat EXCEPT ![StatLayout[i].name] = v] : v \in Dom(StatLayout[i].type)} : i \in 1..Len(StatLayout)}
           \cup {[type |-> Rep(2, 0), dev |-> Rep(4, 0), qid |-> [type |-> <<0>>, vers |-> Rep(4, 0), path |-> Rep(8, 0)],
                  mode |-> Rep(4, 0), atime |-> Rep(4, 0), mtime |-> Rep(4, 0), length |-> Rep(8, 0),
                  name |-> <<>>, uid |-> <<>>, gid |-> <<>>, muid |-> <<>>],
                 [type |-> Rep(2, 255), dev |-> Rep(4, 255), qid |-> [type |-> <<255>>, vers |-> Rep(4, 255), path |-> Rep(8, 255)],
                  mode |-> Rep(4, 255), atime |-> Rep(4, 255), mtime |-> Rep(4, 255), length |-> Rep(8, 255),
                  name |-> Rep(9, 255), uid |-> Rep(3, 0), gid |-> Rep(2, 47), muid |-> Rep(5, 128)]}
FullDom(t) == IF t = "statn" THEN StatDom ELSE Dom(t)

\* baseline value of field number i of a kind: distinct patterns per position
BaseVal(t, i) ==
  CASE t \in DOMAIN Width -> Pat(Width[t], i)
    [] t = "str" -> [j \in 1..(i + 1) |-> 64 + 8 * i + j]
    [] t = "data" -> [j \in 1..(i + 2) |-> 200 + i + j]
    [] t = "qid" -> QidOf(i)
    [] t = "names" -> <<Name(i), Name(i + 1)>>
    [] t = "qids" -> <<QidOf(i), QidOf(i + 1)>>
    [] t = "statn" -> BaseStat
Base(kind) == [n \in {Layout[kind][i].name : i \in 1..Len(Layout[kind])} |->
                 LET i == CHOOSE j \in 1..Len(Layout[kind]) : Layout[kind][j].name = n IN BaseVal(Layout[kind][i].type, i)]
TagDom == {<<0, 0>>, <<1, 0>>, <<255, 255>>, <<52, 18>>, <<254, 255>>}

Msg(k, tag, f) == [kind |-> k, tag |-> tag, f |-> f]
VectorsOf(kind) ==
  LET L == Layout[kind] b == Base(kind) IN
  {Msg(kind, t, b) : t \in TagDom}
  \cup UNION {{Msg(kind, <<7, 1>>, [b EXCEPT ![L[i].name] = v]) : v \in FullDom(L[i].type)} : i \in 1..Len(L)}
KindSet == {Kinds[i] : i \in 1..Len(Kinds)}
Vectors == UNION {VectorsOf(k) : k \in KindSet}

OutMsg(m) == LET e == EncodeMsg(m) IN
             [t |-> "msg", kind |-> m.kind, tag |-> m.tag, f |-> m.f, bytes |-> e.b, lf |-> e.lf]
OutStat(d) == LET e == EncodeStat(d) IN [t |-> "stat", f |-> d, bytes |-> e.b, lf |-> e.lf]

\* the spec's own sanity: every vector is well typed, sizes add up, 27 kinds, type bytes distinct
ASSUME Len(Kinds) = 27 /\ Cardinality({TypeByte[k] : k \in KindSet}) = 27 /\ 106 \notin {TypeByte[k] : k \in KindSet}
ASSUME \A m \in Vectors : WellTyped(m)
ASSUME \A m \in Vectors : Len(Frame(m)) = Len(Encode(m)) + 4

ASSUME PrintT(ToJson([t |-> "layout", layout |-> Layout, stat |-> StatLayout, qid |-> QidLayout, typebyte |-> TypeByte]))
ASSUME \A m \in Vectors : PrintT(ToJson(OutMsg(m)))
ASSUME \A d \in StatDom : PrintT(ToJson(OutStat(d)))
ASSUME PrintT(ToJson([t |-> "count", msgs |-> Cardinality(Vectors), stats |-> Cardinality(StatDom)]))

VARIABLE x
Init == x = 0
Next == x' = x
Spec == Init /\ [][Next]_x
=============================================================================
