------------------------------- MODULE Wire9P -------------------------------
(***************************************************************************)
(* The 9P2000 wire format, transcribed from the Plan 9 manual, section 5   *)
(* (intro(5), version, auth, attach, error, flush, walk, open, create,     *)
(* read, write, clunk, remove, stat, wstat) - not from encoding.go.        *)
(*                                                                         *)
(*   message  = size[4] type[1] tag[2] fields...   (size counts itself;    *)
(*              the codec of go-p9p handles type..fields, the channel adds *)
(*              size[4])                                                   *)
(*   integers little-endian; string = n[2] bytes; data = count[4] bytes;   *)
(*   qid = type[1] vers[4] path[8]; nwname[2] nwname*(wname[s]);           *)
(*   nwqid[2] nwqid*(qid[13]);                                             *)
(*   stat = size[2] type[2] dev[4] qid[13] mode[4] atime[4] mtime[4]       *)
(*          length[8] name[s] uid[s] gid[s] muid[s]                        *)
(*   Rstat and Twstat carry stat[n]: n[2] followed by the stat (which      *)
(*   starts with its own size[2]) - the "doubled" size of stat(5) BUGS.    *)
(*                                                                         *)
(* Integers are byte tuples (least significant first), so 2^64-1 is a      *)
(* value.  A message is [kind, tag, f] with f a record of field values.    *)
(* Encode also reports where every length / count field sits (offset,      *)
(* width): the hostile-input family of C04 is built from that.             *)
(***************************************************************************)
EXTENDS Integers, Sequences, FiniteSets, TLC

Kinds == <<"Tversion", "Rversion", "Tauth", "Rauth", "Tattach", "Rattach", "Rerror", "Tflush", "Rflush",
           "Twalk", "Rwalk", "Topen", "Ropen", "Tcreate", "Rcreate", "Tread", "Rread", "Twrite", "Rwrite",
           "Tclunk", "Rclunk", "Tremove", "Rremove", "Tstat", "Rstat", "Twstat", "Rwstat">>

\* type byte: Tversion = 100, R = T + 1, Terror (106) is illegal
TypeByte == [Tversion |-> 100, Rversion |-> 101, Tauth |-> 102, Rauth |-> 103, Tattach |-> 104, Rattach |-> 105,
             Rerror |-> 107, Tflush |-> 108, Rflush |-> 109, Twalk |-> 110, Rwalk |-> 111, Topen |-> 112,
             Ropen |-> 113, Tcreate |-> 114, Rcreate |-> 115, Tread |-> 116, Rread |-> 117, Twrite |-> 118,
             Rwrite |-> 119, Tclunk |-> 120, Rclunk |-> 121, Tremove |-> 122, Rremove |-> 123, Tstat |-> 124,
             Rstat |-> 125, Twstat |-> 126, Rwstat |-> 127]

F(n, t) == [name |-> n, type |-> t]
Layout ==
  [Tversion |-> <<F("msize", "u32"), F("version", "str")>>,
   Rversion |-> <<F("msize", "u32"), F("version", "str")>>,
   Tauth    |-> <<F("afid", "u32"), F("uname", "str"), F("aname", "str")>>,
   Rauth    |-> <<F("aqid", "qid")>>,
   Tattach  |-> <<F("fid", "u32"), F("afid", "u32"), F("uname", "str"), F("aname", "str")>>,
   Rattach  |-> <<F("qid", "qid")>>,
   Rerror   |-> <<F("ename", "str")>>,
   Tflush   |-> <<F("oldtag", "u16")>>,
   Rflush   |-> <<>>,
   Twalk    |-> <<F("fid", "u32"), F("newfid", "u32"), F("wname", "names")>>,
   Rwalk    |-> <<F("wqid", "qids")>>,
   Topen    |-> <<F("fid", "u32"), F("mode", "u8")>>,
   Ropen    |-> <<F("qid", "qid"), F("iounit", "u32")>>,
   Tcreate  |-> <<F("fid", "u32"), F("name", "str"), F("perm", "u32"), F("mode", "u8")>>,
   Rcreate  |-> <<F("qid", "qid"), F("iounit", "u32")>>,
   Tread    |-> <<F("fid", "u32"), F("offset", "u64"), F("count", "u32")>>,
   Rread    |-> <<F("data", "data")>>,
   Twrite   |-> <<F("fid", "u32"), F("offset", "u64"), F("data", "data")>>,
   Rwrite   |-> <<F("count", "u32")>>,
   Tclunk   |-> <<F("fid", "u32")>>,
   Rclunk   |-> <<>>,
   Tremove  |-> <<F("fid", "u32")>>,
   Rremove  |-> <<>>,
   Tstat    |-> <<F("fid", "u32")>>,
   Rstat    |-> <<F("stat", "statn")>>,
   Twstat   |-> <<F("fid", "u32"), F("stat", "statn")>>,
   Rwstat   |-> <<>>]

StatLayout == <<F("type", "u16"), F("dev", "u32"), F("qid", "qid"), F("mode", "u32"), F("atime", "u32"),
                F("mtime", "u32"), F("length", "u64"), F("name", "str"), F("uid", "str"), F("gid", "str"), F("muid", "str")>>
QidLayout == <<F("type", "u8"), F("vers", "u32"), F("path", "u64")>>

Width == [u8 |-> 1, u16 |-> 2, u32 |-> 4, u64 |-> 8]
LE16(n) == <<n % 256, (n \div 256) % 256>>
LE32(n) == <<n % 256, (n \div 256) % 256, (n \div 65536) % 256, (n \div 16777216) % 256>>

\* an encoding in progress: bytes so far and the length/count fields seen (offset from the start, width)
E(b, lf) == [b |-> b, lf |-> lf]
Cat(x, y) == E(x.b \o y.b, x.lf \o [i \in 1..Len(y.lf) |-> [off |-> y.lf[i].off + Len(x.b), w |-> y.lf[i].w, what |-> y.lf[i].what]])
LenField(w, what) == <<[off |-> 0, w |-> w, what |-> what]>>

RECURSIVE EncSeq(_, _), EncVal(_, _), EncList(_, _)
\* a record value v laid out by a field list
EncSeq(layout, v) ==
  IF layout = <<>> THEN E(<<>>, <<>>)
  ELSE Cat(EncVal(Head(layout).type, v[Head(layout).name]), EncSeq(Tail(layout), v))
EncList(t, vs) == IF vs = <<>> THEN E(<<>>, <<>>) ELSE Cat(EncVal(t, Head(vs)), EncList(t, Tail(vs)))
EncVal(t, v) ==
  CASE t \in DOMAIN Width -> E(v, <<>>)      \* v is a byte tuple of the right width (checked by WellTyped)
    [] t = "str"   -> Cat(E(LE16(Len(v)), LenField(2, "strlen")), E(v, <<>>))
    [] t = "data"  -> Cat(E(LE32(Len(v)), LenField(4, "count")), E(v, <<>>))
    [] t = "qid"   -> EncSeq(QidLayout, v)
    [] t = "names" -> Cat(E(LE16(Len(v)), LenField(2, "nwname")), EncList("str", v))
    [] t = "qids"  -> Cat(E(LE16(Len(v)), LenField(2, "nwqid")), EncList("qid", v))
    [] t = "stat"  -> LET body == EncSeq(StatLayout, v) IN Cat(E(LE16(Len(body.b)), LenField(2, "statsize")), body)
    [] t = "statn" -> LET st == EncVal("stat", v) IN Cat(E(LE16(Len(st.b)), LenField(2, "statn")), st)

\* type[1] tag[2] fields  (what Codec.Marshal of an Fcall must produce)
EncodeMsg(m) == Cat(E(<<TypeByte[m.kind]>> \o m.tag, <<>>), EncSeq(Layout[m.kind], m.f))
Encode(m) == EncodeMsg(m).b
\* the frame on the connection: size[4] counts itself
Frame(m) == LE32(Len(Encode(m)) + 4) \o Encode(m)
\* a bare directory entry as read from a directory / EncodeDir
EncodeStat(d) == EncVal("stat", d)

\* ---- well-typedness of a value against a layout (widths of the integer tuples)
RECURSIVE TypedSeq(_, _), Typed(_, _)
Bytes(s) == \A i \in 1..Len(s) : s[i] \in 0..255
TypedSeq(layout, v) == \A i \in 1..Len(layout) : Typed(layout[i].type, v[layout[i].name])
Typed(t, v) ==
  CASE t \in DOMAIN Width -> Len(v) = Width[t] /\ Bytes(v)
    [] t \in {"str", "data"} -> Bytes(v)
    [] t = "qid" -> TypedSeq(QidLayout, v)
    [] t = "names" -> \A i \in 1..Len(v) : Bytes(v[i])
    [] t = "qids" -> \A i \in 1..Len(v) : TypedSeq(QidLayout, v[i])
    [] t \in {"stat", "statn"} -> TypedSeq(StatLayout, v)
WellTyped(m) == Len(m.tag) = 2 /\ Bytes(m.tag) /\ TypedSeq(Layout[m.kind], m.f)

\* ---- fixed sizes the channel arithmetic of C02 / C03 / C10 relies on (derived, not assumed)
\* size of type[1] tag[2] plus the fixed-width fields of a kind, strings/data/lists empty
=============================================================================
