CONSTANTS
  N = 3
  NT = 3
  MaxFaults = 0
  MaxRogue = 1
  FixUnknown = FALSE
  CtxWriteCloses = FALSE
  OfferWatchesClosed = TRUE
SPECIFICATION Spec
INVARIANTS NeverCrashes

VIEW View
CHECK_DEADLOCK FALSE
