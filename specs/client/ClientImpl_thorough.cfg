CONSTANTS
  N = 4
  NT = 3
  MaxFaults = 1
  MaxRogue = 0
  FixUnknown = TRUE
SPECIFICATION Spec
INVARIANTS TypeOK OwnReply TagsDistinct NeverNotag NeverCrashes OkHasReply

VIEW View
CHECK_DEADLOCK FALSE
