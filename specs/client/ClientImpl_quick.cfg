CONSTANTS
  N = 3
  NT = 2
  MaxFaults = 1
  MaxRogue = 1
  FixUnknown = TRUE
  CtxWriteCloses = FALSE
  OfferWatchesClosed = TRUE
SPECIFICATION FairSpec
INVARIANTS TypeOK NoSelfClose ClosedOnlyAfterFault OwnReply TagsDistinct NeverNotag NeverCrashes OkHasReply
PROPERTIES AllReturnAfterDown
VIEW View
CHECK_DEADLOCK FALSE
