----------------------------- MODULE ClientImpl -----------------------------
(***************************************************************************)
(* Implementation-shaped model of the client transport (transport.go):     *)
(* callers blocked in send(), the handle loop with its tag table and       *)
(* allocateTag, the reader goroutine, and a peer that may answer           *)
(* outstanding requests in any order - or misbehave (unknown tag, repeated *)
(* tag, wrong reply type) - plus connection failure, session cancel and    *)
(* per-call cancellation.  Tag space is 0..NT-1 with NOTAG = NT, so the    *)
(* wrap-around of the 16-bit allocator is reached with NT = 3.             *)
(*                                                                         *)
(* C05: a call returns at most once, with the reply carrying the tag of    *)
(*      its own request; tags awaiting a reply (also of abandoned calls)   *)
(*      are pairwise distinct and never NOTAG.                             *)
(* C12: after connection failure / session cancel every pending and later  *)
(*      call returns an error; a cancelled call returns and disturbs no    *)
(*      other; no peer behaviour crashes the client; wrong-typed replies   *)
(*      surface as errors.                                                 *)
(* FixUnknown = FALSE models the pinned commit: a reply with a tag that is *)
(* not outstanding panics the process (D5).                                *)
(***************************************************************************)
EXTENDS Integers, Sequences, FiniteSets, TLC

CONSTANTS N,          \* callers
          NT,         \* number of usable tags; NOTAG = NT
          MaxFaults,
          MaxRogue,   \* misbehaving peer replies allowed
          FixUnknown,
          OfferWatchesClosed, \* TRUE (the code): a caller still waiting to hand its request to the handle loop also
                          \* watches t.closed; FALSE: it polls it once before offering (why-it-matters configuration)
          CtxWriteCloses  \* FALSE (the code): a request whose own context has already ended when the handle loop
                          \* writes it fails alone (WriteFcall returns ctx.Err()); TRUE: the loop also shuts the
                          \* transport down on such a write error (why-it-matters configuration)

VARIABLES c,        \* caller -> [pc, tag, res]   pc: idle | offer | wait | ret ; res: "" | ok | err | closed | ctx | badtype
          outst,    \* handle loop: tag -> caller (0: free)
          hint,     \* last tag handed out
          hl,       \* handle loop pc: run | exited | crashed
          rd,       \* reader: [pc: read | offer | exited, tag, kind, src]
          net,      \* replies written by the peer, not yet read: sequence of [tag, kind, src]
          peer,     \* peer's view: tag -> caller whose request it holds unanswered (0: none)
          seen,     \* set of tags the peer saw while the same tag was still unanswered (ghost, must stay empty)
          down,     \* connection failed / session cancelled
          faults, rogue,
          got,      \* ghost: caller -> src of the reply it was handed (0 none)
          cx,       \* caller -> its own context has ended (the caller may not have noticed yet)
          selfclosed, \* ghost: the transport shut itself down without a connection failure / session cancel
          hw,       \* the handle loop is blocked in the write of this caller's request (0: it is not) - the loop writes
                    \* requests itself, so while the peer does not read, it takes neither requests nor replies
          stalled,  \* the peer has stopped reading
          act       \* output only: label of the last step
vars == <<c, outst, hint, hl, rd, net, peer, seen, down, faults, rogue, got, cx, selfclosed, hw, stalled, act>>
View == <<c, outst, hint, hl, rd, net, peer, seen, down, faults, rogue, got, cx, selfclosed, hw, stalled>>
A(a, i, k) == [a |-> a, i |-> i, k |-> k]

Callers == 1..N
Tags == 0..(NT - 1)
NOTAG == NT
NoMsg == [tag |-> NOTAG, kind |-> "none", src |-> 0]

\* allocateTag, literally: start after the hint, wrap at NOTAG, skip tags in use
RECURSIVE Probe(_, _, _)
Probe(m, h, n) == IF n = 0 THEN NOTAG
                  ELSE LET h2 == IF h + 1 >= NOTAG THEN 0 ELSE h + 1 IN
                       IF m[h2] = 0 THEN h2 ELSE Probe(m, h2, n - 1)
AllocTag(m, h) == IF \A t \in Tags : m[t] # 0 THEN NOTAG ELSE Probe(m, h, NT)

Init == /\ c = [i \in Callers |-> [pc |-> "idle", tag |-> NOTAG, res |-> ""]]
        /\ outst = [t \in Tags |-> 0] /\ hint = 0 /\ hl = "run"
        /\ rd = [pc |-> "read", tag |-> NOTAG, kind |-> "none", src |-> 0]
        /\ net = <<>> /\ peer = [t \in Tags |-> 0] /\ seen = {} /\ down = FALSE /\ faults = 0 /\ rogue = 0
        /\ got = [i \in Callers |-> 0] /\ cx = [i \in Callers |-> FALSE] /\ selfclosed = FALSE /\ hw = 0 /\ stalled = FALSE /\ act = A("init", 0, "")

Closed == hl # "run"          \* t.closed is closed when handle returns

Invoke(i) == /\ c[i].pc = "idle"
             /\ c' = [c EXCEPT ![i].pc = "offer"]
             /\ UNCHANGED <<outst, hint, hl, rd, net, peer, seen, down, faults, rogue, got, cx, selfclosed, hw, stalled>>
             /\ act' = A("invoke", i, "")

\* handle takes the request, allocates a tag and writes it (one critical section of the loop)
Dispatch(i) ==
  /\ hl = "run" /\ hw = 0 /\ c[i].pc = "offer"
  /\ LET t == AllocTag(outst, hint) IN
     IF t = NOTAG THEN   \* tag pool depleted: the call fails
       /\ c' = [c EXCEPT ![i] = [pc |-> "ret", tag |-> NOTAG, res |-> "err"]]
       /\ UNCHANGED <<outst, hint, peer, seen>>
     ELSE IF cx[i] THEN  \* the request's own context has ended: WriteFcall returns ctx.Err() without touching the
                         \* wire; the entry is removed, the error goes to the caller, nobody else is disturbed
       /\ c' = [c EXCEPT ![i] = [pc |-> "ret", tag |-> t, res |-> "ctx"]]
       /\ hint' = t /\ UNCHANGED <<outst, peer, seen>>
     ELSE IF down THEN   \* WriteFcall fails: entry removed, error to the caller
       /\ c' = [c EXCEPT ![i] = [pc |-> "ret", tag |-> t, res |-> "closed"]]
       /\ hint' = t /\ UNCHANGED <<outst, peer, seen>>
     ELSE IF stalled THEN   \* the peer is not reading: the write blocks, the loop with it (WriteDone continues)
       /\ outst' = [outst EXCEPT ![t] = i]
       /\ hint' = t
       /\ c' = [c EXCEPT ![i].pc = "wait", ![i].tag = t]
       /\ UNCHANGED <<peer, seen>>
     ELSE
       /\ outst' = [outst EXCEPT ![t] = i]
       /\ hint' = t
       /\ c' = [c EXCEPT ![i].pc = "wait", ![i].tag = t]
       /\ seen' = IF peer[t] # 0 THEN seen \cup {t} ELSE seen
       /\ peer' = [peer EXCEPT ![t] = i]
  /\ LET ctxwrite == cx[i] /\ AllocTag(outst, hint) # NOTAG IN
     /\ hl' = IF CtxWriteCloses /\ ctxwrite THEN "exited" ELSE hl
     /\ selfclosed' = (selfclosed \/ (CtxWriteCloses /\ ctxwrite /\ ~down))
  /\ hw' = IF AllocTag(outst, hint) # NOTAG /\ ~cx[i] /\ ~down /\ stalled THEN i ELSE 0
  /\ UNCHANGED <<rd, net, down, faults, rogue, got, cx, stalled>>
  /\ act' = A("dispatch", i, "")

\* the blocked request write ends: the peer reads on (the request reaches it), or the connection has failed
\* (the write fails: the table entry is removed and the error handed to the caller, if it still waits)
WriteDone ==
  /\ hl = "run" /\ hw # 0 /\ (~stalled \/ down)
  /\ LET i == hw
         t == c[i].tag IN
     IF down THEN
       /\ outst' = [outst EXCEPT ![t] = 0]
       /\ c' = IF c[i].pc = "wait" THEN [c EXCEPT ![i].pc = "ret", ![i].res = "closed"] ELSE c
       /\ UNCHANGED <<peer, seen>>
     ELSE
       /\ seen' = IF peer[t] # 0 THEN seen \cup {t} ELSE seen
       /\ peer' = [peer EXCEPT ![t] = i]
       /\ UNCHANGED <<c, outst>>
  /\ hw' = 0
  /\ UNCHANGED <<hint, hl, rd, net, down, faults, rogue, got, cx, selfclosed, stalled>>
  /\ act' = A("hl.written", hw, "")
PeerStall == /\ ~stalled /\ ~down /\ faults < MaxFaults
             /\ stalled' = TRUE /\ faults' = faults + 1
             /\ UNCHANGED <<c, outst, hint, hl, rd, net, peer, seen, down, rogue, got, cx, selfclosed, hw>>
             /\ act' = A("stall", 0, "")
PeerResume == /\ stalled /\ stalled' = FALSE
              /\ UNCHANGED <<c, outst, hint, hl, rd, net, peer, seen, down, faults, rogue, got, cx, selfclosed, hw>>
              /\ act' = A("resume", 0, "")

\* the peer answers a request it holds (any order); kind: ok | err | badtype
PeerReply(t, k) ==
  /\ peer[t] # 0 /\ ~down
  /\ net' = Append(net, [tag |-> t, kind |-> k, src |-> peer[t]])
  /\ peer' = [peer EXCEPT ![t] = 0]
  /\ UNCHANGED <<c, outst, hint, hl, rd, seen, down, faults, rogue, got, cx, selfclosed, hw, stalled>>
  /\ act' = A("reply", peer[t], k)
\* misbehaviour: a reply with a tag it does not hold (never seen, or already answered)
PeerRogue(t) ==
  /\ rogue < MaxRogue /\ peer[t] = 0 /\ ~down
  /\ rogue' = rogue + 1
  /\ net' = Append(net, [tag |-> t, kind |-> "ok", src |-> 0])
  /\ UNCHANGED <<c, outst, hint, hl, rd, peer, seen, down, faults, got, cx, selfclosed, hw, stalled>>
  /\ act' = A("rogue", 0, "")

ReaderRead == /\ rd.pc = "read" /\ net # <<>> /\ ~down
              /\ rd' = [pc |-> "offer", tag |-> Head(net).tag, kind |-> Head(net).kind, src |-> Head(net).src]
              /\ net' = Tail(net)
              /\ UNCHANGED <<c, outst, hint, hl, peer, seen, down, faults, rogue, got, cx, selfclosed, hw, stalled>>
              /\ act' = A("rd.read", 0, "")
\* read error / EOF: the reader calls t.close() -> shutdown -> handle returns
ReaderFail == /\ rd.pc = "read" /\ down
              /\ rd' = [rd EXCEPT !.pc = "exited"]
              /\ UNCHANGED <<c, outst, hint, hl, net, peer, seen, down, faults, rogue, got, cx, selfclosed, hw, stalled>>
              /\ act' = A("rd.fail", 0, "")
ReaderAbort == /\ rd.pc = "offer" /\ (Closed \/ down)
               /\ rd' = [rd EXCEPT !.pc = "exited"]
               /\ UNCHANGED <<c, outst, hint, hl, net, peer, seen, down, faults, rogue, got, cx, selfclosed, hw, stalled>>
               /\ act' = A("rd.abort", 0, "")

\* handle receives a reply from the reader
Deliver ==
  /\ hl = "run" /\ hw = 0 /\ rd.pc = "offer"
  /\ rd' = [pc |-> "read", tag |-> NOTAG, kind |-> "none", src |-> 0]
  /\ LET t == rd.tag IN
     IF outst[t] = 0 THEN
       /\ hl' = IF FixUnknown THEN "run" ELSE "crashed"
       /\ UNCHANGED <<c, outst, got>>
     ELSE LET i == outst[t] IN
       /\ outst' = [outst EXCEPT ![t] = 0]
       /\ UNCHANGED hl
       /\ IF c[i].pc = "wait"     \* the buffered response channel; the caller picks it up
            THEN /\ c' = [c EXCEPT ![i] = [pc |-> "ret", tag |-> t,
                                           res |-> CASE rd.kind = "ok" -> "ok" [] rd.kind = "err" -> "err" [] OTHER -> "badtype"]]
                 /\ got' = [got EXCEPT ![i] = rd.src]
            ELSE UNCHANGED <<c, got>>   \* abandoned call: the reply is dropped
  /\ UNCHANGED <<hint, net, peer, seen, down, faults, rogue, cx, selfclosed, hw, stalled>>
  /\ act' = A("deliver", IF outst[rd.tag] # 0 THEN outst[rd.tag] ELSE 0, "")

\* handle sees shutdown (reader exited) or the session context
HandleExit == /\ hl = "run" /\ hw = 0 /\ (rd.pc = "exited" \/ down)
              /\ hl' = "exited"
              /\ UNCHANGED <<c, outst, hint, rd, net, peer, seen, down, faults, rogue, got, cx, selfclosed, hw, stalled>>
              /\ act' = A("hl.exit", 0, "")

\* a caller blocked in send() sees t.closed
CallerClosed(i) == /\ c[i].pc \in (IF OfferWatchesClosed THEN {"offer", "wait"} ELSE {"wait"}) /\ Closed
                   /\ c' = [c EXCEPT ![i].pc = "ret", ![i].res = "closed"]
                   /\ UNCHANGED <<outst, hint, hl, rd, net, peer, seen, down, faults, rogue, got, cx, selfclosed, hw, stalled>>
                   /\ act' = A("closed", i, "")
\* the call's own context ends (cancel or deadline) ...
CallCtxDone(i) == /\ c[i].pc \in {"offer", "wait"} /\ ~cx[i] /\ faults < MaxFaults
                  /\ faults' = faults + 1
                  /\ cx' = [cx EXCEPT ![i] = TRUE]
                  /\ UNCHANGED <<c, outst, hint, hl, rd, net, peer, seen, down, rogue, got, selfclosed, hw, stalled>>
                  /\ act' = A("cancel", i, "")
\* ... and the caller, blocked in one of send()'s two selects, notices: it returns; its tag (if it has one)
\* stays outstanding until answered.  While still offering, the handle loop may take the request instead
\* (Dispatch with cx[i]): Go's select picks among ready cases at random.
CallCtxRet(i) == /\ c[i].pc \in {"offer", "wait"} /\ cx[i]
                 /\ c' = [c EXCEPT ![i].pc = "ret", ![i].res = "ctx"]
                 /\ UNCHANGED <<outst, hint, hl, rd, net, peer, seen, down, faults, rogue, got, cx, selfclosed, hw, stalled>>
                 /\ act' = A("ctxret", i, "")
\* connection failure or session cancel
ConnFail == /\ ~down /\ faults < MaxFaults
            /\ faults' = faults + 1 /\ down' = TRUE
            /\ UNCHANGED <<c, outst, hint, hl, rd, net, peer, seen, rogue, got, cx, selfclosed, hw, stalled>>
            /\ act' = A("fault", 0, "")

Next == \/ \E i \in Callers : Invoke(i) \/ Dispatch(i) \/ CallerClosed(i) \/ CallCtxDone(i) \/ CallCtxRet(i)
        \/ \E t \in Tags : (\E k \in {"ok", "err", "badtype"} : PeerReply(t, k)) \/ PeerRogue(t)
        \/ ReaderRead \/ ReaderFail \/ ReaderAbort \/ Deliver \/ HandleExit \/ ConnFail
        \/ WriteDone \/ PeerStall \/ PeerResume
Client == \/ \E i \in Callers : Dispatch(i) \/ CallerClosed(i) \/ CallCtxRet(i)
          \/ ReaderRead \/ ReaderFail \/ ReaderAbort \/ Deliver \/ HandleExit \/ WriteDone
Spec == Init /\ [][Next]_vars
FairSpec == Spec /\ WF_vars(Client)

\* ------------------------------------------------------------- properties
TypeOK == hl \in {"run", "exited", "crashed"} /\ \A i \in Callers : c[i].pc \in {"idle", "offer", "wait", "ret"}
\* C05: the reply a call is handed is the peer's answer to that call's own request
\* (against a peer that only answers requests it holds: an unsolicited reply sent ahead of a
\* request is indistinguishable from its answer for any client)
OwnReply == rogue = 0 => \A i \in Callers : got[i] # 0 => got[i] = i
\* C05: tags awaiting a reply are pairwise distinct and never NOTAG (also for abandoned calls)
TagsDistinct == rogue = 0 => seen = {}
NeverNotag == \A i \in Callers : c[i].pc = "wait" => c[i].tag \in Tags
\* C12: nothing the peer sends crashes the client
NeverCrashes == hl # "crashed"
\* C12: a call reports success only for a reply handed to it
OkHasReply == \A i \in Callers : c[i].res = "ok" => (got[i] # 0 \/ rogue > 0)
\* C12: a call whose own context ends disturbs no other call: the transport never shuts down on its own, and a
\* call is told "closed" only after a connection failure / session cancel (or a crash, see NeverCrashes)
NoSelfClose == ~selfclosed
ClosedOnlyAfterFault == \A i \in Callers : c[i].res = "closed" => (down \/ hl = "crashed")
\* liveness, C12: once the connection is down every started call returns
AllReturnAfterDown == down ~> (\A i \in Callers : c[i].pc \in {"idle", "ret"})
=============================================================================
