CONSTANTS
  N = 5
  NT = 3
  MaxFaults = 2
  MaxRogue = 1
  FixUnknown = TRUE
  CtxWriteCloses = FALSE
  OfferWatchesClosed = TRUE
SPECIFICATION Spec
ACTION_CONSTRAINT Emit
CHECK_DEADLOCK FALSE
