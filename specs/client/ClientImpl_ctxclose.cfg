CONSTANTS
  N = 3
  NT = 2
  MaxFaults = 1
  MaxRogue = 1
  FixUnknown = TRUE
  CtxWriteCloses = TRUE
  OfferWatchesClosed = TRUE
SPECIFICATION Spec
INVARIANTS TypeOK NoSelfClose ClosedOnlyAfterFault OwnReply TagsDistinct NeverNotag NeverCrashes OkHasReply

VIEW View
CHECK_DEADLOCK FALSE
