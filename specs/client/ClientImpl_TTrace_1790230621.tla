---- MODULE ClientImpl_TTrace_1790230621 ----
EXTENDS Sequences, TLCExt, Toolbox, ClientImpl, Naturals, TLC

_expression ==
    LET ClientImpl_TEExpression == INSTANCE ClientImpl_TEExpression
    IN ClientImpl_TEExpression!expression
----

_trace ==
    LET ClientImpl_TETrace == INSTANCE ClientImpl_TETrace
    IN ClientImpl_TETrace!trace
----

_inv ==
    ~(
        TLCGet("level") = Len(_TETrace)
        /\
        rogue = (0)
        /\
        c = (<<[tag |-> 2, pc |-> "offer", res |-> ""], [tag |-> 2, pc |-> "idle", res |-> ""], [tag |-> 2, pc |-> "idle", res |-> ""]>>)
        /\
        hl = ("run")
        /\
        faults = (1)
        /\
        got = (<<0, 0, 0>>)
        /\
        down = (FALSE)
        /\
        seen = ({})
        /\
        hw = ()
        /\
        rd = ([tag |-> 2, kind |-> "none", src |-> 0, pc |-> "read"])
        /\
        act = ([a |-> "cancel", i |-> 1, k |-> ""])
        /\
        cx = (<<TRUE, FALSE, FALSE>>)
        /\
        selfclosed = (FALSE)
        /\
        peer = ((0 :> 0 @@ 1 :> 0))
        /\
        stalled = ()
        /\
        hint = (0)
        /\
        net = (<<>>)
        /\
        outst = ((0 :> 0 @@ 1 :> 0))
    )
----

_init ==
    /\ stalled = _TETrace[1].stalled
    /\ hint = _TETrace[1].hint
    /\ c = _TETrace[1].c
    /\ rogue = _TETrace[1].rogue
    /\ cx = _TETrace[1].cx
    /\ selfclosed = _TETrace[1].selfclosed
    /\ faults = _TETrace[1].faults
    /\ net = _TETrace[1].net
    /\ rd = _TETrace[1].rd
    /\ outst = _TETrace[1].outst
    /\ peer = _TETrace[1].peer
    /\ hl = _TETrace[1].hl
    /\ act = _TETrace[1].act
    /\ got = _TETrace[1].got
    /\ hw = _TETrace[1].hw
    /\ down = _TETrace[1].down
    /\ seen = _TETrace[1].seen
----

_next ==
    /\ \E i,j \in DOMAIN _TETrace:
        /\ \/ /\ j = i + 1
              /\ i = TLCGet("level")
        /\ stalled  = _TETrace[i].stalled
        /\ stalled' = _TETrace[j].stalled
        /\ hint  = _TETrace[i].hint
        /\ hint' = _TETrace[j].hint
        /\ c  = _TETrace[i].c
        /\ c' = _TETrace[j].c
        /\ rogue  = _TETrace[i].rogue
        /\ rogue' = _TETrace[j].rogue
        /\ cx  = _TETrace[i].cx
        /\ cx' = _TETrace[j].cx
        /\ selfclosed  = _TETrace[i].selfclosed
        /\ selfclosed' = _TETrace[j].selfclosed
        /\ faults  = _TETrace[i].faults
        /\ faults' = _TETrace[j].faults
        /\ net  = _TETrace[i].net
        /\ net' = _TETrace[j].net
        /\ rd  = _TETrace[i].rd
        /\ rd' = _TETrace[j].rd
        /\ outst  = _TETrace[i].outst
        /\ outst' = _TETrace[j].outst
        /\ peer  = _TETrace[i].peer
        /\ peer' = _TETrace[j].peer
        /\ hl  = _TETrace[i].hl
        /\ hl' = _TETrace[j].hl
        /\ act  = _TETrace[i].act
        /\ act' = _TETrace[j].act
        /\ got  = _TETrace[i].got
        /\ got' = _TETrace[j].got
        /\ hw  = _TETrace[i].hw
        /\ hw' = _TETrace[j].hw
        /\ down  = _TETrace[i].down
        /\ down' = _TETrace[j].down
        /\ seen  = _TETrace[i].seen
        /\ seen' = _TETrace[j].seen

\* Uncomment the ASSUME below to write the states of the error trace
\* to the given file in Json format. Note that you can pass any tuple
\* to `JsonSerialize`. For example, a sub-sequence of _TETrace.
    \* ASSUME
    \*     LET J == INSTANCE Json
    \*         IN J!JsonSerialize("ClientImpl_TTrace_1790230621.json", _TETrace)

=============================================================================

 Note that you can extract this module `ClientImpl_TEExpression`
  to a dedicated file to reuse `expression` (the module in the 
  dedicated `ClientImpl_TEExpression.tla` file takes precedence 
  over the module `ClientImpl_TEExpression` below).

---- MODULE ClientImpl_TEExpression ----
EXTENDS Sequences, TLCExt, Toolbox, ClientImpl, Naturals, TLC

expression == 
    [
        \* To hide variables of the `ClientImpl` spec from the error trace,
        \* remove the variables below.  The trace will be written in the order
        \* of the fields of this record.
        stalled |-> stalled
        ,hint |-> hint
        ,c |-> c
        ,rogue |-> rogue
        ,cx |-> cx
        ,selfclosed |-> selfclosed
        ,faults |-> faults
        ,net |-> net
        ,rd |-> rd
        ,outst |-> outst
        ,peer |-> peer
        ,hl |-> hl
        ,act |-> act
        ,got |-> got
        ,hw |-> hw
        ,down |-> down
        ,seen |-> seen
        
        \* Put additional constant-, state-, and action-level expressions here:
        \* ,_stateNumber |-> _TEPosition
        \* ,_stalledUnchanged |-> stalled = stalled'
        
        \* Format the `stalled` variable as Json value.
        \* ,_stalledJson |->
        \*     LET J == INSTANCE Json
        \*     IN J!ToJson(stalled)
        
        \* Lastly, you may build expressions over arbitrary sets of states by
        \* leveraging the _TETrace operator.  For example, this is how to
        \* count the number of times a spec variable changed up to the current
        \* state in the trace.
        \* ,_stalledModCount |->
        \*     LET F[s \in DOMAIN _TETrace] ==
        \*         IF s = 1 THEN 0
        \*         ELSE IF _TETrace[s].stalled # _TETrace[s-1].stalled
        \*             THEN 1 + F[s-1] ELSE F[s-1]
        \*     IN F[_TEPosition - 1]
    ]

=============================================================================



Parsing and semantic processing can take forever if the trace below is long.
 In this case, it is advised to uncomment the module below to deserialize the
 trace from a generated binary file.

\*
\*---- MODULE ClientImpl_TETrace ----
\*EXTENDS IOUtils, ClientImpl, TLC
\*
\*trace == IODeserialize("ClientImpl_TTrace_1790230621.bin", TRUE)
\*
\*=============================================================================
\*

---- MODULE ClientImpl_TETrace ----
EXTENDS ClientImpl, TLC

trace == 
    <<
    ([rogue |-> 0,c |-> <<[tag |-> 2, pc |-> "idle", res |-> ""], [tag |-> 2, pc |-> "idle", res |-> ""], [tag |-> 2, pc |-> "idle", res |-> ""]>>,hl |-> "run",faults |-> 0,got |-> <<0, 0, 0>>,down |-> FALSE,seen |-> {},hw |-> 0,rd |-> [tag |-> 2, kind |-> "none", src |-> 0, pc |-> "read"],act |-> [a |-> "init", i |-> 0, k |-> ""],cx |-> <<FALSE, FALSE, FALSE>>,selfclosed |-> FALSE,peer |-> (0 :> 0 @@ 1 :> 0),stalled |-> FALSE,hint |-> 0,net |-> <<>>,outst |-> (0 :> 0 @@ 1 :> 0)]),
    ([rogue |-> 0,c |-> <<[tag |-> 2, pc |-> "offer", res |-> ""], [tag |-> 2, pc |-> "idle", res |-> ""], [tag |-> 2, pc |-> "idle", res |-> ""]>>,hl |-> "run",faults |-> 0,got |-> <<0, 0, 0>>,down |-> FALSE,seen |-> {},hw |-> 0,rd |-> [tag |-> 2, kind |-> "none", src |-> 0, pc |-> "read"],act |-> [a |-> "invoke", i |-> 1, k |-> ""],cx |-> <<FALSE, FALSE, FALSE>>,selfclosed |-> FALSE,peer |-> (0 :> 0 @@ 1 :> 0),stalled |-> FALSE,hint |-> 0,net |-> <<>>,outst |-> (0 :> 0 @@ 1 :> 0)]),
    ([rogue |-> 0,c |-> <<[tag |-> 2, pc |-> "offer", res |-> ""], [tag |-> 2, pc |-> "idle", res |-> ""], [tag |-> 2, pc |-> "idle", res |-> ""]>>,hl |-> "run",faults |-> 1,got |-> <<0, 0, 0>>,down |-> FALSE,seen |-> {},hw |-> ,rd |-> [tag |-> 2, kind |-> "none", src |-> 0, pc |-> "read"],act |-> [a |-> "cancel", i |-> 1, k |-> ""],cx |-> <<TRUE, FALSE, FALSE>>,selfclosed |-> FALSE,peer |-> (0 :> 0 @@ 1 :> 0),stalled |-> ,hint |-> 0,net |-> <<>>,outst |-> (0 :> 0 @@ 1 :> 0)])
    >>
----


=============================================================================

---- CONFIG ClientImpl_TTrace_1790230621 ----
CONSTANTS
    N = 3
    NT = 2
    MaxFaults = 1
    MaxRogue = 1
    FixUnknown = TRUE
    CtxWriteCloses = FALSE

INVARIANT
    _inv

CHECK_DEADLOCK
    \* CHECK_DEADLOCK off because of PROPERTY or INVARIANT above.
    FALSE

INIT
    _init

NEXT
    _next

CONSTANT
    _TETrace <- _trace

ALIAS
    _expression
=============================================================================
\* Generated on Thu Sep 24 06:17:12 UTC 2026