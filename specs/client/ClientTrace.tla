----------------------------- MODULE ClientTrace -----------------------------
(***************************************************************************)
(* Trace validation for the client engine (C05, C12): the contract folded  *)
(* over the observable events of runs of the real p9p.CSession against a   *)
(* scripted peer.  Events: start(i) a call is issued (its fid is i),       *)
(* preq(tag, i) the peer read the request of call i, preply(tag, kind, i)  *)
(* the peer writes a reply (kind ok / err / badtype; rogue = a reply the   *)
(* peer was not asked for), cancel(i), fault, ret(i, res, src) the call    *)
(* returned (src = the call named by the reply's payload), end.            *)
(***************************************************************************)
EXTENDS Integers, Sequences, FiniteSets, TLC, Json, IOUtils

Tr == ndJsonDeserialize(IOEnv.TRACE)
NOTAG == 65535

VARIABLES l, held, started, returned, replied, cancelled, faulted, rogue, bad, tr
vars == <<l, held, started, returned, replied, cancelled, faulted, rogue, bad, tr>>

Init == /\ l = 1 /\ held = {} /\ started = {} /\ returned = {} /\ replied = {} /\ cancelled = {}
        /\ faulted = FALSE /\ rogue = 0 /\ bad = "" /\ tr = 1

Flag(why) == IF bad = "" THEN why ELSE bad
Rep(i) == IF \E r \in replied : r[1] = i THEN (CHOOSE r \in replied : r[1] = i)[2] ELSE "none"

Apply(e) ==
  CASE e.e = "start" ->
         /\ started' = started \cup {e.i}
         /\ bad' = IF e.i \in started THEN Flag("harness-reused-call-id") ELSE bad
         /\ UNCHANGED <<held, returned, replied, cancelled, faulted, rogue>>
    [] e.e = "preq" ->
         /\ held' = held \cup {<<e.tag, e.i>>}
         /\ bad' = IF e.tag = NOTAG THEN Flag("notag-used-for-request")
                   ELSE IF rogue = 0 /\ \E h \in held : h[1] = e.tag THEN Flag("tag-reused-while-outstanding")
                   ELSE bad
         /\ UNCHANGED <<started, returned, replied, cancelled, faulted, rogue>>
    [] e.e = "preply" ->
         /\ IF e.kind = "rogue" THEN rogue' = rogue + 1 /\ UNCHANGED <<held, replied>>
            ELSE /\ held' = held \ {<<e.tag, e.i>>}
                 \* (bulk calls of the tag-wrap scenario are not tracked call by call: the harness checks their results itself)
                 /\ replied' = IF e.i \in started THEN replied \cup {<<e.i, e.kind>>} ELSE replied
                 /\ UNCHANGED rogue
         /\ UNCHANGED <<started, returned, cancelled, faulted, bad>>
    [] e.e = "cancel" -> cancelled' = cancelled \cup {e.i} /\ UNCHANGED <<held, started, returned, replied, faulted, rogue, bad>>
    [] e.e = "fault" -> faulted' = TRUE /\ UNCHANGED <<held, started, returned, replied, cancelled, rogue, bad>>
    [] e.e = "ret" ->
         \* finished calls are forgotten (traces of the tag-wrap scenario have >65535 calls): a second
         \* return of the same call shows up as a return of a call that is not open
         /\ started' = started \ {e.i}
         /\ replied' = {r \in replied : r[1] # e.i}
         /\ cancelled' = cancelled \ {e.i}
         /\ bad' =
              IF e.i \notin started THEN Flag("call-returned-twice")
              ELSE IF e.res = "ok" /\ rogue = 0 /\ e.src # e.i THEN Flag("reply-delivered-to-wrong-call")
              ELSE IF e.res = "ok" /\ rogue = 0 /\ Rep(e.i) # "ok" THEN Flag("success-without-own-reply")
              ELSE IF e.res = "err" /\ rogue = 0 /\ ~faulted /\ (e.src # e.i \/ Rep(e.i) # "err") THEN Flag("error-reply-delivered-to-wrong-call")
              ELSE IF e.res = "badtype" /\ rogue = 0 /\ Rep(e.i) # "badtype" THEN Flag("unexpected-message-error-without-cause")
              ELSE IF e.res = "ctx" /\ e.i \notin cancelled /\ ~faulted THEN Flag("context-error-without-cancel")
              ELSE IF e.res \in {"closed", "other"} /\ ~faulted /\ rogue = 0 THEN Flag("spurious-failure")
              ELSE IF Rep(e.i) = "badtype" /\ e.res = "ok" THEN Flag("wrong-typed-reply-delivered-as-success")
              ELSE bad
         /\ UNCHANGED <<held, returned, faulted, rogue>>
    [] e.e = "end" ->
         /\ bad' = IF started # {} THEN Flag("call-never-returned") ELSE bad
         /\ UNCHANGED <<held, started, returned, replied, cancelled, faulted, rogue>>
    [] OTHER -> UNCHANGED <<held, started, returned, replied, cancelled, faulted, rogue, bad>>

Next ==
  /\ l <= Len(Tr)
  /\ l' = l + 1
  /\ IF Tr[l].e = "reset"
       THEN /\ (bad = "" \/ PrintT(ToJson([tr |-> tr, run |-> Tr[l].run, bad |-> bad])))
            /\ held' = {} /\ started' = {} /\ returned' = {} /\ replied' = {} /\ cancelled' = {}
            /\ faulted' = FALSE /\ rogue' = 0 /\ bad' = "" /\ tr' = tr + 1
       ELSE Apply(Tr[l]) /\ tr' = tr
Spec == Init /\ [][Next]_vars

ContractHolds == bad = ""
Accepted == TLCGet("stats").diameter - 1 = Len(Tr)
=============================================================================
