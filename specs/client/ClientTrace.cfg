SPECIFICATION Spec
INVARIANT ContractHolds
POSTCONDITION Accepted
CHECK_DEADLOCK FALSE
