CONSTANTS
  N = 2
  NT = 2
  MaxFaults = 1
  MaxRogue = 1
  FixUnknown = TRUE
  CtxWriteCloses = FALSE
  OfferWatchesClosed = FALSE
SPECIFICATION FairSpec
INVARIANTS TypeOK NoSelfClose ClosedOnlyAfterFault OwnReply TagsDistinct NeverNotag NeverCrashes OkHasReply
PROPERTIES AllReturnAfterDown
VIEW View
CHECK_DEADLOCK FALSE
