---------------------------- MODULE ChanVectors ----------------------------
(* Evaluates ChanWrite!WOut on concrete (class, frame size, data length,   *)
(* count) tuples read from a file, for every msize within Delta bytes of   *)
(* the message's own frame size (clipped to [24, 2^20]) plus anchor values *)
(* and both context states; prints the expected outcome of each write.     *)
EXTENDS Integers, Sequences, FiniteSets, TLC, Json, IOUtils
CONSTANTS MaxMsize, MaxSize, Delta
VARIABLES msize, wire, lastErr, nops
INSTANCE ChanWrite

In == ndJsonDeserialize(IOEnv.VECIN)
Clip(m) == IF m < 24 THEN 24 ELSE IF m > 1048576 THEN 1048576 ELSE m
MsizesFor(S) == {Clip(S + d) : d \in (0 - Delta)..Delta} \cup {24, 65536, 1048576}

ASSUME \A i \in 1..Len(In) : \A m \in MsizesFor(In[i].S) : \A live \in BOOLEAN :
         PrintT(ToJson([i |-> In[i].i, msize |-> m, live |-> live,
                        o |-> WOut(In[i].cls, In[i].S, In[i].dlen, In[i].count, m, live)]))
VSpec == Init /\ [][FALSE]_vars
=============================================================================
