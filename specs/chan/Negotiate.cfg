CONSTANTS
  Own = 40
  RvSize = 19
  MaxP = 63
SPECIFICATION Spec
INVARIANTS ServerNeverExceeds ClientNeverExceeds Agreement NoDispatchBeforeAccept RefusedMeansNothing
CHECK_DEADLOCK FALSE
