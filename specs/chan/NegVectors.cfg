CONSTANTS
  Own = 65536
  RvSize = 19
  MaxP = 0
SPECIFICATION NSpec
CHECK_DEADLOCK FALSE
