----------------------------- MODULE ChanWrite -----------------------------
(***************************************************************************)
(* C02: what writing a message to a channel with a given msize does.       *)
(* Sizes are frame sizes (4-byte length prefix included).  From the        *)
(* property text and the 9P I/O header sizes derived from Wire9P:          *)
(*   Twrite frame = 23 + len(data)     Rread frame = 11 + len(data)        *)
(*   Tread frame  = 23                                                     *)
(* A cancelled context writes nothing.  A Twrite that is too long is       *)
(* shortened so that its frame is exactly msize (data becomes a prefix);   *)
(* a Tread's count is lowered to msize - 11 so the largest permitted reply *)
(* fits; every other message goes out unmodified or not at all, with the   *)
(* error reporting the excess.                                             *)
(*                                                                         *)
(* Two uses: (1) a small state machine over a scaled instance that TLC     *)
(* explores exhaustively (several writes and SetMSize on one channel);     *)
(* (2) WOut is evaluated by TLC on concrete (class, size, msize) tuples to *)
(* give the expected outcome of real WriteFcall calls (ChanVectors.tla).   *)
(***************************************************************************)
EXTENDS Integers, Sequences, TLC

HdrTwrite == 23
HdrRread == 11
MinMsize == 24

Min(a, b) == IF a < b THEN a ELSE b

\* count: [big |-> BOOLEAN, v |-> Nat]; big = a value >= 2^31 (beyond any msize)
ClampCount(c, msize) == IF c.big \/ c.v > msize - HdrRread THEN [big |-> FALSE, v |-> msize - HdrRread] ELSE c

\* outcome of writing a message of class cls ("Twrite" | "Tread" | "other") whose unmodified frame has S bytes
WOut(cls, S, dlen, count, msize, live) ==
  LET none == [emit |-> FALSE, total |-> 0, dlen |-> 0, count |-> [big |-> FALSE, v |-> 0], over |-> 0, ctx |-> FALSE] IN
  IF ~live THEN [none EXCEPT !.ctx = TRUE]
  ELSE CASE cls = "Twrite" ->
              IF S <= msize THEN [none EXCEPT !.emit = TRUE, !.total = S, !.dlen = dlen]
              ELSE IF dlen >= S - msize THEN [none EXCEPT !.emit = TRUE, !.total = msize, !.dlen = dlen - (S - msize)]
              ELSE [none EXCEPT !.over = S - msize]
         [] cls = "Tread" ->
              IF S <= msize THEN [none EXCEPT !.emit = TRUE, !.total = S, !.count = ClampCount(count, msize)]
              ELSE [none EXCEPT !.over = S - msize]
         [] OTHER ->
              IF S <= msize THEN [none EXCEPT !.emit = TRUE, !.total = S] ELSE [none EXCEPT !.over = S - msize]

\* ------------------------------------------------ scaled state machine
CONSTANTS MaxMsize, MaxSize
VARIABLES msize, wire, lastErr, nops
vars == <<msize, wire, lastErr, nops>>

Init == msize \in MinMsize..MaxMsize /\ wire = <<>> /\ lastErr = 0 /\ nops = 0

Write(cls, S, dlen, count, live) ==
  LET o == WOut(cls, S, dlen, count, msize, live) IN
  /\ nops < 2
  /\ nops' = nops + 1
  /\ wire' = IF o.emit THEN Append(wire, [cls |-> cls, total |-> o.total, dlen |-> o.dlen, count |-> o.count, S |-> S, odlen |-> dlen, m |-> msize]) ELSE wire
  /\ lastErr' = IF o.ctx THEN -1 ELSE o.over
  /\ UNCHANGED msize

SetMSize(m) == nops < 2 /\ msize' = m /\ UNCHANGED <<wire, lastErr, nops>>

Next == \/ \E dlen \in 0..(MaxSize - HdrTwrite), live \in BOOLEAN : Write("Twrite", HdrTwrite + dlen, dlen, [big |-> FALSE, v |-> 0], live)
        \/ \E c \in 0..MaxSize, live \in BOOLEAN : Write("Tread", 23, 0, [big |-> FALSE, v |-> c], live)
        \/ \E live \in BOOLEAN : Write("Tread", 23, 0, [big |-> TRUE, v |-> 0], live)
        \/ \E S \in 7..MaxSize, live \in BOOLEAN : Write("other", S, 0, [big |-> FALSE, v |-> 0], live)
        \/ \E m \in MinMsize..MaxMsize : SetMSize(m)
Spec == Init /\ [][Next]_vars

\* every emitted frame fits the msize in force when it was written, and is complete
FramesFit == \A i \in 1..Len(wire) : wire[i].total <= wire[i].m /\ wire[i].total >= 7
\* a shortened Twrite is exactly msize long and keeps a prefix of the data; others are unmodified
TwriteExact == \A i \in 1..Len(wire) : wire[i].cls = "Twrite" =>
                 /\ wire[i].total = HdrTwrite + wire[i].dlen
                 /\ wire[i].dlen <= wire[i].odlen
                 /\ (wire[i].S > wire[i].m => wire[i].total = wire[i].m)
                 /\ (wire[i].S <= wire[i].m => wire[i].dlen = wire[i].odlen)
\* the largest reply a forwarded Tread permits fits
TreadReplyFits == \A i \in 1..Len(wire) : wire[i].cls = "Tread" => ~wire[i].count.big /\ HdrRread + wire[i].count.v <= wire[i].m
OthersUnmodified == \A i \in 1..Len(wire) : wire[i].cls = "other" => wire[i].total = wire[i].S
\* an error means nothing was written (action property), and reports a positive excess
ErrorWritesNothing == [][lastErr' # 0 /\ nops' # nops => wire' = wire]_vars
ExcessPositive == lastErr >= -1
=============================================================================
