CONSTANTS
  MaxFrames = 3
SPECIFICATION Spec
INVARIANTS NeverPanics OverflowExact
CHECK_DEADLOCK FALSE
