---------------------------- MODULE ChanReadSeqs ----------------------------
(* All frame sequences up to MaxFrames with the expected outcome per read. *)
EXTENDS ChanRead, Json
RECURSIVE Expect(_, _)
Expect(s, isdead) == IF s = <<>> THEN <<>>
                     ELSE <<IF isdead THEN [k |-> "err", over |-> 0] ELSE ROut(Head(s))>> \o Expect(Tail(s), isdead \/ Head(s) = "cut")
Seqs == UNION {[1..n -> Classes] : n \in 1..MaxFrames}
ASSUME \A s \in Seqs : PrintT(ToJson([frames |-> s, expect |-> Expect(s, FALSE)]))
=============================================================================
