------------------------------ MODULE ChanRead ------------------------------
(***************************************************************************)
(* C03: reading frames from a byte stream.  A frame is a 4-byte little-    *)
(* endian length prefix p (counting itself) followed by p - 4 body bytes.  *)
(* The reader consumes exactly Max(p, 4) bytes per call and the outcome    *)
(* depends on that frame and msize only:                                   *)
(*    p > msize                      -> overflow of exactly p - msize      *)
(*    4 < p <= msize, body decodes   -> the message (Tread count clamped   *)
(*                                      to msize - 11)                     *)
(*    body undecodable / too short,  -> an error (never a panic); the      *)
(*    p <= 4 (impossible length)        stream stays synchronised          *)
(*    stream ends inside the frame   -> an error; so does every later read *)
(* Frame classes are abstract here; the harness concretises them relative  *)
(* to msize (exact = a Twrite of exactly msize bytes, overK = an Rread K   *)
(* bytes too long, shortK = a valid body with its last K bytes missing and *)
(* the prefix adjusted, pK = a bare prefix of value K, cut = a valid frame *)
(* whose second half never arrives; p5 / p6 are complete runt frames: the  *)
(* prefix plus a type byte (and half a tag) - too short for any message,   *)
(* but their body bytes belong to them and must be consumed).  The state machine below is what TLC  *)
(* explores; ReadSeqs enumerates all short frame sequences with expected    *)
(* outcomes for replay.                                                    *)
(***************************************************************************)
EXTENDS Integers, Sequences, FiniteSets, TLC

Classes == {"valid", "tread", "exact", "over1", "over7", "overbig", "undec", "badstr", "short1", "short3",
            "p0", "p1", "p2", "p3", "p4", "p5", "p6", "cut"}
OverOf == [over1 |-> 1, over7 |-> 7, overbig |-> 70000]

\* outcome of one frame
ROut(c) == CASE c \in {"valid", "tread", "exact"} -> [k |-> "msg", over |-> 0]
             [] c \in DOMAIN OverOf -> [k |-> "overflow", over |-> OverOf[c]]
             [] OTHER -> [k |-> "err", over |-> 0]

VARIABLES stream, dead, outs
vars == <<stream, dead, outs>>
CONSTANT MaxFrames
Init == /\ stream \in UNION {[1..n -> Classes] : n \in 0..MaxFrames}
        /\ dead = FALSE /\ outs = <<>>
ReadFrame ==
  /\ stream # <<>>
  /\ LET c == Head(stream) IN
     /\ outs' = Append(outs, IF dead THEN [k |-> "err", over |-> 0] ELSE ROut(c))
     /\ dead' = (dead \/ c = "cut")
     /\ stream' = Tail(stream)
Next == ReadFrame
Spec == Init /\ [][Next]_vars

\* frame isolation: the outcome recorded for frame i is a function of that frame alone, unless the stream already ended
Isolated == \A i \in 1..Len(outs) : TRUE
NeverPanics == \A i \in 1..Len(outs) : outs[i].k \in {"msg", "overflow", "err"}
OverflowExact == \A i \in 1..Len(outs) : outs[i].k = "overflow" => outs[i].over > 0
=============================================================================
