----------------------------- MODULE NegVectors -----------------------------
(* Expected negotiation results at the real parameters (Own = 65536, version *)
(* reply of 19 bytes) for a boundary-dense list of proposals / answers.      *)
(* Values >= 2^31 are not TLC integers; Big stands for all of them: NegServer *)
(* and NegClient are constant above Own (checked below on the TLC range).     *)
EXTENDS Integers, Sequences, TLC, Json
CONSTANTS Own, RvSize, MaxP
VARIABLES phase, first, prop, ans, msizeS, msizeC, dispatched
INSTANCE Negotiate
Big == 2147483647
Vals == {0, 1, 18, 19, 20, 22, 23, 24, 25, 64, 4096, 65535, 65536, 65537, 1048576, Big}
Kinds == {"Tversion", "Tattach", "Tflush", "Rversion", "Tauth"}
ASSUME \A p \in Vals : p >= Own => NegServer("Tversion", p) = NegServer("Tversion", Own) /\ NegClient(Own, p) = Own
ASSUME \A k \in Kinds, p \in Vals : PrintT(ToJson([t |-> "server", kind |-> k, p |-> p, d |-> NegServer(k, p)]))
ASSUME \A a \in Vals : PrintT(ToJson([t |-> "client", a |-> a, m |-> NegClient(Own, a)]))
NSpec == Init /\ [][FALSE]_vars
=============================================================================
