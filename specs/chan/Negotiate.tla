----------------------------- MODULE Negotiate -----------------------------
(***************************************************************************)
(* C10: version negotiation (version.go) and what both ends do with the    *)
(* result.  The client proposes msize p; the server (own maximum Own)      *)
(* requires the first message to be Tversion, answers Min(p, Own) iff the  *)
(* Rversion frame (RvSize bytes) fits in that msize, and dispatches        *)
(* nothing before.  The client adopts Min(p, a) for an answer a.  After    *)
(* the handshake each end writes with ChanWrite semantics and reads with   *)
(* ChanRead semantics at its adopted msize.                                *)
(* Scaled instance: Own and the proposal / answer range are small; the     *)
(* real values (Own = 65536, p, a up to 2^32 - 1) are exercised by the     *)
(* harness with the expectations NegServer / NegClient computed by TLC.    *)
(***************************************************************************)
EXTENDS Integers, Sequences, TLC

CONSTANTS Own,      \* the server's own maximum (and the client's proposal when it is the real client)
          RvSize,   \* frame size of the version reply (19 for "9P2000")
          MaxP      \* proposals / answers range over 0..MaxP

Min(a, b) == IF a < b THEN a ELSE b

\* the server's decision for a first message of kind k proposing p
NegServer(k, p) ==
  IF k # "Tversion" THEN [accept |-> FALSE, msize |-> 0, reply |-> FALSE]
  ELSE LET m == Min(p, Own) IN
       IF RvSize <= m THEN [accept |-> TRUE, msize |-> m, reply |-> TRUE]
       ELSE [accept |-> FALSE, msize |-> m, reply |-> FALSE]
\* the client's adoption for answer a to proposal p
NegClient(p, a) == Min(p, a)

VARIABLES phase, first, prop, ans, msizeS, msizeC, dispatched
vars == <<phase, first, prop, ans, msizeS, msizeC, dispatched>>

Init == /\ phase = "start" /\ first \in {"Tversion", "Tattach", "Tflush", "Rversion"} /\ prop \in 0..MaxP
        /\ ans = 0 /\ msizeS = Own /\ msizeC = prop /\ dispatched = 0
SFirst ==
  /\ phase = "start"
  /\ LET d == NegServer(first, prop) IN
     /\ msizeS' = IF first = "Tversion" THEN d.msize ELSE msizeS
     /\ ans' = IF d.reply THEN d.msize ELSE 0
     /\ phase' = IF d.accept THEN "replied" ELSE "refused"
  /\ UNCHANGED <<first, prop, msizeC, dispatched>>
\* a real peer relays the answer; a hostile / buggy server may answer anything
CAdopt(a) ==
  /\ phase = "replied"
  /\ msizeC' = NegClient(prop, a)
  /\ phase' = IF a = ans THEN "session" ELSE "session-lied"
  /\ UNCHANGED <<first, prop, ans, msizeS, dispatched>>
Dispatch ==
  /\ phase \in {"session", "session-lied"} /\ dispatched < 1
  /\ dispatched' = dispatched + 1
  /\ UNCHANGED <<phase, first, prop, ans, msizeS, msizeC>>
Next == SFirst \/ (\E a \in 0..MaxP : CAdopt(a)) \/ Dispatch
Spec == Init /\ [][Next]_vars

ServerNeverExceeds == phase \in {"replied", "session", "session-lied"} => (ans <= prop /\ ans <= Own /\ ans >= RvSize)
ClientNeverExceeds == msizeC <= prop
Agreement == phase = "session" => (msizeC = msizeS /\ msizeC = Min(prop, Own))
NoDispatchBeforeAccept == dispatched > 0 => phase \in {"session", "session-lied"}
RefusedMeansNothing == phase = "refused" => dispatched = 0
=============================================================================
