CONSTANTS
  MaxMsize = 40
  MaxSize = 60
SPECIFICATION Spec
INVARIANTS FramesFit TwriteExact TreadReplyFits OthersUnmodified ExcessPositive
PROPERTIES ErrorWritesNothing
CHECK_DEADLOCK FALSE
