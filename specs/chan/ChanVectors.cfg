CONSTANTS
  MaxMsize = 24
  MaxSize = 24
  Delta = 40
SPECIFICATION VSpec
CHECK_DEADLOCK FALSE
