CONSTANTS
  Sizes = {50, 51, 57, 100}
  MaxEntries = 4
  Counts = {100, 101, 149, 207, 5000}
  MaxReads = 5
  WithIterFail = FALSE
SPECIFICATION Spec
INVARIANTS OffsetIsPrefix WholeAndBounded FetchedCoversDelivered
PROPERTIES Progress EmptyAtEnd
VIEW View
ACTION_CONSTRAINT Emit
CHECK_DEADLOCK FALSE
