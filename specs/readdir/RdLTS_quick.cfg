CONSTANTS
  Sizes = {50, 57, 100}
  MaxEntries = 3
  Counts = {100, 101, 157, 5000}
  MaxReads = 4
  WithIterFail = TRUE
SPECIFICATION Spec
INVARIANTS OffsetIsPrefix WholeAndBounded FetchedCoversDelivered
PROPERTIES Progress EmptyAtEnd
VIEW View
ACTION_CONSTRAINT Emit
CHECK_DEADLOCK FALSE
