------------------------------- MODULE Readdir -------------------------------
(***************************************************************************)
(* C17: reading a directory through p9p.Readdir.  A listing is a sequence  *)
(* of entries with encoded sizes (bytes); the underlying iterator hands    *)
(* them out in arbitrary non-empty batches.  Read(c, o):                   *)
(*   o # running offset        -> rejected, nothing changes                *)
(*   otherwise                 -> the longest prefix of the remaining      *)
(*                                entries whose sizes sum to <= c, whole   *)
(*                                entries only; offset advances by the sum *)
(* for every c >= the largest entry (the property's precondition).  After  *)
(* the last entry every read is empty.  Sizes are real encoded sizes       *)
(* (49 + string bytes), so the harness realises them by name lengths.      *)
(***************************************************************************)
EXTENDS Integers, Sequences, FiniteSets, TLC

CONSTANTS Sizes,       \* entry sizes, e.g. {50, 51, 57, 100}
          MaxEntries,
          Counts,      \* read sizes, each >= the largest size
          MaxReads

VARIABLES listing, batches, pos, off, nreads, last
vars == <<listing, batches, pos, off, nreads, last>>
View == <<listing, batches, pos, off, nreads>>

RECURSIVE Sum(_)
Sum(s) == IF s = <<>> THEN 0 ELSE Head(s) + Sum(Tail(s))
\* all ways to cut n entries into non-empty batches (as sequences of batch lengths)
RECURSIVE Cuts(_)
Cuts(n) == IF n = 0 THEN {<<>>} ELSE UNION {{<<k>> \o c : c \in Cuts(n - k)} : k \in 1..n}

Unset == <<-1>>
Init == listing = Unset /\ batches = <<>> /\ pos = 0 /\ off = 0 /\ nreads = 0
        /\ last = [op |-> "init", c |-> 0, o |-> 0, k |-> 0, bytes |-> 0, err |-> FALSE]

Setup == /\ listing = Unset
         /\ \E n \in 0..MaxEntries : \E l \in [1..n -> Sizes] : \E b \in Cuts(n) :
              /\ listing' = l /\ batches' = b
         /\ UNCHANGED <<pos, off, nreads>>
         /\ last' = [op |-> "setup", c |-> 0, o |-> 0, k |-> 0, bytes |-> 0, err |-> FALSE]

\* number of whole entries from position p that fit into c bytes
RECURSIVE Fit(_, _)
Fit(p, c) == IF p >= Len(listing) \/ listing[p + 1] > c THEN 0 ELSE 1 + Fit(p + 1, c - listing[p + 1])

Read(c, o) ==
  /\ listing # Unset /\ nreads < MaxReads
  /\ nreads' = nreads + 1
  /\ IF o # off THEN
       /\ UNCHANGED <<pos, off>>
       /\ last' = [op |-> "read", c |-> c, o |-> o, k |-> 0, bytes |-> 0, err |-> TRUE]
     ELSE LET k == Fit(pos, c)
              b == Sum(SubSeq(listing, pos + 1, pos + k)) IN
       /\ pos' = pos + k /\ off' = off + b
       /\ last' = [op |-> "read", c |-> c, o |-> o, k |-> k, bytes |-> b, err |-> FALSE]
  /\ UNCHANGED <<listing, batches>>

\* reads at the running offset, and at wrong offsets (0 again, one short, one ahead)
Next == \/ Setup
        \/ \E c \in Counts : Read(c, off)
        \/ \E c \in Counts : \E o \in {0, off - 1, off + 1, off + c} : o # off /\ o >= 0 /\ Read(c, o)
Spec == Init /\ [][Next]_vars

\* ------------------------------------------------------------- properties
Listed == listing # Unset
\* what has been delivered is exactly the first pos entries, whole: the offset is their total size
OffsetIsPrefix == Listed => off = Sum(SubSeq(listing, 1, pos))
\* a read at the right offset with room for the next entry makes progress until the end (no entry is lost)
Progress == [][(last'.op = "read" /\ ~last'.err /\ pos < Len(listing)) => last'.k >= 1]_vars
\* replies consist of whole entries and never exceed the requested size
WholeAndBounded == last.op = "read" => last.bytes <= last.c
\* after the end reads are empty
EmptyAtEnd == [][(last'.op = "read" /\ ~last'.err /\ pos = Len(listing)) => last'.k = 0 /\ last'.bytes = 0]_vars
=============================================================================
