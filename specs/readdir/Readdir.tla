------------------------------- MODULE Readdir -------------------------------
(***************************************************************************)
(* C17: reading a directory through p9p.Readdir.  A listing is a sequence  *)
(* of entries with encoded sizes (bytes); the underlying iterator hands    *)
(* them out in arbitrary non-empty batches.  Read(c, o):                   *)
(*   o # running offset        -> rejected, nothing changes                *)
(*   otherwise                 -> the longest prefix of the remaining      *)
(*                                entries whose sizes sum to <= c, whole   *)
(*                                entries only; offset advances by the sum *)
(* for every c >= the largest entry (the property's precondition).  After  *)
(* the last entry every read is empty.  Sizes are real encoded sizes       *)
(* (49 + string bytes), so the harness realises them by name lengths.      *)
(*                                                                         *)
(* Beyond the property's universe (growth): the iterator may fail once, at *)
(* its failb-th call (WithIterFail).  Entries are fetched batch by batch   *)
(* as the read needs them (one entry of look-ahead when the buffer still   *)
(* has room).  A read during which the fetch fails reports an error; the   *)
(* entries it had already gathered count as delivered (the running offset  *)
(* advances past them), so that a retry at the old offset is rejected      *)
(* instead of silently continuing after a hole.                            *)
(***************************************************************************)
EXTENDS Integers, Sequences, FiniteSets, TLC

CONSTANTS Sizes,       \* entry sizes, e.g. {50, 51, 57, 100}
          MaxEntries,
          Counts,      \* read sizes, each >= the largest size
          MaxReads,
          WithIterFail \* TRUE: the iterator may fail once

VARIABLES listing, batches, pos, off, nreads,
          fetched,  \* entries the iterator has handed out so far
          nb,       \* iterator calls that handed out a batch
          failb,    \* the iterator call that fails (0: none / already happened); Len(batches)+1 is the call that would report the end
          last
vars == <<listing, batches, pos, off, nreads, fetched, nb, failb, last>>
View == <<listing, batches, pos, off, nreads, fetched, nb, failb>>

RECURSIVE Sum(_)
Sum(s) == IF s = <<>> THEN 0 ELSE Head(s) + Sum(Tail(s))
\* all ways to cut n entries into non-empty batches (as sequences of batch lengths)
RECURSIVE Cuts(_)
Cuts(n) == IF n = 0 THEN {<<>>} ELSE UNION {{<<k>> \o c : c \in Cuts(n - k)} : k \in 1..n}

Unset == <<-1>>
Init == listing = Unset /\ batches = <<>> /\ pos = 0 /\ off = 0 /\ nreads = 0 /\ fetched = 0 /\ nb = 0 /\ failb = 0
        /\ last = [op |-> "init", c |-> 0, o |-> 0, k |-> 0, bytes |-> 0, err |-> FALSE, ierr |-> FALSE]

Setup == /\ listing = Unset
         /\ \E n \in 0..MaxEntries : \E l \in [1..n -> Sizes] : \E b \in Cuts(n) :
              /\ listing' = l /\ batches' = b
              /\ failb' \in (IF WithIterFail THEN 0..(Len(b) + 1) ELSE {0})
         /\ UNCHANGED <<pos, off, nreads, fetched, nb>>
         /\ last' = [op |-> "setup", c |-> 0, o |-> 0, k |-> 0, bytes |-> 0, err |-> FALSE, ierr |-> FALSE]

\* number of whole entries from position p that fit into c bytes
RECURSIVE Fit(_, _)
Fit(p, c) == IF p >= Len(listing) \/ listing[p + 1] > c THEN 0 ELSE 1 + Fit(p + 1, c - listing[p + 1])

\* the read loop, entry by entry: p entries delivered so far, room bytes left, fe entries fetched, n batches fetched, fb failing call
RECURSIVE Rd(_, _, _, _, _)
Rd(p, room, fe, n, fb) ==
  IF room = 0 THEN [p |-> p, fe |-> fe, n |-> n, fb |-> fb, ierr |-> FALSE]          \* exactly full: no look-ahead
  ELSE IF p >= fe THEN                                                                  \* the next entry must be fetched
         IF n + 1 = fb THEN [p |-> p, fe |-> fe, n |-> n, fb |-> 0, ierr |-> TRUE]     \* ... and that call fails (once)
         ELSE IF n >= Len(batches) THEN [p |-> p, fe |-> fe, n |-> n, fb |-> fb, ierr |-> FALSE]   \* end of directory
         ELSE Rd(p, room, fe + batches[n + 1], n + 1, fb)
  ELSE IF listing[p + 1] > room THEN [p |-> p, fe |-> fe, n |-> n, fb |-> fb, ierr |-> FALSE]      \* kept for the next read
  ELSE Rd(p + 1, room - listing[p + 1], fe, n, fb)

Read(c, o) ==
  /\ listing # Unset /\ nreads < MaxReads
  /\ nreads' = nreads + 1
  /\ IF o # off THEN
       /\ UNCHANGED <<pos, off, fetched, nb, failb>>
       /\ last' = [op |-> "read", c |-> c, o |-> o, k |-> 0, bytes |-> 0, err |-> TRUE, ierr |-> FALSE]
     ELSE LET r == Rd(pos, c, fetched, nb, failb)
              k == r.p - pos
              b == Sum(SubSeq(listing, pos + 1, pos + k)) IN
       /\ pos' = r.p /\ off' = off + b /\ fetched' = r.fe /\ nb' = r.n /\ failb' = r.fb
       /\ last' = [op |-> "read", c |-> c, o |-> o, k |-> k, bytes |-> b, err |-> FALSE, ierr |-> r.ierr]
       \* without an iterator failure the loop delivers exactly the longest fitting prefix
       /\ (~r.ierr) => k = Fit(pos, c)
  /\ UNCHANGED <<listing, batches>>

\* reads at the running offset, and at wrong offsets (0 again, one short, one ahead)
Next == \/ Setup
        \/ \E c \in Counts : Read(c, off)
        \/ \E c \in Counts : \E o \in {0, off - 1, off + 1, off + c} : o # off /\ o >= 0 /\ Read(c, o)
Spec == Init /\ [][Next]_vars

\* ------------------------------------------------------------- properties
Listed == listing # Unset
\* what has been delivered is exactly the first pos entries, whole: the offset is their total size
OffsetIsPrefix == Listed => off = Sum(SubSeq(listing, 1, pos))
\* a read at the right offset with room for the next entry makes progress until the end (no entry is lost)
Progress == [][(last'.op = "read" /\ ~last'.err /\ ~last'.ierr /\ pos < Len(listing)) => last'.k >= 1]_vars
\* replies consist of whole entries and never exceed the requested size
WholeAndBounded == last.op = "read" => last.bytes <= last.c
\* after the end reads are empty
EmptyAtEnd == [][(last'.op = "read" /\ ~last'.err /\ pos = Len(listing)) => last'.k = 0 /\ last'.bytes = 0]_vars
\* nothing is handed out before it was fetched, and nothing is lost: delivered entries are a prefix of the fetched ones
FetchedCoversDelivered == Listed => (pos <= fetched /\ fetched <= Len(listing))
=============================================================================
