------------------------------ MODULE ServeImpl ------------------------------
(***************************************************************************)
(* Implementation-shaped model of p9p.ServeConn / conn.serve (serveconn.go)*)
(* after version negotiation: the reader goroutine, the serve loop with    *)
(* its tag table, one handler goroutine per dispatched request, the writer *)
(* goroutine, CloseWithError and the Stop callback.  One action per        *)
(* channel operation / select branch of the Go code; unbuffered channels   *)
(* are rendezvous actions; a Go select is a nondeterministic choice among  *)
(* its ready branches.                                                     *)
(*                                                                         *)
(* The client is the environment.  It keeps the client discipline of 9P:   *)
(* a tag is reused only after its reply (or the Rflush of its flush) was   *)
(* seen - except for deliberate duplicates, sent while the original is     *)
(* certainly still outstanding (its handler has not returned).             *)
(*                                                                         *)
(* Contract (C06, C07, C11) is stated on ghost variables that are          *)
(* functions of the externally observable events only (requests sent,      *)
(* handler invocations / returns, replies on the wire, serve returning,    *)
(* Stop); ServeContract.tla re-states it for recorded traces.              *)
(*                                                                         *)
(* Defect toggles (see DESIGN.md section 6): with a toggle FALSE the spec  *)
(* models the code as it was at the pinned commit.                         *)
(***************************************************************************)
EXTENDS Integers, Sequences, FiniteSets, TLC

CONSTANTS N,          \* number of requests the client may send
          Tags,       \* tags in use
          MaxFaults,  \* number of fault actions allowed
          FaultKinds, \* subset of {"read", "write", "ctx"}: which faults the environment may inject
          FixStale,   \* TRUE: completions are matched to the active request by identity (D6 repaired)
          FixFwd,     \* TRUE: the forward select also watches `closed` (D7 repaired)
          FixStop     \* TRUE: Stop runs only after all handler goroutines returned (D8 repaired)

VARIABLES nsent, req, netIn, rdr, loop, tags, cancelled, h, wr, closed, ctxc, wire, stopn, faults,
          c,     \* ghost: the contract state of ServeContract (function of observable events)
          act    \* output only: label of the last step

vars == <<nsent, req, netIn, rdr, loop, tags, cancelled, h, wr, closed, ctxc, wire, stopn, faults,
          c, act>>
View == <<nsent, req, netIn, rdr, loop, tags, cancelled, h, wr, closed, ctxc, wire, stopn, faults,
          c>>

Ids == 1..N
INSTANCE ServeContract WITH CIds <- Ids, CTags <- Tags
NoReq == [tag |-> 0, kind |-> "none", old |-> 0]
NoResp == [tag |-> 0, kind |-> "none", src |-> 0]
Resp(t, k, s) == [tag |-> t, kind |-> k, src |-> s]
IsCancelled(i) == i \in cancelled \/ ctxc
Active == {tags[t] : t \in Tags} \ {0}

Init ==
  /\ nsent = 0 /\ req = [i \in Ids |-> NoReq] /\ netIn = <<>>
  /\ rdr = [pc |-> "read", r |-> 0]
  /\ loop = [pc |-> "select", resp |-> NoResp, a |-> 0]
  /\ tags = [t \in Tags |-> 0] /\ cancelled = {} /\ h = [i \in Ids |-> "none"]
  /\ wr = [pc |-> "recv", resp |-> NoResp]
  /\ closed = FALSE /\ ctxc = FALSE /\ wire = <<>> /\ stopn = 0 /\ faults = 0
  /\ c = C0 /\ act = [a |-> "init", i |-> 0]

\* ------------------------------------------------------------------ client
\* kind "req": an ordinary request; kind "flush": Tflush(old)
ClientSend(t, k, old) ==
  /\ nsent < N /\ ~closed
  /\ LET i == nsent + 1
         o == c.cout[t] IN
     /\ nsent' = i
     /\ req' = [req EXCEPT ![i] = [tag |-> t, kind |-> k, old |-> IF k = "flush" THEN old ELSE 0]]
     /\ netIn' = Append(netIn, i)
     /\ o # 0 => \* deliberate duplicate: only while the original is certainly outstanding at the server
               /\ req[o].kind = "req" /\ h[o] \in {"none", "run"} /\ o \notin c.noreply
               /\ \A f \in Ids : c.fl[f] # o           \* and no flush of it is pending
     /\ c' = CSend(c, i, t, k, old, o # 0)
     /\ act' = [a |-> "send", i |-> i]
  /\ UNCHANGED <<rdr, loop, tags, cancelled, h, wr, closed, ctxc, wire, stopn, faults>>

\* ------------------------------------------------------------------ reader
ReaderRead ==
  /\ rdr.pc = "read" /\ netIn # <<>>
  /\ rdr' = [pc |-> "offer", r |-> Head(netIn)]
  /\ netIn' = Tail(netIn)
  /\ act' = [a |-> "rdr.read", i |-> Head(netIn)]
  /\ UNCHANGED <<nsent, req, loop, tags, cancelled, h, wr, closed, ctxc, wire, stopn, faults, c>>

\* fault: read error / EOF / peer close while the reader waits for a frame
ReaderFail ==
  /\ rdr.pc = "read" /\ faults < MaxFaults /\ "read" \in FaultKinds
  /\ faults' = faults + 1
  /\ rdr' = [pc |-> "done", r |-> 0]
  /\ closed' = TRUE
  /\ act' = [a |-> "fault.read", i |-> 0]
  /\ UNCHANGED <<nsent, req, netIn, loop, tags, cancelled, h, wr, ctxc, wire, stopn>>
  /\ c' = CFault(c)

ReaderAbort ==
  /\ rdr.pc = "offer" /\ (closed \/ ctxc)
  /\ rdr' = [pc |-> "done", r |-> 0]
  /\ closed' = TRUE
  /\ act' = [a |-> "rdr.abort", i |-> 0]
  /\ UNCHANGED <<nsent, req, netIn, loop, tags, cancelled, h, wr, ctxc, wire, stopn, faults, c>>

\* -------------------------------------------------------------------- loop
LoopReturn == /\ loop' = [pc |-> "ret", resp |-> NoResp, a |-> 0]
              /\ cancelled' = cancelled \cup Active       \* deferred: cancel every active request

LoopRecvReq ==
  /\ loop.pc = "select" /\ rdr.pc = "offer"
  /\ LET r == rdr.r
         t == req[r].tag IN
     /\ rdr' = [pc |-> "read", r |-> 0]
     /\ IF tags[t] # 0 THEN
          /\ loop' = [pc |-> "send", resp |-> Resp(t, "dup", r), a |-> 0]
          /\ UNCHANGED <<tags, cancelled, h>>
          /\ act' = [a |-> "loop.dup", i |-> r]
        ELSE IF req[r].kind = "flush" THEN
          LET o == req[r].old IN
          /\ IF tags[o] # 0
               THEN /\ cancelled' = cancelled \cup {tags[o]}
                    /\ tags' = [tags EXCEPT ![o] = 0]
                    /\ loop' = [pc |-> "send", resp |-> Resp(t, "rflush", r), a |-> 0]
               ELSE /\ UNCHANGED <<cancelled, tags>>
                    /\ loop' = [pc |-> "send", resp |-> Resp(t, "unk", r), a |-> 0]
          /\ UNCHANGED h
          /\ act' = [a |-> "loop.flush", i |-> r]
        ELSE
          /\ tags' = [tags EXCEPT ![t] = r]
          /\ h' = [h EXCEPT ![r] = "run"]
          /\ UNCHANGED <<loop, cancelled>>
          /\ act' = [a |-> "loop.dispatch", i |-> r]
     /\ c' = IF tags[t] = 0 /\ req[r].kind = "req" THEN CEnter(c, r, TRUE) ELSE c
  /\ UNCHANGED <<nsent, req, netIn, wr, closed, ctxc, wire, stopn, faults>>

\* responses <- resp for duplicate-tag errors and flush replies
LoopSend ==
  /\ loop.pc = "send" /\ wr.pc = "recv"
  /\ wr' = [pc |-> "write", resp |-> loop.resp]
  /\ loop' = [pc |-> "select", resp |-> NoResp, a |-> 0]
  /\ act' = [a |-> "loop.send", i |-> loop.resp.src]
  /\ UNCHANGED <<nsent, req, netIn, rdr, tags, cancelled, h, closed, ctxc, wire, stopn, faults, c>>

LoopSendAbort ==
  /\ loop.pc = "send" /\ (closed \/ ctxc)
  /\ LoopReturn
  /\ act' = [a |-> "loop.ret", i |-> 0]
  /\ UNCHANGED <<nsent, req, netIn, rdr, tags, h, wr, closed, ctxc, wire, stopn, faults, c>>

\* completed <- resp from handler goroutine i
LoopRecvCompleted(i) ==
  /\ loop.pc = "select" /\ h[i] = "offer"
  /\ h' = [h EXCEPT ![i] = "exit"]
  /\ LET t == req[i].tag
         a == tags[t] IN
     IF a = 0 \/ (FixStale /\ a # i)
       THEN /\ UNCHANGED loop                    \* tag no longer active: dropped
            /\ act' = [a |-> "loop.drop", i |-> i]
       ELSE /\ loop' = [pc |-> "fwd", resp |-> Resp(t, "res", i), a |-> a]
            /\ act' = [a |-> "loop.comp", i |-> i]
  /\ UNCHANGED <<nsent, req, netIn, rdr, tags, cancelled, wr, closed, ctxc, wire, stopn, faults, c>>

LoopFwd ==
  /\ loop.pc = "fwd" /\ wr.pc = "recv"
  /\ wr' = [pc |-> "write", resp |-> loop.resp]
  /\ tags' = [tags EXCEPT ![loop.resp.tag] = 0]
  /\ loop' = [pc |-> "select", resp |-> NoResp, a |-> 0]
  /\ act' = [a |-> "loop.fwd", i |-> loop.resp.src]
  /\ UNCHANGED <<nsent, req, netIn, rdr, cancelled, h, closed, ctxc, wire, stopn, faults, c>>

\* active.ctx.Done(): the response is dropped
LoopFwdSkip ==
  /\ loop.pc = "fwd" /\ IsCancelled(loop.a)
  /\ tags' = [tags EXCEPT ![loop.resp.tag] = 0]
  /\ loop' = [pc |-> "select", resp |-> NoResp, a |-> 0]
  /\ act' = [a |-> "loop.skip", i |-> loop.resp.src]
  /\ UNCHANGED <<nsent, req, netIn, rdr, cancelled, h, wr, closed, ctxc, wire, stopn, faults, c>>

LoopFwdClosed ==
  /\ FixFwd /\ loop.pc = "fwd" /\ closed
  /\ LoopReturn
  /\ act' = [a |-> "loop.ret", i |-> 0]
  /\ UNCHANGED <<nsent, req, netIn, rdr, tags, h, wr, closed, ctxc, wire, stopn, faults, c>>

LoopExit ==
  /\ loop.pc = "select" /\ (closed \/ ctxc)
  /\ LoopReturn
  /\ act' = [a |-> "loop.ret", i |-> 0]
  /\ UNCHANGED <<nsent, req, netIn, rdr, tags, h, wr, closed, ctxc, wire, stopn, faults, c>>

\* ---------------------------------------------------------------- handlers
\* Handler.Handle returns (the handler may or may not honour cancellation: it can return at any time)
\* Environment discipline for deliberate duplicates: the original's handler is held
\* (its gate stays shut) until the duplicate has been answered.
HandlerDone(i) ==
  /\ h[i] = "run"
  /\ (\A d \in c.expdup \ c.dupans : req[d].tag # req[i].tag) \/ closed \/ ctxc
  /\ h' = [h EXCEPT ![i] = "offer"]
  /\ c' = CExit(c, i, "res")
  /\ act' = [a |-> "h.done", i |-> i]
  /\ UNCHANGED <<nsent, req, netIn, rdr, loop, tags, cancelled, wr, closed, ctxc, wire, stopn, faults>>

\* the goroutine's select picks ctx.Done() or closed
HandlerGiveUp(i) ==
  /\ h[i] = "offer" /\ (IsCancelled(i) \/ closed)
  /\ h' = [h EXCEPT ![i] = "exit"]
  /\ act' = [a |-> "h.giveup", i |-> i]
  /\ UNCHANGED <<nsent, req, netIn, rdr, loop, tags, cancelled, wr, closed, ctxc, wire, stopn, faults, c>>

\* ------------------------------------------------------------------ writer
\* the client reads the reply as soon as it is on the wire (ghost: contract update)
WriterWrite ==
  /\ wr.pc = "write"
  /\ wire' = Append(wire, wr.resp)
  /\ c' = CReply(c, wr.resp.tag, wr.resp.kind, wr.resp.src, {i \in Ids : IsCancelled(i)})
  /\ wr' = [pc |-> "recv", resp |-> NoResp]
  /\ act' = [a |-> "wr.write", i |-> wr.resp.src]
  /\ UNCHANGED <<nsent, req, netIn, rdr, loop, tags, cancelled, h, closed, ctxc, stopn, faults>>

\* fault: the write fails (possibly after blocking)
WriterFail ==
  /\ wr.pc = "write" /\ faults < MaxFaults /\ "write" \in FaultKinds
  /\ faults' = faults + 1
  /\ wr' = [pc |-> "done", resp |-> NoResp]
  /\ closed' = TRUE
  /\ act' = [a |-> "fault.write", i |-> wr.resp.src]
  /\ UNCHANGED <<nsent, req, netIn, rdr, loop, tags, cancelled, h, ctxc, wire, stopn>>
  /\ c' = CFault(c)

WriterAbort ==
  /\ wr.pc = "recv" /\ (closed \/ ctxc)
  /\ wr' = [pc |-> "done", resp |-> NoResp]
  /\ closed' = TRUE
  /\ act' = [a |-> "wr.abort", i |-> 0]
  /\ UNCHANGED <<nsent, req, netIn, rdr, loop, tags, cancelled, h, ctxc, wire, stopn, faults, c>>

\* ------------------------------------------------------------ environment
CtxCancel ==
  /\ ~ctxc /\ faults < MaxFaults /\ "ctx" \in FaultKinds
  /\ faults' = faults + 1
  /\ ctxc' = TRUE
  /\ act' = [a |-> "fault.ctx", i |-> 0]
  /\ UNCHANGED <<nsent, req, netIn, rdr, loop, tags, cancelled, h, wr, closed, wire, stopn>>
  /\ c' = CFault(c)

HandlersQuiet == \A i \in Ids : h[i] \in {"none", "exit"}

Stop ==
  /\ loop.pc = "ret" /\ stopn = 0
  /\ FixStop => HandlersQuiet
  /\ stopn' = 1
  /\ act' = [a |-> "stop", i |-> 0]
  /\ UNCHANGED <<nsent, req, netIn, rdr, loop, tags, cancelled, h, wr, closed, ctxc, wire, faults>>
  /\ c' = CRet(CStop(c), {i \in Ids : IsCancelled(i)})   \* Stop callback, then ServeConn returns

Next ==
  \/ \E t \in Tags : ClientSend(t, "req", 0) \/ \E o \in Tags : ClientSend(t, "flush", o)
  \/ ReaderRead \/ ReaderFail \/ ReaderAbort
  \/ LoopRecvReq \/ LoopSend \/ LoopSendAbort \/ LoopFwd \/ LoopFwdSkip \/ LoopFwdClosed \/ LoopExit
  \/ \E i \in Ids : LoopRecvCompleted(i) \/ HandlerDone(i) \/ HandlerGiveUp(i)
  \/ WriterWrite \/ WriterFail \/ WriterAbort
  \/ CtxCancel \/ Stop

Server == \/ ReaderRead \/ ReaderAbort
          \/ LoopRecvReq \/ LoopSend \/ LoopSendAbort \/ LoopFwd \/ LoopFwdSkip \/ LoopFwdClosed \/ LoopExit
          \/ \E i \in Ids : LoopRecvCompleted(i) \/ HandlerDone(i) \/ HandlerGiveUp(i)
          \/ WriterWrite \/ WriterAbort \/ Stop

Spec == Init /\ [][Next]_vars
\* every goroutine keeps running, handlers eventually return
FairSpec == Spec /\ WF_vars(Server)

\* -------------------------------------------------------------- properties
TypeOK == /\ nsent \in 0..N /\ stopn \in 0..1 /\ faults \in 0..MaxFaults
          /\ h \in [Ids -> {"none", "run", "offer", "exit"}]
          /\ loop.pc \in {"select", "send", "fwd", "ret"}

\* C06/C07: what the client concludes from the wire is always right (the client stops
\* interpreting replies once a fault has been injected: the held handlers are let go then)
ContractOK == c.bad = ""
\* C06: the handler runs at most once, and only for ordinary, non-duplicate requests
HandlerOnlyForRequests == \A i \in Ids : h[i] # "none" => (req[i].kind = "req" /\ (i \notin c.expdup \/ faults > 0))
\* C06: a duplicate does not disturb the original: while the original's handler has not
\* returned and it was not flushed, it stays in the tag table
OriginalUndisturbed ==
  \A i \in Ids : (h[i] = "run" /\ ~IsCancelled(i) /\ loop.pc # "ret") => tags[req[i].tag] = i
\* C06: replies per request
Replies(i) == Cardinality({k \in 1..Len(wire) : wire[k].src = i})
AtMostOneReply == \A i \in Ids : Replies(i) <= 1
\* C11: when serving has returned, every in-flight handler context is cancelled; Stop at most once, after return
CancelledOnReturn == loop.pc = "ret" => \A i \in Ids : h[i] \in {"run", "offer"} => IsCancelled(i)
StopAfterReturn == stopn = 1 => loop.pc = "ret"
\* C11/C13 (FixStop): no handler is still running inside the session when Stop runs
StopAfterHandlers == stopn = 1 => HandlersQuiet

\* ---- reachability goals (test generation): TLC is asked to refute "the goal is never reached"; the
\* counterexample is a behaviour leading into the situation, which the harness replays on the real ServeConn.
\* A flushed request's handler has returned late (its completion was dropped or it gave up) while a later
\* request that reuses its tag is still being handled - and then the connection fails.
\* (the goal state is the late return itself; the driver appends a pause and the connection failure)
GoalStaleThenFault ==
  \E i, j \in Ids : /\ i # j /\ req[i].kind = "req" /\ req[j].kind = "req" /\ req[i].tag = req[j].tag
                     /\ act.a = "h.done" /\ act.i = i /\ i \in cancelled /\ h[j] = "run" /\ tags[req[j].tag] = j
NeverStaleThenFault == ~GoalStaleThenFault
\* A request is being handled, a flush of it is in the reader's hands, and the connection fails
GoalFlushRacesFault ==
  \E i, f \in Ids : /\ req[f].kind = "flush" /\ req[i].kind = "req" /\ req[f].old = req[i].tag /\ h[i] = "run"
                     /\ rdr.pc = "offer" /\ rdr.r = f /\ act.a \in {"fault.write", "fault.ctx"}
NeverFlushRacesFault == ~GoalFlushRacesFault

\* The writer is still busy with an earlier reply (the client is slow to read), the serve loop is waiting to hand it
\* the reply of request X, and the flush of X has already been read: the replies must come out in that order
GoalFlushBehindBlockedReply ==
  /\ wr.pc = "write" /\ loop.pc = "fwd" /\ rdr.pc = "offer"
  /\ req[rdr.r].kind = "flush" /\ req[rdr.r].old = loop.resp.tag /\ loop.resp.kind = "res"
NeverFlushBehindBlockedReply == ~GoalFlushBehindBlockedReply

\* liveness
\* C11: serving returns once the connection is closed or the context cancelled
ShutdownPrompt == (closed \/ ctxc) ~> (loop.pc = "ret")
StopRuns == (closed \/ ctxc) ~> (stopn = 1)
\* C06 (no faults): every ordinary request that is neither flushed nor a duplicate is answered
Quiet == /\ netIn = <<>> /\ rdr.pc = "read" /\ loop.pc = "select" /\ wr.pc = "recv"
         /\ \A i \in Ids : h[i] \in {"none", "exit"}
\* once everything has drained the end-of-scenario obligations of the contract hold
AllAnswered == <>[](Quiet /\ CEnd(c).bad = "")
=============================================================================
