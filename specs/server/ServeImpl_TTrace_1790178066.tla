---- MODULE ServeImpl_TTrace_1790178066 ----
EXTENDS Sequences, TLCExt, ServeImpl, Toolbox, Naturals, TLC

_expression ==
    LET ServeImpl_TEExpression == INSTANCE ServeImpl_TEExpression
    IN ServeImpl_TEExpression!expression
----

_trace ==
    LET ServeImpl_TETrace == INSTANCE ServeImpl_TETrace
    IN ServeImpl_TETrace!trace
----

_inv ==
    ~(
        TLCGet("level") = Len(_TETrace)
        /\
        rdr = ([pc |-> "read", r |-> 0])
        /\
        bad = ("")
        /\
        noreply = ({})
        /\
        nsent = (2)
        /\
        cout = (<<1, 0>>)
        /\
        stopn = (0)
        /\
        fl = (<<0, 0, 0>>)
        /\
        h = (<<"exit", "run", "none">>)
        /\
        expdup = ({2})
        /\
        faults = (0)
        /\
        dupans = ({})
        /\
        tags = (<<2, 0>>)
        /\
        wire = (<<>>)
        /\
        ctxc = (FALSE)
        /\
        act = ([i |-> 2, a |-> "loop.dispatch"])
        /\
        loop = ([pc |-> "select", resp |-> [tag |-> 0, kind |-> "none", src |-> 0], a |-> 0])
        /\
        cancelled = ({})
        /\
        closed = (FALSE)
        /\
        wr = ([pc |-> "write", resp |-> [tag |-> 1, kind |-> "res", src |-> 1]])
        /\
        netIn = (<<>>)
        /\
        req = (<<[tag |-> 1, kind |-> "req", old |-> 0], [tag |-> 1, kind |-> "req", old |-> 0], [tag |-> 0, kind |-> "none", old |-> 0]>>)
    )
----

_init ==
    /\ bad = _TETrace[1].bad
    /\ cancelled = _TETrace[1].cancelled
    /\ stopn = _TETrace[1].stopn
    /\ wire = _TETrace[1].wire
    /\ noreply = _TETrace[1].noreply
    /\ expdup = _TETrace[1].expdup
    /\ h = _TETrace[1].h
    /\ loop = _TETrace[1].loop
    /\ netIn = _TETrace[1].netIn
    /\ faults = _TETrace[1].faults
    /\ rdr = _TETrace[1].rdr
    /\ req = _TETrace[1].req
    /\ fl = _TETrace[1].fl
    /\ dupans = _TETrace[1].dupans
    /\ ctxc = _TETrace[1].ctxc
    /\ act = _TETrace[1].act
    /\ nsent = _TETrace[1].nsent
    /\ cout = _TETrace[1].cout
    /\ closed = _TETrace[1].closed
    /\ tags = _TETrace[1].tags
    /\ wr = _TETrace[1].wr
----

_next ==
    /\ \E i,j \in DOMAIN _TETrace:
        /\ \/ /\ j = i + 1
              /\ i = TLCGet("level")
        /\ bad  = _TETrace[i].bad
        /\ bad' = _TETrace[j].bad
        /\ cancelled  = _TETrace[i].cancelled
        /\ cancelled' = _TETrace[j].cancelled
        /\ stopn  = _TETrace[i].stopn
        /\ stopn' = _TETrace[j].stopn
        /\ wire  = _TETrace[i].wire
        /\ wire' = _TETrace[j].wire
        /\ noreply  = _TETrace[i].noreply
        /\ noreply' = _TETrace[j].noreply
        /\ expdup  = _TETrace[i].expdup
        /\ expdup' = _TETrace[j].expdup
        /\ h  = _TETrace[i].h
        /\ h' = _TETrace[j].h
        /\ loop  = _TETrace[i].loop
        /\ loop' = _TETrace[j].loop
        /\ netIn  = _TETrace[i].netIn
        /\ netIn' = _TETrace[j].netIn
        /\ faults  = _TETrace[i].faults
        /\ faults' = _TETrace[j].faults
        /\ rdr  = _TETrace[i].rdr
        /\ rdr' = _TETrace[j].rdr
        /\ req  = _TETrace[i].req
        /\ req' = _TETrace[j].req
        /\ fl  = _TETrace[i].fl
        /\ fl' = _TETrace[j].fl
        /\ dupans  = _TETrace[i].dupans
        /\ dupans' = _TETrace[j].dupans
        /\ ctxc  = _TETrace[i].ctxc
        /\ ctxc' = _TETrace[j].ctxc
        /\ act  = _TETrace[i].act
        /\ act' = _TETrace[j].act
        /\ nsent  = _TETrace[i].nsent
        /\ nsent' = _TETrace[j].nsent
        /\ cout  = _TETrace[i].cout
        /\ cout' = _TETrace[j].cout
        /\ closed  = _TETrace[i].closed
        /\ closed' = _TETrace[j].closed
        /\ tags  = _TETrace[i].tags
        /\ tags' = _TETrace[j].tags
        /\ wr  = _TETrace[i].wr
        /\ wr' = _TETrace[j].wr

\* Uncomment the ASSUME below to write the states of the error trace
\* to the given file in Json format. Note that you can pass any tuple
\* to `JsonSerialize`. For example, a sub-sequence of _TETrace.
    \* ASSUME
    \*     LET J == INSTANCE Json
    \*         IN J!JsonSerialize("ServeImpl_TTrace_1790178066.json", _TETrace)

=============================================================================

 Note that you can extract this module `ServeImpl_TEExpression`
  to a dedicated file to reuse `expression` (the module in the 
  dedicated `ServeImpl_TEExpression.tla` file takes precedence 
  over the module `ServeImpl_TEExpression` below).

---- MODULE ServeImpl_TEExpression ----
EXTENDS Sequences, TLCExt, ServeImpl, Toolbox, Naturals, TLC

expression == 
    [
        \* To hide variables of the `ServeImpl` spec from the error trace,
        \* remove the variables below.  The trace will be written in the order
        \* of the fields of this record.
        bad |-> bad
        ,cancelled |-> cancelled
        ,stopn |-> stopn
        ,wire |-> wire
        ,noreply |-> noreply
        ,expdup |-> expdup
        ,h |-> h
        ,loop |-> loop
        ,netIn |-> netIn
        ,faults |-> faults
        ,rdr |-> rdr
        ,req |-> req
        ,fl |-> fl
        ,dupans |-> dupans
        ,ctxc |-> ctxc
        ,act |-> act
        ,nsent |-> nsent
        ,cout |-> cout
        ,closed |-> closed
        ,tags |-> tags
        ,wr |-> wr
        
        \* Put additional constant-, state-, and action-level expressions here:
        \* ,_stateNumber |-> _TEPosition
        \* ,_badUnchanged |-> bad = bad'
        
        \* Format the `bad` variable as Json value.
        \* ,_badJson |->
        \*     LET J == INSTANCE Json
        \*     IN J!ToJson(bad)
        
        \* Lastly, you may build expressions over arbitrary sets of states by
        \* leveraging the _TETrace operator.  For example, this is how to
        \* count the number of times a spec variable changed up to the current
        \* state in the trace.
        \* ,_badModCount |->
        \*     LET F[s \in DOMAIN _TETrace] ==
        \*         IF s = 1 THEN 0
        \*         ELSE IF _TETrace[s].bad # _TETrace[s-1].bad
        \*             THEN 1 + F[s-1] ELSE F[s-1]
        \*     IN F[_TEPosition - 1]
    ]

=============================================================================



Parsing and semantic processing can take forever if the trace below is long.
 In this case, it is advised to uncomment the module below to deserialize the
 trace from a generated binary file.

\*
\*---- MODULE ServeImpl_TETrace ----
\*EXTENDS IOUtils, ServeImpl, TLC
\*
\*trace == IODeserialize("ServeImpl_TTrace_1790178066.bin", TRUE)
\*
\*=============================================================================
\*

---- MODULE ServeImpl_TETrace ----
EXTENDS ServeImpl, TLC

trace == 
    <<
    ([rdr |-> [pc |-> "read", r |-> 0],bad |-> "",noreply |-> {},nsent |-> 0,cout |-> <<0, 0>>,stopn |-> 0,fl |-> <<0, 0, 0>>,h |-> <<"none", "none", "none">>,expdup |-> {},faults |-> 0,dupans |-> {},tags |-> <<0, 0>>,wire |-> <<>>,ctxc |-> FALSE,act |-> [i |-> 0, a |-> "init"],loop |-> [pc |-> "select", resp |-> [tag |-> 0, kind |-> "none", src |-> 0], a |-> 0],cancelled |-> {},closed |-> FALSE,wr |-> [pc |-> "recv", resp |-> [tag |-> 0, kind |-> "none", src |-> 0]],netIn |-> <<>>,req |-> <<[tag |-> 0, kind |-> "none", old |-> 0], [tag |-> 0, kind |-> "none", old |-> 0], [tag |-> 0, kind |-> "none", old |-> 0]>>]),
    ([rdr |-> [pc |-> "read", r |-> 0],bad |-> "",noreply |-> {},nsent |-> 1,cout |-> <<1, 0>>,stopn |-> 0,fl |-> <<0, 0, 0>>,h |-> <<"none", "none", "none">>,expdup |-> {},faults |-> 0,dupans |-> {},tags |-> <<0, 0>>,wire |-> <<>>,ctxc |-> FALSE,act |-> [i |-> 1, a |-> "send"],loop |-> [pc |-> "select", resp |-> [tag |-> 0, kind |-> "none", src |-> 0], a |-> 0],cancelled |-> {},closed |-> FALSE,wr |-> [pc |-> "recv", resp |-> [tag |-> 0, kind |-> "none", src |-> 0]],netIn |-> <<1>>,req |-> <<[tag |-> 1, kind |-> "req", old |-> 0], [tag |-> 0, kind |-> "none", old |-> 0], [tag |-> 0, kind |-> "none", old |-> 0]>>]),
    ([rdr |-> [pc |-> "read", r |-> 0],bad |-> "",noreply |-> {},nsent |-> 2,cout |-> <<1, 0>>,stopn |-> 0,fl |-> <<0, 0, 0>>,h |-> <<"none", "none", "none">>,expdup |-> {2},faults |-> 0,dupans |-> {},tags |-> <<0, 0>>,wire |-> <<>>,ctxc |-> FALSE,act |-> [i |-> 2, a |-> "send"],loop |-> [pc |-> "select", resp |-> [tag |-> 0, kind |-> "none", src |-> 0], a |-> 0],cancelled |-> {},closed |-> FALSE,wr |-> [pc |-> "recv", resp |-> [tag |-> 0, kind |-> "none", src |-> 0]],netIn |-> <<1, 2>>,req |-> <<[tag |-> 1, kind |-> "req", old |-> 0], [tag |-> 1, kind |-> "req", old |-> 0], [tag |-> 0, kind |-> "none", old |-> 0]>>]),
    ([rdr |-> [pc |-> "offer", r |-> 1],bad |-> "",noreply |-> {},nsent |-> 2,cout |-> <<1, 0>>,stopn |-> 0,fl |-> <<0, 0, 0>>,h |-> <<"none", "none", "none">>,expdup |-> {2},faults |-> 0,dupans |-> {},tags |-> <<0, 0>>,wire |-> <<>>,ctxc |-> FALSE,act |-> [i |-> 1, a |-> "rdr.read"],loop |-> [pc |-> "select", resp |-> [tag |-> 0, kind |-> "none", src |-> 0], a |-> 0],cancelled |-> {},closed |-> FALSE,wr |-> [pc |-> "recv", resp |-> [tag |-> 0, kind |-> "none", src |-> 0]],netIn |-> <<2>>,req |-> <<[tag |-> 1, kind |-> "req", old |-> 0], [tag |-> 1, kind |-> "req", old |-> 0], [tag |-> 0, kind |-> "none", old |-> 0]>>]),
    ([rdr |-> [pc |-> "read", r |-> 0],bad |-> "",noreply |-> {},nsent |-> 2,cout |-> <<1, 0>>,stopn |-> 0,fl |-> <<0, 0, 0>>,h |-> <<"run", "none", "none">>,expdup |-> {2},faults |-> 0,dupans |-> {},tags |-> <<1, 0>>,wire |-> <<>>,ctxc |-> FALSE,act |-> [i |-> 1, a |-> "loop.dispatch"],loop |-> [pc |-> "select", resp |-> [tag |-> 0, kind |-> "none", src |-> 0], a |-> 0],cancelled |-> {},closed |-> FALSE,wr |-> [pc |-> "recv", resp |-> [tag |-> 0, kind |-> "none", src |-> 0]],netIn |-> <<2>>,req |-> <<[tag |-> 1, kind |-> "req", old |-> 0], [tag |-> 1, kind |-> "req", old |-> 0], [tag |-> 0, kind |-> "none", old |-> 0]>>]),
    ([rdr |-> [pc |-> "read", r |-> 0],bad |-> "",noreply |-> {},nsent |-> 2,cout |-> <<1, 0>>,stopn |-> 0,fl |-> <<0, 0, 0>>,h |-> <<"offer", "none", "none">>,expdup |-> {2},faults |-> 0,dupans |-> {},tags |-> <<1, 0>>,wire |-> <<>>,ctxc |-> FALSE,act |-> [i |-> 1, a |-> "h.done"],loop |-> [pc |-> "select", resp |-> [tag |-> 0, kind |-> "none", src |-> 0], a |-> 0],cancelled |-> {},closed |-> FALSE,wr |-> [pc |-> "recv", resp |-> [tag |-> 0, kind |-> "none", src |-> 0]],netIn |-> <<2>>,req |-> <<[tag |-> 1, kind |-> "req", old |-> 0], [tag |-> 1, kind |-> "req", old |-> 0], [tag |-> 0, kind |-> "none", old |-> 0]>>]),
    ([rdr |-> [pc |-> "offer", r |-> 2],bad |-> "",noreply |-> {},nsent |-> 2,cout |-> <<1, 0>>,stopn |-> 0,fl |-> <<0, 0, 0>>,h |-> <<"offer", "none", "none">>,expdup |-> {2},faults |-> 0,dupans |-> {},tags |-> <<1, 0>>,wire |-> <<>>,ctxc |-> FALSE,act |-> [i |-> 2, a |-> "rdr.read"],loop |-> [pc |-> "select", resp |-> [tag |-> 0, kind |-> "none", src |-> 0], a |-> 0],cancelled |-> {},closed |-> FALSE,wr |-> [pc |-> "recv", resp |-> [tag |-> 0, kind |-> "none", src |-> 0]],netIn |-> <<>>,req |-> <<[tag |-> 1, kind |-> "req", old |-> 0], [tag |-> 1, kind |-> "req", old |-> 0], [tag |-> 0, kind |-> "none", old |-> 0]>>]),
    ([rdr |-> [pc |-> "offer", r |-> 2],bad |-> "",noreply |-> {},nsent |-> 2,cout |-> <<1, 0>>,stopn |-> 0,fl |-> <<0, 0, 0>>,h |-> <<"exit", "none", "none">>,expdup |-> {2},faults |-> 0,dupans |-> {},tags |-> <<1, 0>>,wire |-> <<>>,ctxc |-> FALSE,act |-> [i |-> 1, a |-> "loop.comp"],loop |-> [pc |-> "fwd", resp |-> [tag |-> 1, kind |-> "res", src |-> 1], a |-> 1],cancelled |-> {},closed |-> FALSE,wr |-> [pc |-> "recv", resp |-> [tag |-> 0, kind |-> "none", src |-> 0]],netIn |-> <<>>,req |-> <<[tag |-> 1, kind |-> "req", old |-> 0], [tag |-> 1, kind |-> "req", old |-> 0], [tag |-> 0, kind |-> "none", old |-> 0]>>]),
    ([rdr |-> [pc |-> "offer", r |-> 2],bad |-> "",noreply |-> {},nsent |-> 2,cout |-> <<1, 0>>,stopn |-> 0,fl |-> <<0, 0, 0>>,h |-> <<"exit", "none", "none">>,expdup |-> {2},faults |-> 0,dupans |-> {},tags |-> <<0, 0>>,wire |-> <<>>,ctxc |-> FALSE,act |-> [i |-> 1, a |-> "loop.fwd"],loop |-> [pc |-> "select", resp |-> [tag |-> 0, kind |-> "none", src |-> 0], a |-> 0],cancelled |-> {},closed |-> FALSE,wr |-> [pc |-> "write", resp |-> [tag |-> 1, kind |-> "res", src |-> 1]],netIn |-> <<>>,req |-> <<[tag |-> 1, kind |-> "req", old |-> 0], [tag |-> 1, kind |-> "req", old |-> 0], [tag |-> 0, kind |-> "none", old |-> 0]>>]),
    ([rdr |-> [pc |-> "read", r |-> 0],bad |-> "",noreply |-> {},nsent |-> 2,cout |-> <<1, 0>>,stopn |-> 0,fl |-> <<0, 0, 0>>,h |-> <<"exit", "run", "none">>,expdup |-> {2},faults |-> 0,dupans |-> {},tags |-> <<2, 0>>,wire |-> <<>>,ctxc |-> FALSE,act |-> [i |-> 2, a |-> "loop.dispatch"],loop |-> [pc |-> "select", resp |-> [tag |-> 0, kind |-> "none", src |-> 0], a |-> 0],cancelled |-> {},closed |-> FALSE,wr |-> [pc |-> "write", resp |-> [tag |-> 1, kind |-> "res", src |-> 1]],netIn |-> <<>>,req |-> <<[tag |-> 1, kind |-> "req", old |-> 0], [tag |-> 1, kind |-> "req", old |-> 0], [tag |-> 0, kind |-> "none", old |-> 0]>>])
    >>
----


=============================================================================

---- CONFIG ServeImpl_TTrace_1790178066 ----
CONSTANTS
    N = 3
    Tags = { 1 , 2 }
    MaxFaults = 0
    FixStale = TRUE
    FixFwd = TRUE
    FixStop = TRUE

INVARIANT
    _inv

CHECK_DEADLOCK
    \* CHECK_DEADLOCK off because of PROPERTY or INVARIANT above.
    FALSE

INIT
    _init

NEXT
    _next

CONSTANT
    _TETrace <- _trace

ALIAS
    _expression
=============================================================================
\* Generated on Wed Sep 23 15:41:09 UTC 2026