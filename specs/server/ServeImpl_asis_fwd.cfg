CONSTANTS
  N = 3
  Tags = {1, 2}
  MaxFaults = 1
  FaultKinds = {"write"}
  FixStale = TRUE
  FixFwd = FALSE
  FixStop = TRUE
SPECIFICATION FairSpec
INVARIANTS TypeOK ContractOK HandlerOnlyForRequests OriginalUndisturbed AtMostOneReply CancelledOnReturn StopAfterReturn StopAfterHandlers
PROPERTIES ShutdownPrompt
VIEW View
CHECK_DEADLOCK FALSE
