CONSTANTS
  N = 3
  Tags = {1, 2}
  MaxFaults = 0
  FaultKinds = {"read", "write", "ctx"}
  FixStale = TRUE
  FixFwd = TRUE
  FixStop = TRUE
SPECIFICATION FairSpec
INVARIANTS TypeOK ContractOK HandlerOnlyForRequests OriginalUndisturbed AtMostOneReply CancelledOnReturn StopAfterReturn StopAfterHandlers
PROPERTIES AllAnswered
VIEW View
CHECK_DEADLOCK FALSE
