CONSTANTS
  N = 4
  Tags = {1, 2}
  MaxFaults = 1
  FaultKinds = {"read", "write", "ctx"}
  FixStale = TRUE
  FixFwd = TRUE
  FixStop = TRUE
SPECIFICATION Spec
ACTION_CONSTRAINT Emit
CHECK_DEADLOCK FALSE
