----------------------------- MODULE ServeTrace -----------------------------
(***************************************************************************)
(* Trace validation for the server engine: folds the contract of           *)
(* ServeContract over event traces recorded from the real p9p.ServeConn    *)
(* (harness engine "serve").  Many traces are concatenated, separated by   *)
(* "reset" events.  The contract state is a deterministic function of the  *)
(* events, so the check is linear; every invariant is evaluated after      *)
(* every event of every recorded run.                                      *)
(***************************************************************************)
EXTENDS Integers, Sequences, FiniteSets, TLC, Json, IOUtils

CIds == 1..80
CTags == 0..80
INSTANCE ServeContract

Tr == ndJsonDeserialize(IOEnv.TRACE)

VARIABLES l, c, tr
vars == <<l, c, tr>>

SetOf(s) == {s[k] : k \in 1..Len(s)}

Init == l = 1 /\ c = C0 /\ tr = 1

Apply(e) ==
  CASE e.e = "send"  -> CSend(c, e.id, e.tag, e.kind, e.old, e.dup)
    [] e.e = "enter" -> IF e.id \in CIds THEN CEnter(c, e.id, e.match) ELSE Flag(c, "handler-got-unknown-message")
    [] e.e = "exit"  -> IF e.id \in CIds THEN CExit(c, e.id, e.kind) ELSE c
    [] e.e = "recv"  -> CReply(c, e.tag, e.kind, e.src, SetOf(e.done))
    [] e.e = "fault" -> CFault(c)
    [] e.e = "stop"  -> CStop(c)
    [] e.e = "ret"   -> CRet(c, SetOf(e.done))
    [] e.e = "end"   -> CEnd(c)
    [] OTHER         -> c

Next ==
  /\ l <= Len(Tr)
  /\ l' = l + 1
  /\ IF Tr[l].e = "reset"
       THEN \* end of one recorded run: report its verdict (the fold goes on with the next run)
            /\ (c.bad = "" \/ PrintT(ToJson([tr |-> tr, sc |-> Tr[l].sc, bad |-> c.bad])))
            /\ c' = C0 /\ tr' = tr + 1
       ELSE c' = Apply(Tr[l]) /\ tr' = tr

Spec == Init /\ [][Next]_vars

ContractHolds == c.bad = ""
\* every event of the file was consumed
Accepted == TLCGet("stats").diameter - 1 = Len(Tr)
=============================================================================
