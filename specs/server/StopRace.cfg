CONSTANTS
  Ops = {"attach", "clone", "walk", "create"}
  FixStop = TRUE
SPECIFICATION Spec
INVARIANTS NothingBoundAtEnd ReleasedOnceAtEnd NeverUsedAfterRelease
PROPERTIES Terminates
CHECK_DEADLOCK FALSE
