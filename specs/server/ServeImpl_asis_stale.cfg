CONSTANTS
  N = 3
  Tags = {1, 2}
  MaxFaults = 0
  FaultKinds = {"read", "write", "ctx"}
  FixStale = FALSE
  FixFwd = TRUE
  FixStop = TRUE
SPECIFICATION Spec
INVARIANTS ContractOK

VIEW View
CHECK_DEADLOCK FALSE
