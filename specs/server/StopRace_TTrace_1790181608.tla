---- MODULE StopRace_TTrace_1790181608 ----
EXTENDS Sequences, TLCExt, Toolbox, Naturals, TLC, StopRace

_expression ==
    LET StopRace_TEExpression == INSTANCE StopRace_TEExpression
    IN StopRace_TEExpression!expression
----

_trace ==
    LET StopRace_TETrace == INSTANCE StopRace_TETrace
    IN StopRace_TETrace!trace
----

_inv ==
    ~(
        TLCGet("level") = Len(_TETrace)
        /\
        usedDead = (TRUE)
        /\
        op = ("clone")
        /\
        pc = ("infs")
        /\
        stop = ("done")
        /\
        bound = ({})
        /\
        served = (TRUE)
        /\
        rel = ([e0 |-> 1, e1 |-> 0])
        /\
        handed = ({"e0"})
    )
----

_init ==
    /\ stop = _TETrace[1].stop
    /\ handed = _TETrace[1].handed
    /\ rel = _TETrace[1].rel
    /\ op = _TETrace[1].op
    /\ bound = _TETrace[1].bound
    /\ usedDead = _TETrace[1].usedDead
    /\ pc = _TETrace[1].pc
    /\ served = _TETrace[1].served
----

_next ==
    /\ \E i,j \in DOMAIN _TETrace:
        /\ \/ /\ j = i + 1
              /\ i = TLCGet("level")
        /\ stop  = _TETrace[i].stop
        /\ stop' = _TETrace[j].stop
        /\ handed  = _TETrace[i].handed
        /\ handed' = _TETrace[j].handed
        /\ rel  = _TETrace[i].rel
        /\ rel' = _TETrace[j].rel
        /\ op  = _TETrace[i].op
        /\ op' = _TETrace[j].op
        /\ bound  = _TETrace[i].bound
        /\ bound' = _TETrace[j].bound
        /\ usedDead  = _TETrace[i].usedDead
        /\ usedDead' = _TETrace[j].usedDead
        /\ pc  = _TETrace[i].pc
        /\ pc' = _TETrace[j].pc
        /\ served  = _TETrace[i].served
        /\ served' = _TETrace[j].served

\* Uncomment the ASSUME below to write the states of the error trace
\* to the given file in Json format. Note that you can pass any tuple
\* to `JsonSerialize`. For example, a sub-sequence of _TETrace.
    \* ASSUME
    \*     LET J == INSTANCE Json
    \*         IN J!JsonSerialize("StopRace_TTrace_1790181608.json", _TETrace)

=============================================================================

 Note that you can extract this module `StopRace_TEExpression`
  to a dedicated file to reuse `expression` (the module in the 
  dedicated `StopRace_TEExpression.tla` file takes precedence 
  over the module `StopRace_TEExpression` below).

---- MODULE StopRace_TEExpression ----
EXTENDS Sequences, TLCExt, Toolbox, Naturals, TLC, StopRace

expression == 
    [
        \* To hide variables of the `StopRace` spec from the error trace,
        \* remove the variables below.  The trace will be written in the order
        \* of the fields of this record.
        stop |-> stop
        ,handed |-> handed
        ,rel |-> rel
        ,op |-> op
        ,bound |-> bound
        ,usedDead |-> usedDead
        ,pc |-> pc
        ,served |-> served
        
        \* Put additional constant-, state-, and action-level expressions here:
        \* ,_stateNumber |-> _TEPosition
        \* ,_stopUnchanged |-> stop = stop'
        
        \* Format the `stop` variable as Json value.
        \* ,_stopJson |->
        \*     LET J == INSTANCE Json
        \*     IN J!ToJson(stop)
        
        \* Lastly, you may build expressions over arbitrary sets of states by
        \* leveraging the _TETrace operator.  For example, this is how to
        \* count the number of times a spec variable changed up to the current
        \* state in the trace.
        \* ,_stopModCount |->
        \*     LET F[s \in DOMAIN _TETrace] ==
        \*         IF s = 1 THEN 0
        \*         ELSE IF _TETrace[s].stop # _TETrace[s-1].stop
        \*             THEN 1 + F[s-1] ELSE F[s-1]
        \*     IN F[_TEPosition - 1]
    ]

=============================================================================



Parsing and semantic processing can take forever if the trace below is long.
 In this case, it is advised to uncomment the module below to deserialize the
 trace from a generated binary file.

\*
\*---- MODULE StopRace_TETrace ----
\*EXTENDS IOUtils, TLC, StopRace
\*
\*trace == IODeserialize("StopRace_TTrace_1790181608.bin", TRUE)
\*
\*=============================================================================
\*

---- MODULE StopRace_TETrace ----
EXTENDS TLC, StopRace

trace == 
    <<
    ([usedDead |-> FALSE,op |-> "clone",pc |-> "start",stop |-> "idle",bound |-> {"e0"},served |-> FALSE,rel |-> [e0 |-> 0, e1 |-> 0],handed |-> {"e0"}]),
    ([usedDead |-> FALSE,op |-> "clone",pc |-> "infs",stop |-> "idle",bound |-> {"e0"},served |-> FALSE,rel |-> [e0 |-> 0, e1 |-> 0],handed |-> {"e0"}]),
    ([usedDead |-> FALSE,op |-> "clone",pc |-> "infs",stop |-> "idle",bound |-> {"e0"},served |-> TRUE,rel |-> [e0 |-> 0, e1 |-> 0],handed |-> {"e0"}]),
    ([usedDead |-> TRUE,op |-> "clone",pc |-> "infs",stop |-> "done",bound |-> {},served |-> TRUE,rel |-> [e0 |-> 1, e1 |-> 0],handed |-> {"e0"}])
    >>
----


=============================================================================

---- CONFIG StopRace_TTrace_1790181608 ----
CONSTANTS
    Ops = { "attach" , "clone" , "walk" , "create" }
    FixStop = FALSE

INVARIANT
    _inv

CHECK_DEADLOCK
    \* CHECK_DEADLOCK off because of PROPERTY or INVARIANT above.
    FALSE

INIT
    _init

NEXT
    _next

CONSTANT
    _TETrace <- _trace

ALIAS
    _expression
=============================================================================
\* Generated on Wed Sep 23 16:40:08 UTC 2026