CONSTANTS
  N = 3
  Tags = {1, 2}
  MaxFaults = 1
  FaultKinds = {"read", "write", "ctx"}
  FixStale = TRUE
  FixFwd = TRUE
  FixStop = FALSE
SPECIFICATION Spec
INVARIANTS StopAfterHandlers

VIEW View
CHECK_DEADLOCK FALSE
