CONSTANTS
  N = 3
  Tags = {1, 2, 3}
  MaxFaults = 0
  FaultKinds = {"read", "write", "ctx"}
  FixStale = TRUE
  FixFwd = TRUE
  FixStop = TRUE
SPECIFICATION Spec
INVARIANTS NeverFlushBehindBlockedReply


CHECK_DEADLOCK FALSE
