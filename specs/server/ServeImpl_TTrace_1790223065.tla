---- MODULE ServeImpl_TTrace_1790223065 ----
EXTENDS Sequences, TLCExt, ServeImpl, Toolbox, Naturals, TLC

_expression ==
    LET ServeImpl_TEExpression == INSTANCE ServeImpl_TEExpression
    IN ServeImpl_TEExpression!expression
----

_trace ==
    LET ServeImpl_TETrace == INSTANCE ServeImpl_TETrace
    IN ServeImpl_TETrace!trace
----

_inv ==
    ~(
        TLCGet("level") = Len(_TETrace)
        /\
        rdr = ([pc |-> "offer", r |-> 3])
        /\
        c = ([req |-> <<[tag |-> 1, kind |-> "flush", old |-> 1], [tag |-> 2, kind |-> "req", old |-> 0], [tag |-> 3, kind |-> "flush", old |-> 2]>>, stopn |-> 0, cout |-> <<1, 2, 3>>, noreply |-> {}, fl |-> <<0, 0, 2>>, expdup |-> {}, dupans |-> {}, bad |-> "", nrep |-> <<0, 0, 0>>, entered |-> {2}, exited |-> {2}, hres |-> <<"none", "res", "none">>, fault |-> FALSE, retd |-> FALSE])
        /\
        nsent = (3)
        /\
        stopn = (0)
        /\
        h = (<<"none", "exit", "none">>)
        /\
        faults = (0)
        /\
        tags = (<<0, 2, 0>>)
        /\
        wire = (<<>>)
        /\
        ctxc = (FALSE)
        /\
        act = ([i |-> 2, a |-> "loop.comp"])
        /\
        loop = ([pc |-> "fwd", resp |-> [tag |-> 2, kind |-> "res", src |-> 2], a |-> 2])
        /\
        cancelled = ({})
        /\
        closed = (FALSE)
        /\
        wr = ([pc |-> "write", resp |-> [tag |-> 1, kind |-> "unk", src |-> 1]])
        /\
        netIn = (<<>>)
        /\
        req = (<<[tag |-> 1, kind |-> "flush", old |-> 1], [tag |-> 2, kind |-> "req", old |-> 0], [tag |-> 3, kind |-> "flush", old |-> 2]>>)
    )
----

_init ==
    /\ cancelled = _TETrace[1].cancelled
    /\ stopn = _TETrace[1].stopn
    /\ wire = _TETrace[1].wire
    /\ c = _TETrace[1].c
    /\ h = _TETrace[1].h
    /\ loop = _TETrace[1].loop
    /\ netIn = _TETrace[1].netIn
    /\ faults = _TETrace[1].faults
    /\ rdr = _TETrace[1].rdr
    /\ req = _TETrace[1].req
    /\ ctxc = _TETrace[1].ctxc
    /\ act = _TETrace[1].act
    /\ nsent = _TETrace[1].nsent
    /\ closed = _TETrace[1].closed
    /\ tags = _TETrace[1].tags
    /\ wr = _TETrace[1].wr
----

_next ==
    /\ \E i,j \in DOMAIN _TETrace:
        /\ \/ /\ j = i + 1
              /\ i = TLCGet("level")
        /\ cancelled  = _TETrace[i].cancelled
        /\ cancelled' = _TETrace[j].cancelled
        /\ stopn  = _TETrace[i].stopn
        /\ stopn' = _TETrace[j].stopn
        /\ wire  = _TETrace[i].wire
        /\ wire' = _TETrace[j].wire
        /\ c  = _TETrace[i].c
        /\ c' = _TETrace[j].c
        /\ h  = _TETrace[i].h
        /\ h' = _TETrace[j].h
        /\ loop  = _TETrace[i].loop
        /\ loop' = _TETrace[j].loop
        /\ netIn  = _TETrace[i].netIn
        /\ netIn' = _TETrace[j].netIn
        /\ faults  = _TETrace[i].faults
        /\ faults' = _TETrace[j].faults
        /\ rdr  = _TETrace[i].rdr
        /\ rdr' = _TETrace[j].rdr
        /\ req  = _TETrace[i].req
        /\ req' = _TETrace[j].req
        /\ ctxc  = _TETrace[i].ctxc
        /\ ctxc' = _TETrace[j].ctxc
        /\ act  = _TETrace[i].act
        /\ act' = _TETrace[j].act
        /\ nsent  = _TETrace[i].nsent
        /\ nsent' = _TETrace[j].nsent
        /\ closed  = _TETrace[i].closed
        /\ closed' = _TETrace[j].closed
        /\ tags  = _TETrace[i].tags
        /\ tags' = _TETrace[j].tags
        /\ wr  = _TETrace[i].wr
        /\ wr' = _TETrace[j].wr

\* Uncomment the ASSUME below to write the states of the error trace
\* to the given file in Json format. Note that you can pass any tuple
\* to `JsonSerialize`. For example, a sub-sequence of _TETrace.
    \* ASSUME
    \*     LET J == INSTANCE Json
    \*         IN J!JsonSerialize("ServeImpl_TTrace_1790223065.json", _TETrace)

=============================================================================

 Note that you can extract this module `ServeImpl_TEExpression`
  to a dedicated file to reuse `expression` (the module in the 
  dedicated `ServeImpl_TEExpression.tla` file takes precedence 
  over the module `ServeImpl_TEExpression` below).

---- MODULE ServeImpl_TEExpression ----
EXTENDS Sequences, TLCExt, ServeImpl, Toolbox, Naturals, TLC

expression == 
    [
        \* To hide variables of the `ServeImpl` spec from the error trace,
        \* remove the variables below.  The trace will be written in the order
        \* of the fields of this record.
        cancelled |-> cancelled
        ,stopn |-> stopn
        ,wire |-> wire
        ,c |-> c
        ,h |-> h
        ,loop |-> loop
        ,netIn |-> netIn
        ,faults |-> faults
        ,rdr |-> rdr
        ,req |-> req
        ,ctxc |-> ctxc
        ,act |-> act
        ,nsent |-> nsent
        ,closed |-> closed
        ,tags |-> tags
        ,wr |-> wr
        
        \* Put additional constant-, state-, and action-level expressions here:
        \* ,_stateNumber |-> _TEPosition
        \* ,_cancelledUnchanged |-> cancelled = cancelled'
        
        \* Format the `cancelled` variable as Json value.
        \* ,_cancelledJson |->
        \*     LET J == INSTANCE Json
        \*     IN J!ToJson(cancelled)
        
        \* Lastly, you may build expressions over arbitrary sets of states by
        \* leveraging the _TETrace operator.  For example, this is how to
        \* count the number of times a spec variable changed up to the current
        \* state in the trace.
        \* ,_cancelledModCount |->
        \*     LET F[s \in DOMAIN _TETrace] ==
        \*         IF s = 1 THEN 0
        \*         ELSE IF _TETrace[s].cancelled # _TETrace[s-1].cancelled
        \*             THEN 1 + F[s-1] ELSE F[s-1]
        \*     IN F[_TEPosition - 1]
    ]

=============================================================================



Parsing and semantic processing can take forever if the trace below is long.
 In this case, it is advised to uncomment the module below to deserialize the
 trace from a generated binary file.

\*
\*---- MODULE ServeImpl_TETrace ----
\*EXTENDS IOUtils, ServeImpl, TLC
\*
\*trace == IODeserialize("ServeImpl_TTrace_1790223065.bin", TRUE)
\*
\*=============================================================================
\*

---- MODULE ServeImpl_TETrace ----
EXTENDS ServeImpl, TLC

trace == 
    <<
    ([rdr |-> [pc |-> "read", r |-> 0],c |-> [req |-> <<[tag |-> 0, kind |-> "none", old |-> 0], [tag |-> 0, kind |-> "none", old |-> 0], [tag |-> 0, kind |-> "none", old |-> 0]>>, stopn |-> 0, cout |-> <<0, 0, 0>>, noreply |-> {}, fl |-> <<0, 0, 0>>, expdup |-> {}, dupans |-> {}, bad |-> "", nrep |-> <<0, 0, 0>>, entered |-> {}, exited |-> {}, hres |-> <<"none", "none", "none">>, fault |-> FALSE, retd |-> FALSE],nsent |-> 0,stopn |-> 0,h |-> <<"none", "none", "none">>,faults |-> 0,tags |-> <<0, 0, 0>>,wire |-> <<>>,ctxc |-> FALSE,act |-> [i |-> 0, a |-> "init"],loop |-> [pc |-> "select", resp |-> [tag |-> 0, kind |-> "none", src |-> 0], a |-> 0],cancelled |-> {},closed |-> FALSE,wr |-> [pc |-> "recv", resp |-> [tag |-> 0, kind |-> "none", src |-> 0]],netIn |-> <<>>,req |-> <<[tag |-> 0, kind |-> "none", old |-> 0], [tag |-> 0, kind |-> "none", old |-> 0], [tag |-> 0, kind |-> "none", old |-> 0]>>]),
    ([rdr |-> [pc |-> "read", r |-> 0],c |-> [req |-> <<[tag |-> 1, kind |-> "flush", old |-> 1], [tag |-> 0, kind |-> "none", old |-> 0], [tag |-> 0, kind |-> "none", old |-> 0]>>, stopn |-> 0, cout |-> <<1, 0, 0>>, noreply |-> {}, fl |-> <<0, 0, 0>>, expdup |-> {}, dupans |-> {}, bad |-> "", nrep |-> <<0, 0, 0>>, entered |-> {}, exited |-> {}, hres |-> <<"none", "none", "none">>, fault |-> FALSE, retd |-> FALSE],nsent |-> 1,stopn |-> 0,h |-> <<"none", "none", "none">>,faults |-> 0,tags |-> <<0, 0, 0>>,wire |-> <<>>,ctxc |-> FALSE,act |-> [i |-> 1, a |-> "send"],loop |-> [pc |-> "select", resp |-> [tag |-> 0, kind |-> "none", src |-> 0], a |-> 0],cancelled |-> {},closed |-> FALSE,wr |-> [pc |-> "recv", resp |-> [tag |-> 0, kind |-> "none", src |-> 0]],netIn |-> <<1>>,req |-> <<[tag |-> 1, kind |-> "flush", old |-> 1], [tag |-> 0, kind |-> "none", old |-> 0], [tag |-> 0, kind |-> "none", old |-> 0]>>]),
    ([rdr |-> [pc |-> "read", r |-> 0],c |-> [req |-> <<[tag |-> 1, kind |-> "flush", old |-> 1], [tag |-> 2, kind |-> "req", old |-> 0], [tag |-> 0, kind |-> "none", old |-> 0]>>, stopn |-> 0, cout |-> <<1, 2, 0>>, noreply |-> {}, fl |-> <<0, 0, 0>>, expdup |-> {}, dupans |-> {}, bad |-> "", nrep |-> <<0, 0, 0>>, entered |-> {}, exited |-> {}, hres |-> <<"none", "none", "none">>, fault |-> FALSE, retd |-> FALSE],nsent |-> 2,stopn |-> 0,h |-> <<"none", "none", "none">>,faults |-> 0,tags |-> <<0, 0, 0>>,wire |-> <<>>,ctxc |-> FALSE,act |-> [i |-> 2, a |-> "send"],loop |-> [pc |-> "select", resp |-> [tag |-> 0, kind |-> "none", src |-> 0], a |-> 0],cancelled |-> {},closed |-> FALSE,wr |-> [pc |-> "recv", resp |-> [tag |-> 0, kind |-> "none", src |-> 0]],netIn |-> <<1, 2>>,req |-> <<[tag |-> 1, kind |-> "flush", old |-> 1], [tag |-> 2, kind |-> "req", old |-> 0], [tag |-> 0, kind |-> "none", old |-> 0]>>]),
    ([rdr |-> [pc |-> "read", r |-> 0],c |-> [req |-> <<[tag |-> 1, kind |-> "flush", old |-> 1], [tag |-> 2, kind |-> "req", old |-> 0], [tag |-> 3, kind |-> "flush", old |-> 2]>>, stopn |-> 0, cout |-> <<1, 2, 3>>, noreply |-> {}, fl |-> <<0, 0, 2>>, expdup |-> {}, dupans |-> {}, bad |-> "", nrep |-> <<0, 0, 0>>, entered |-> {}, exited |-> {}, hres |-> <<"none", "none", "none">>, fault |-> FALSE, retd |-> FALSE],nsent |-> 3,stopn |-> 0,h |-> <<"none", "none", "none">>,faults |-> 0,tags |-> <<0, 0, 0>>,wire |-> <<>>,ctxc |-> FALSE,act |-> [i |-> 3, a |-> "send"],loop |-> [pc |-> "select", resp |-> [tag |-> 0, kind |-> "none", src |-> 0], a |-> 0],cancelled |-> {},closed |-> FALSE,wr |-> [pc |-> "recv", resp |-> [tag |-> 0, kind |-> "none", src |-> 0]],netIn |-> <<1, 2, 3>>,req |-> <<[tag |-> 1, kind |-> "flush", old |-> 1], [tag |-> 2, kind |-> "req", old |-> 0], [tag |-> 3, kind |-> "flush", old |-> 2]>>]),
    ([rdr |-> [pc |-> "offer", r |-> 1],c |-> [req |-> <<[tag |-> 1, kind |-> "flush", old |-> 1], [tag |-> 2, kind |-> "req", old |-> 0], [tag |-> 3, kind |-> "flush", old |-> 2]>>, stopn |-> 0, cout |-> <<1, 2, 3>>, noreply |-> {}, fl |-> <<0, 0, 2>>, expdup |-> {}, dupans |-> {}, bad |-> "", nrep |-> <<0, 0, 0>>, entered |-> {}, exited |-> {}, hres |-> <<"none", "none", "none">>, fault |-> FALSE, retd |-> FALSE],nsent |-> 3,stopn |-> 0,h |-> <<"none", "none", "none">>,faults |-> 0,tags |-> <<0, 0, 0>>,wire |-> <<>>,ctxc |-> FALSE,act |-> [i |-> 1, a |-> "rdr.read"],loop |-> [pc |-> "select", resp |-> [tag |-> 0, kind |-> "none", src |-> 0], a |-> 0],cancelled |-> {},closed |-> FALSE,wr |-> [pc |-> "recv", resp |-> [tag |-> 0, kind |-> "none", src |-> 0]],netIn |-> <<2, 3>>,req |-> <<[tag |-> 1, kind |-> "flush", old |-> 1], [tag |-> 2, kind |-> "req", old |-> 0], [tag |-> 3, kind |-> "flush", old |-> 2]>>]),
    ([rdr |-> [pc |-> "read", r |-> 0],c |-> [req |-> <<[tag |-> 1, kind |-> "flush", old |-> 1], [tag |-> 2, kind |-> "req", old |-> 0], [tag |-> 3, kind |-> "flush", old |-> 2]>>, stopn |-> 0, cout |-> <<1, 2, 3>>, noreply |-> {}, fl |-> <<0, 0, 2>>, expdup |-> {}, dupans |-> {}, bad |-> "", nrep |-> <<0, 0, 0>>, entered |-> {}, exited |-> {}, hres |-> <<"none", "none", "none">>, fault |-> FALSE, retd |-> FALSE],nsent |-> 3,stopn |-> 0,h |-> <<"none", "none", "none">>,faults |-> 0,tags |-> <<0, 0, 0>>,wire |-> <<>>,ctxc |-> FALSE,act |-> [i |-> 1, a |-> "loop.flush"],loop |-> [pc |-> "send", resp |-> [tag |-> 1, kind |-> "unk", src |-> 1], a |-> 0],cancelled |-> {},closed |-> FALSE,wr |-> [pc |-> "recv", resp |-> [tag |-> 0, kind |-> "none", src |-> 0]],netIn |-> <<2, 3>>,req |-> <<[tag |-> 1, kind |-> "flush", old |-> 1], [tag |-> 2, kind |-> "req", old |-> 0], [tag |-> 3, kind |-> "flush", old |-> 2]>>]),
    ([rdr |-> [pc |-> "offer", r |-> 2],c |-> [req |-> <<[tag |-> 1, kind |-> "flush", old |-> 1], [tag |-> 2, kind |-> "req", old |-> 0], [tag |-> 3, kind |-> "flush", old |-> 2]>>, stopn |-> 0, cout |-> <<1, 2, 3>>, noreply |-> {}, fl |-> <<0, 0, 2>>, expdup |-> {}, dupans |-> {}, bad |-> "", nrep |-> <<0, 0, 0>>, entered |-> {}, exited |-> {}, hres |-> <<"none", "none", "none">>, fault |-> FALSE, retd |-> FALSE],nsent |-> 3,stopn |-> 0,h |-> <<"none", "none", "none">>,faults |-> 0,tags |-> <<0, 0, 0>>,wire |-> <<>>,ctxc |-> FALSE,act |-> [i |-> 2, a |-> "rdr.read"],loop |-> [pc |-> "send", resp |-> [tag |-> 1, kind |-> "unk", src |-> 1], a |-> 0],cancelled |-> {},closed |-> FALSE,wr |-> [pc |-> "recv", resp |-> [tag |-> 0, kind |-> "none", src |-> 0]],netIn |-> <<3>>,req |-> <<[tag |-> 1, kind |-> "flush", old |-> 1], [tag |-> 2, kind |-> "req", old |-> 0], [tag |-> 3, kind |-> "flush", old |-> 2]>>]),
    ([rdr |-> [pc |-> "offer", r |-> 2],c |-> [req |-> <<[tag |-> 1, kind |-> "flush", old |-> 1], [tag |-> 2, kind |-> "req", old |-> 0], [tag |-> 3, kind |-> "flush", old |-> 2]>>, stopn |-> 0, cout |-> <<1, 2, 3>>, noreply |-> {}, fl |-> <<0, 0, 2>>, expdup |-> {}, dupans |-> {}, bad |-> "", nrep |-> <<0, 0, 0>>, entered |-> {}, exited |-> {}, hres |-> <<"none", "none", "none">>, fault |-> FALSE, retd |-> FALSE],nsent |-> 3,stopn |-> 0,h |-> <<"none", "none", "none">>,faults |-> 0,tags |-> <<0, 0, 0>>,wire |-> <<>>,ctxc |-> FALSE,act |-> [i |-> 1, a |-> "loop.send"],loop |-> [pc |-> "select", resp |-> [tag |-> 0, kind |-> "none", src |-> 0], a |-> 0],cancelled |-> {},closed |-> FALSE,wr |-> [pc |-> "write", resp |-> [tag |-> 1, kind |-> "unk", src |-> 1]],netIn |-> <<3>>,req |-> <<[tag |-> 1, kind |-> "flush", old |-> 1], [tag |-> 2, kind |-> "req", old |-> 0], [tag |-> 3, kind |-> "flush", old |-> 2]>>]),
    ([rdr |-> [pc |-> "read", r |-> 0],c |-> [req |-> <<[tag |-> 1, kind |-> "flush", old |-> 1], [tag |-> 2, kind |-> "req", old |-> 0], [tag |-> 3, kind |-> "flush", old |-> 2]>>, stopn |-> 0, cout |-> <<1, 2, 3>>, noreply |-> {}, fl |-> <<0, 0, 2>>, expdup |-> {}, dupans |-> {}, bad |-> "", nrep |-> <<0, 0, 0>>, entered |-> {2}, exited |-> {}, hres |-> <<"none", "none", "none">>, fault |-> FALSE, retd |-> FALSE],nsent |-> 3,stopn |-> 0,h |-> <<"none", "run", "none">>,faults |-> 0,tags |-> <<0, 2, 0>>,wire |-> <<>>,ctxc |-> FALSE,act |-> [i |-> 2, a |-> "loop.dispatch"],loop |-> [pc |-> "select", resp |-> [tag |-> 0, kind |-> "none", src |-> 0], a |-> 0],cancelled |-> {},closed |-> FALSE,wr |-> [pc |-> "write", resp |-> [tag |-> 1, kind |-> "unk", src |-> 1]],netIn |-> <<3>>,req |-> <<[tag |-> 1, kind |-> "flush", old |-> 1], [tag |-> 2, kind |-> "req", old |-> 0], [tag |-> 3, kind |-> "flush", old |-> 2]>>]),
    ([rdr |-> [pc |-> "offer", r |-> 3],c |-> [req |-> <<[tag |-> 1, kind |-> "flush", old |-> 1], [tag |-> 2, kind |-> "req", old |-> 0], [tag |-> 3, kind |-> "flush", old |-> 2]>>, stopn |-> 0, cout |-> <<1, 2, 3>>, noreply |-> {}, fl |-> <<0, 0, 2>>, expdup |-> {}, dupans |-> {}, bad |-> "", nrep |-> <<0, 0, 0>>, entered |-> {2}, exited |-> {}, hres |-> <<"none", "none", "none">>, fault |-> FALSE, retd |-> FALSE],nsent |-> 3,stopn |-> 0,h |-> <<"none", "run", "none">>,faults |-> 0,tags |-> <<0, 2, 0>>,wire |-> <<>>,ctxc |-> FALSE,act |-> [i |-> 3, a |-> "rdr.read"],loop |-> [pc |-> "select", resp |-> [tag |-> 0, kind |-> "none", src |-> 0], a |-> 0],cancelled |-> {},closed |-> FALSE,wr |-> [pc |-> "write", resp |-> [tag |-> 1, kind |-> "unk", src |-> 1]],netIn |-> <<>>,req |-> <<[tag |-> 1, kind |-> "flush", old |-> 1], [tag |-> 2, kind |-> "req", old |-> 0], [tag |-> 3, kind |-> "flush", old |-> 2]>>]),
    ([rdr |-> [pc |-> "offer", r |-> 3],c |-> [req |-> <<[tag |-> 1, kind |-> "flush", old |-> 1], [tag |-> 2, kind |-> "req", old |-> 0], [tag |-> 3, kind |-> "flush", old |-> 2]>>, stopn |-> 0, cout |-> <<1, 2, 3>>, noreply |-> {}, fl |-> <<0, 0, 2>>, expdup |-> {}, dupans |-> {}, bad |-> "", nrep |-> <<0, 0, 0>>, entered |-> {2}, exited |-> {2}, hres |-> <<"none", "res", "none">>, fault |-> FALSE, retd |-> FALSE],nsent |-> 3,stopn |-> 0,h |-> <<"none", "offer", "none">>,faults |-> 0,tags |-> <<0, 2, 0>>,wire |-> <<>>,ctxc |-> FALSE,act |-> [i |-> 2, a |-> "h.done"],loop |-> [pc |-> "select", resp |-> [tag |-> 0, kind |-> "none", src |-> 0], a |-> 0],cancelled |-> {},closed |-> FALSE,wr |-> [pc |-> "write", resp |-> [tag |-> 1, kind |-> "unk", src |-> 1]],netIn |-> <<>>,req |-> <<[tag |-> 1, kind |-> "flush", old |-> 1], [tag |-> 2, kind |-> "req", old |-> 0], [tag |-> 3, kind |-> "flush", old |-> 2]>>]),
    ([rdr |-> [pc |-> "offer", r |-> 3],c |-> [req |-> <<[tag |-> 1, kind |-> "flush", old |-> 1], [tag |-> 2, kind |-> "req", old |-> 0], [tag |-> 3, kind |-> "flush", old |-> 2]>>, stopn |-> 0, cout |-> <<1, 2, 3>>, noreply |-> {}, fl |-> <<0, 0, 2>>, expdup |-> {}, dupans |-> {}, bad |-> "", nrep |-> <<0, 0, 0>>, entered |-> {2}, exited |-> {2}, hres |-> <<"none", "res", "none">>, fault |-> FALSE, retd |-> FALSE],nsent |-> 3,stopn |-> 0,h |-> <<"none", "exit", "none">>,faults |-> 0,tags |-> <<0, 2, 0>>,wire |-> <<>>,ctxc |-> FALSE,act |-> [i |-> 2, a |-> "loop.comp"],loop |-> [pc |-> "fwd", resp |-> [tag |-> 2, kind |-> "res", src |-> 2], a |-> 2],cancelled |-> {},closed |-> FALSE,wr |-> [pc |-> "write", resp |-> [tag |-> 1, kind |-> "unk", src |-> 1]],netIn |-> <<>>,req |-> <<[tag |-> 1, kind |-> "flush", old |-> 1], [tag |-> 2, kind |-> "req", old |-> 0], [tag |-> 3, kind |-> "flush", old |-> 2]>>])
    >>
----


=============================================================================

---- CONFIG ServeImpl_TTrace_1790223065 ----
CONSTANTS
    N = 3
    Tags = { 1 , 2 , 3 }
    MaxFaults = 0
    FaultKinds = { "read" , "write" , "ctx" }
    FixStale = TRUE
    FixFwd = TRUE
    FixStop = TRUE

INVARIANT
    _inv

CHECK_DEADLOCK
    \* CHECK_DEADLOCK off because of PROPERTY or INVARIANT above.
    FALSE

INIT
    _init

NEXT
    _next

CONSTANT
    _TETrace <- _trace

ALIAS
    _expression
=============================================================================
\* Generated on Thu Sep 24 04:11:12 UTC 2026