CONSTANTS
  N = 4
  Tags = {1, 2}
  MaxFaults = 1
  FaultKinds = {"read", "write", "ctx"}
  FixStale = TRUE
  FixFwd = TRUE
  FixStop = TRUE
SPECIFICATION Spec
INVARIANTS TypeOK ContractOK HandlerOnlyForRequests OriginalUndisturbed AtMostOneReply CancelledOnReturn StopAfterReturn StopAfterHandlers

VIEW View
CHECK_DEADLOCK FALSE
