---------------------------- MODULE ServeContract ----------------------------
(***************************************************************************)
(* What C06 / C07 / C11 promise, stated on externally observable events    *)
(* only: requests the client sends, handler invocations and returns,       *)
(* replies the client reads, injected faults, ServeConn returning, Stop.   *)
(* The contract state `c` is a deterministic function of the event         *)
(* sequence; a broken promise is recorded in c.bad.                        *)
(*                                                                         *)
(* Used twice: ServeImpl.tla carries `c` as a ghost variable (TLC checks   *)
(* that the implementation-shaped model never breaks the contract) and     *)
(* ServeTrace.tla folds it over event traces recorded from the real        *)
(* p9p.ServeConn.                                                          *)
(***************************************************************************)
EXTENDS Integers, Sequences, FiniteSets

CONSTANTS CIds,   \* request ids
          CTags   \* tags

CNoReq == [tag |-> 0, kind |-> "none", old |-> 0]

C0 == [ req     |-> [i \in CIds |-> CNoReq],
        cout    |-> [t \in CTags |-> 0],   \* request the client has outstanding on a tag (0: none)
        expdup  |-> {},                    \* deliberate duplicates (sent while the original is held)
        dupans  |-> {},                    \* duplicates already answered
        fl      |-> [i \in CIds |-> 0],    \* flush request -> the request it flushes (0: none)
        noreply |-> {},                    \* requests whose flush was acknowledged: no reply may follow
        nrep    |-> [i \in CIds |-> 0],    \* replies seen per request
        entered |-> {}, exited |-> {},     \* handler invocations / returns
        hres    |-> [i \in CIds |-> "none"], \* "res" / "err": what the handler returned
        fault   |-> FALSE, retd |-> FALSE, stopn |-> 0,
        bad     |-> "" ]

Flag(c, why) == IF c.bad = "" THEN [c EXCEPT !.bad = why] ELSE c

\* the client writes request i: tag t, kind "req" or "flush" (of tag old); isdup: a deliberate duplicate
CSend(c, i, t, k, old, isdup) ==
  LET c1 == [c EXCEPT !.req[i] = [tag |-> t, kind |-> k, old |-> IF k = "flush" THEN old ELSE 0]] IN
  IF isdup THEN [c1 EXCEPT !.expdup = @ \cup {i}]
  ELSE LET c2 == [c1 EXCEPT !.cout[t] = i] IN
       IF k = "flush" THEN [c2 EXCEPT !.fl[i] = c.cout[old]] ELSE c2

\* Handler.Handle is invoked for request i; match: the message equals the one sent
CEnter(c, i, match) ==
  LET c1 == [c EXCEPT !.entered = @ \cup {i}] IN
  IF i \in c.entered THEN Flag(c1, "handler-invoked-twice")
  ELSE IF c.req[i].kind # "req" THEN Flag(c1, "handler-invoked-for-flush")
  ELSE IF i \in c.expdup /\ ~c.fault THEN Flag(c1, "duplicate-dispatched")
  ELSE IF ~match THEN Flag(c1, "handler-got-different-message")
  ELSE c1

\* Handler.Handle returns for request i with a result ("res") or an error ("err")
CExit(c, i, k) == [c EXCEPT !.exited = @ \cup {i}, !.hres[i] = k]

\* The client reads a reply: tag t, kind in res / err (payload names handler src) / dup / rflush / unk / other;
\* done: requests whose handler context is observed cancelled at this moment
CReply(c, t, k, src, done) ==
  IF c.fault THEN c          \* after an injected fault the client stops interpreting replies
  ELSE IF k \in {"res", "err"} THEN
    LET c1 == [c EXCEPT !.cout[t] = 0, !.nrep[src] = @ + 1] IN
    IF src \notin CIds \/ c.req[src].kind # "req" THEN Flag(c, "reply-from-nowhere")
    ELSE IF c.cout[t] # src THEN
         Flag(c1, IF src \in c.noreply /\ c.cout[t] = 0 THEN "reply-after-flush-ack"
                  ELSE IF src \in c.noreply THEN "flushed-reply-answers-new-request"   \* the tag's next user gets the flushed request's result
                  ELSE IF c.nrep[src] > 0 THEN "second-reply" ELSE "reply-for-wrong-request")
    ELSE IF src \notin c.exited THEN Flag(c1, "reply-before-handler-returned")
    ELSE IF c.hres[src] # k THEN Flag(c1, "result-kind-changed")
    ELSE c1
  ELSE IF k = "dup" THEN
    LET ds == {d \in c.expdup \ c.dupans : c.req[d].tag = t} IN
    IF ds = {} THEN Flag(c, "unexpected-duptag-error")
    ELSE LET d == CHOOSE d \in ds : \A e \in ds : d <= e IN [c EXCEPT !.dupans = @ \cup {d}, !.nrep[d] = @ + 1]
  ELSE IF k \in {"rflush", "unk"} THEN
    LET f == c.cout[t] IN
    IF f = 0 \/ c.req[f].kind # "flush" THEN Flag(c, "unexpected-flush-reply")
    ELSE LET victim == c.fl[f]
             o == c.req[f].old
             c1 == [c EXCEPT !.cout = [tt \in CTags |-> IF tt = t THEN 0
                                         ELSE IF tt = o /\ victim # 0 /\ c.cout[o] = victim THEN 0 ELSE c.cout[tt]],
                             !.noreply = IF victim # 0 THEN @ \cup {victim} ELSE @,
                             !.nrep[f] = @ + 1] IN
         IF k = "rflush" /\ victim # 0 /\ victim \in c.entered /\ victim \notin done
           THEN Flag(c1, "rflush-before-cancel") ELSE c1
  ELSE Flag(c, "malformed-reply")

CFault(c) == [c EXCEPT !.fault = TRUE]

CStop(c) == LET c1 == [c EXCEPT !.stopn = @ + 1] IN
            IF c.stopn >= 1 THEN Flag(c1, "stop-called-twice") ELSE c1

\* ServeConn returned; done as in CReply
CRet(c, done) ==
  LET c1 == [c EXCEPT !.retd = TRUE] IN
  IF ~c.fault THEN Flag(c1, "serving-ended-without-cause")     \* nothing failed, nobody disconnected, no context was cancelled
  ELSE IF c.stopn # 1 THEN Flag(c1, "stop-not-called-once")
  ELSE IF \E i \in c.entered \ c.exited : i \notin done THEN Flag(c1, "inflight-not-cancelled")
  ELSE c1

\* The scenario ended after the harness waited for quiescence (all handlers released).
Flushing(c, i) == \E f \in CIds : c.fl[f] = i
CEnd(c) ==
  IF c.fault THEN c
  ELSE LET U == {i \in CIds : c.req[i].kind = "req" /\ i \notin c.expdup /\ i \in c.exited
                                /\ ~Flushing(c, i) /\ c.nrep[i] # 1} IN
  IF \E i \in U : \E v \in c.noreply : v # i /\ c.req[v].tag = c.req[i].tag
       THEN Flag(c, "request-on-reused-tag-unanswered")   \* C07: the tag freed by a flush is reused and its new user gets no reply
  ELSE IF U # {} THEN Flag(c, "request-unanswered")
  ELSE IF \E i \in CIds : c.req[i].kind = "flush" /\ i \notin c.expdup /\ c.nrep[i] # 1 THEN Flag(c, "flush-unanswered")
  ELSE IF c.expdup # c.dupans THEN Flag(c, "duplicate-unanswered")
  ELSE c
=============================================================================
