CONSTANTS
  N = 3
  Tags = {1, 2}
  MaxFaults = 1
  FaultKinds = {"read", "write", "ctx"}
  FixStale = TRUE
  FixFwd = TRUE
  FixStop = TRUE
SPECIFICATION FairSpec
INVARIANTS TypeOK ContractOK HandlerOnlyForRequests OriginalUndisturbed AtMostOneReply CancelledOnReturn StopAfterReturn StopAfterHandlers
PROPERTIES ShutdownPrompt StopRuns
VIEW View
CHECK_DEADLOCK FALSE
