------------------------------ MODULE ServeSim ------------------------------
(* Prints one JSON line per simulated transition of ServeImpl:               *)
(* [level, action label, request record of the label's id].                  *)
EXTENDS ServeImpl, Json
Emit == PrintT(ToJson(<<TLCGet("level"), act', IF act'.i \in Ids THEN req'[act'.i] ELSE NoReq>>))
=============================================================================
