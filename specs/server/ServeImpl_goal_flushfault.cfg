CONSTANTS
  N = 3
  Tags = {1, 2}
  MaxFaults = 1
  FaultKinds = {"read", "write", "ctx"}
  FixStale = TRUE
  FixFwd = TRUE
  FixStop = TRUE
SPECIFICATION Spec
INVARIANTS NeverFlushRacesFault


CHECK_DEADLOCK FALSE
