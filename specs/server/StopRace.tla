------------------------------ MODULE StopRace ------------------------------
(***************************************************************************)
(* Session.Stop against a handler that is still inside the session when    *)
(* serving ends (C11: "after stop, and once in-flight handlers have        *)
(* returned, no fid remains bound: every entry released exactly once").    *)
(* One in-flight operation that binds a new entry (attach / clone / walk / *)
(* create), the serve loop returning on a fault, and Stop.  FixStop = TRUE *)
(* models ServeConn waiting for the handler goroutines before it calls     *)
(* Stop; FALSE is the code at the pinned commit (D8).                      *)
(***************************************************************************)
EXTENDS Integers, FiniteSets, TLC

CONSTANTS Ops, FixStop

VARIABLES op,        \* the in-flight operation
          pc,        \* "start" | "infs" (inside the FileSys call) | "bind" | "done"
          served,    \* serve() has returned (all request contexts cancelled)
          stop,      \* "idle" | "done"
          bound,     \* entries bound to fids: subset of {"e0", "e1"}
          rel,       \* release count per entry
          handed,    \* entries the file system handed to the session
          usedDead   \* an entry was released while a FileSys call on it was in progress
vars == <<op, pc, served, stop, bound, rel, handed, usedDead>>

Ents == {"e0", "e1"}
NeedsE0 == {"clone", "walk", "create"}

Init == /\ op \in Ops /\ pc = "start" /\ served = FALSE /\ stop = "idle"
        /\ bound = IF op \in NeedsE0 THEN {"e0"} ELSE {}
        /\ handed = bound
        /\ rel = [e \in Ents |-> 0] /\ usedDead = FALSE

\* the handler enters the FileSys call (on e0 for clone/walk/create, on the FileSys for attach)
EnterFS == /\ pc = "start" /\ pc' = "infs"
           /\ UNCHANGED <<op, served, stop, bound, rel, handed, usedDead>>
\* the FileSys call returns a new entry e1 (a successful create consumes e0)
ExitFS == /\ pc = "infs" /\ pc' = "bind"
          /\ handed' = handed \cup {"e1"}
          /\ rel' = IF op = "create" THEN [rel EXCEPT !["e0"] = @ + 1] ELSE rel
          /\ bound' = IF op = "create" THEN bound \ {"e0"} ELSE bound
          /\ UNCHANGED <<op, served, stop, usedDead>>
\* the session binds e1 to the (new) fid and returns
Bind == /\ pc = "bind" /\ pc' = "done"
        /\ bound' = bound \cup {"e1"}
        /\ UNCHANGED <<op, served, stop, rel, handed, usedDead>>
\* a fault ends serving; contexts are cancelled
ServeReturns == /\ ~served /\ served' = TRUE
                /\ UNCHANGED <<op, pc, stop, bound, rel, handed, usedDead>>
\* Stop releases every entry bound at that moment
Stop == /\ served /\ stop = "idle"
        /\ FixStop => pc = "done"
        /\ stop' = "done"
        /\ rel' = [e \in Ents |-> IF e \in bound THEN rel[e] + 1 ELSE rel[e]]
        /\ usedDead' = (usedDead \/ (pc = "infs" /\ op \in NeedsE0 /\ "e0" \in bound))
        /\ bound' = {}
        /\ UNCHANGED <<op, pc, served, handed>>

Next == EnterFS \/ ExitFS \/ Bind \/ ServeReturns \/ Stop
Spec == Init /\ [][Next]_vars /\ WF_vars(Next)

Finished == pc = "done" /\ stop = "done"
NothingBoundAtEnd == Finished => bound = {}
ReleasedOnceAtEnd == Finished => \A e \in handed : rel[e] = 1
NeverUsedAfterRelease == ~usedDead
Terminates == <>Finished
=============================================================================
