------------------------------- MODULE CFSLTS -------------------------------
EXTENDS CFileSys, Json
Emit == PrintT(ToJson(<<View, last', View', TLCGet("level")>>))
=============================================================================
