------------------------------ MODULE CFileSys ------------------------------
(***************************************************************************)
(* The client file-system layer (cfilesys.go) over a 9P session (C20):     *)
(* live entry objects <-> pairwise distinct fids; every operation issues   *)
(* the corresponding session call on the entry's own fid; a walk sends the *)
(* normalised steps to a fresh fid and is reported as success (with an     *)
(* entry for the walked-to file) iff the server completed it; a failed or  *)
(* partial walk leaves no fid bound; when every entry has been clunked or  *)
(* removed the server holds no fid of this client.                         *)
(*                                                                         *)
(* The server is abstracted to what 9P promises about a session (C08):     *)
(* `sb` is the set of fids bound on the server.  The outcome of each       *)
(* session call (complete / partial / error ...) is an action parameter,   *)
(* scripted into the real server's FileSys by the harness.                 *)
(***************************************************************************)
EXTENDS Integers, Sequences, FiniteSets, TLC

CONSTANTS MaxFid,      \* fids the client may allocate (1..MaxFid)
          MaxEnts,     \* live entries at a time
          NameLists,   \* name lists used in walks
          CreateNames

VARIABLES ents,     \* live entries: set of [fid, dir, open]
          nextfid,  \* last fid handed out by the client layer
          sb,       \* fids bound on the server
          last      \* output only
vars == <<ents, nextfid, sb, last>>
View == <<ents, nextfid, sb>>

NOFID == 99
SepNames == {"a/b", "a\\b"}

\* ---- normalisation as the property states it: drop "" and ".", ".." cancels a preceding
\* ordinary name, a ".." that cannot cancel is kept (leading run); separators are invalid
RECURSIVE Norm(_, _, _)
Norm(s, acc, lo) ==
  IF s = <<>> THEN [steps |-> acc, bsp |-> lo]
  ELSE LET x == Head(s) IN
       IF x \in SepNames THEN [steps |-> <<>>, bsp |-> -1]
       ELSE IF x = "" \/ x = "." THEN Norm(Tail(s), acc, lo)
       ELSE IF x = ".." THEN
              IF Len(acc) > lo THEN Norm(Tail(s), SubSeq(acc, 1, Len(acc) - 1), lo)
              ELSE Norm(Tail(s), Append(acc, ".."), lo + 1)
       ELSE Norm(Tail(s), Append(acc, x), lo)
Normalize(names) == Norm(names, <<>>, 0)

NoCall == [m |-> "none", fid |-> NOFID, nf |-> NOFID, names |-> <<>>, name |-> ""]
Call(m, fid, nf, names, name) == [m |-> m, fid |-> fid, nf |-> nf, names |-> names, name |-> name]
\* op: client operation; e: fid of the entry operated on; call: expected session call;
\* out: scripted server outcome; ok: the client layer reports success; k: qids of a partial walk;
\* dir: kind of the new entry
Rec(op, e, names, name, call, out, ok, k, dir) ==
  [op |-> op, e |-> e, names |-> names, name |-> name, call |-> call, out |-> out, ok |-> ok, k |-> k, dir |-> dir]

Init == ents = {} /\ nextfid = 0 /\ sb = {} /\ last = Rec("init", NOFID, <<>>, "", NoCall, "", TRUE, 0, FALSE)

Attach ==
  /\ nextfid < MaxFid /\ Cardinality(ents) < MaxEnts
  /\ LET f == nextfid + 1 IN
     /\ nextfid' = f
     /\ \E out \in {"ok", "fail"} :
          /\ ents' = IF out = "ok" THEN ents \cup {[fid |-> f, dir |-> TRUE, open |-> FALSE]} ELSE ents
          /\ sb' = IF out = "ok" THEN sb \cup {f} ELSE sb
          /\ last' = Rec("attach", NOFID, <<>>, "", Call("attach", f, NOFID, <<>>, ""), out, out = "ok", 0, TRUE)

Walk(e, names) ==
  LET n == Normalize(names) IN
  IF n.bsp < 0 THEN
    /\ UNCHANGED <<ents, nextfid, sb>>
    /\ last' = Rec("walk", e.fid, names, "", NoCall, "", FALSE, 0, FALSE)
  ELSE
    /\ nextfid < MaxFid /\ Cardinality(ents) < MaxEnts
    /\ LET f == nextfid + 1
           c == Call("walk", e.fid, f, n.steps, "") IN
       /\ nextfid' = f
       /\ \/ \* the server completes the walk: newfid is bound, the layer must report success
             \E d \in (IF Len(n.steps) = 0 THEN {e.dir} ELSE BOOLEAN) :
               /\ Len(n.steps) > 0 => e.dir
               /\ ents' = ents \cup {[fid |-> f, dir |-> d, open |-> FALSE]}
               /\ sb' = sb \cup {f}
               /\ last' = Rec("walk", e.fid, names, "", c, "complete", TRUE, Len(n.steps), d)
          \/ \* partial walk: k < len(steps) qids, nothing bound, reported as failure
             \E k \in 0..(Len(n.steps) - 1) :
               /\ e.dir
               /\ UNCHANGED <<ents, sb>>
               /\ last' = Rec("walk", e.fid, names, "", c, "partial", FALSE, k, FALSE)
          \/ \* the server refuses (error reply): nothing bound
             /\ UNCHANGED <<ents, sb>>
             /\ last' = Rec("walk", e.fid, names, "", c, IF Len(n.steps) > 0 /\ ~e.dir THEN "notdir" ELSE "fail", FALSE, 0, FALSE)

Simple(op, e) ==   \* stat, wstat: one call on the entry's fid, nothing changes
  /\ UNCHANGED <<ents, nextfid, sb>>
  /\ \E out \in {"ok", "fail"} :
       last' = Rec(op, e.fid, <<>>, "", Call(op, e.fid, NOFID, <<>>, ""), out, out = "ok", 0, FALSE)

Open(e) ==         \* a fid can be opened once (C08); create leaves it open
  /\ UNCHANGED <<nextfid, sb>>
  /\ IF e.open THEN /\ UNCHANGED ents
                    /\ last' = Rec("open", e.fid, <<>>, "", Call("open", e.fid, NOFID, <<>>, ""), "alreadyopen", FALSE, 0, FALSE)
     ELSE \E out \in {"ok", "fail"} :
            /\ ents' = IF out = "ok" THEN (ents \ {e}) \cup {[e EXCEPT !.open = TRUE]} ELSE ents
            /\ last' = Rec("open", e.fid, <<>>, "", Call("open", e.fid, NOFID, <<>>, ""), out, out = "ok", 0, FALSE)

Del(op, e) ==      \* clunk, remove: the entry dies and the server unbinds the fid whatever the reply
  /\ ents' = ents \ {e}
  /\ sb' = sb \ {e.fid}
  /\ UNCHANGED nextfid
  /\ \E out \in {"ok", "fail"} :
       last' = Rec(op, e.fid, <<>>, "", Call(op, e.fid, NOFID, <<>>, ""), out, out = "ok", 0, FALSE)
\* ... unless the request never reached the server (the session call failed without a reply, e.g. the connection
\* dropped and came back): nothing has happened, the entry is as live as before and the caller may try again
Lost(op, e) ==
  /\ UNCHANGED <<ents, nextfid, sb>>
  /\ last' = Rec(op, e.fid, <<>>, "", Call(op, e.fid, NOFID, <<>>, ""), "lost", FALSE, 0, FALSE)

Create(e, nm) ==
  IF nm \in {"", ".", ".."} \/ ~e.dir THEN
    /\ UNCHANGED <<ents, nextfid, sb>>
    /\ last' = Rec("create", e.fid, <<>>, nm, NoCall, "", FALSE, 0, FALSE)
  ELSE
    \E out \in {"ok", "fail"}, d \in BOOLEAN :
      /\ out = "fail" => ~d
      /\ ents' = IF out = "ok" THEN (ents \ {e}) \cup {[fid |-> e.fid, dir |-> d, open |-> TRUE]} ELSE ents
      /\ UNCHANGED <<nextfid, sb>>
      /\ last' = Rec("create", e.fid, <<>>, nm, Call("create", e.fid, NOFID, <<>>, nm), out, out = "ok", 0, d)

Next ==
  \/ Attach
  \/ \E e \in ents, ns \in NameLists : Walk(e, ns)
  \/ \E e \in ents : Simple("stat", e)
  \/ \E e \in ents : Simple("wstat", e)
  \/ \E e \in ents : Open(e)
  \/ \E e \in ents : Del("clunk", e)
  \/ \E e \in ents : Del("remove", e)
  \/ \E e \in ents : Lost("clunk", e) \/ Lost("remove", e)
  \/ \E e \in ents, nm \in CreateNames : ~e.open /\ Create(e, nm)   \* (9P forbids create through an open fid)

Spec == Init /\ [][Next]_vars

\* ------------------------------------------------------------- properties
TypeOK == /\ nextfid \in 0..MaxFid /\ sb \subseteq 1..MaxFid
          /\ \A e \in ents : e.fid \in 1..MaxFid
\* live entries <-> pairwise distinct fids, all bound on the server, and nothing else is bound
DistinctFids == \A a, b \in ents : a.fid = b.fid => a = b
ExactlyLiveBound == sb = {e.fid : e \in ents}
\* fresh fids only: a fid is never handed out twice
FreshFids == [][nextfid' >= nextfid /\ (last'.call.m = "walk" => last'.call.nf = nextfid' /\ last'.call.nf \notin sb)]_vars
\* the steps sent are valid 9P walk elements: no "", ".", separators; ".." only as a leading run
StepsValid == LET s == last.call.names IN
              /\ \A i \in 1..Len(s) : s[i] \notin {"", "."} \cup SepNames
              /\ \A i \in 1..Len(s) : s[i] = ".." => \A j \in 1..i : s[j] = ".."
\* normalisation is idempotent
NormIdempotent == \A ns \in NameLists : Normalize(ns).bsp >= 0 => Normalize(Normalize(ns).steps).steps = Normalize(ns).steps

\* more names than one Twalk may carry (16): the layer still issues one session call with all the steps
\* (refusing over-long walks is the session's business, csession.go)
Long17 == [i \in 1..17 |-> IF i % 2 = 1 THEN "a" ELSE "b"]
Long17n == <<"x", "..", ".">> \o Long17 \o <<"">>
NL2 == LET A == {".", "", "a", "b", "..", "a/b"} IN
       {<<>>} \cup {<<x>> : x \in A} \cup {<<x, y>> : x \in A, y \in A}
       \cup {<<"a", "..", "b">>, <<"a", "b", "..">>, <<"..", "..", "a">>, <<"a", ".", "..">>}
       \cup {Long17, Long17n}
NL3 == LET A == {".", "", "a", "b", "..", "a/b"} IN
       NL2 \cup {<<x, y, z>> : x \in A, y \in A, z \in A}
=============================================================================
