CONSTANTS
  MaxFid = 5
  MaxEnts = 3
  NameLists <- NL3
  CreateNames = {"x", ".", ""}
SPECIFICATION Spec
INVARIANTS TypeOK DistinctFids ExactlyLiveBound StepsValid NormIdempotent
PROPERTIES FreshFids
VIEW View
ACTION_CONSTRAINT Emit
CHECK_DEADLOCK FALSE
