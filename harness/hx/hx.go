// Package hx holds the plumbing shared by all conformance engines:
// result documents, ndjson I/O, seeded PRNG, hang detection with goroutine dumps.
package hx

import (
	"bufio"
	"encoding/json"
	"fmt"
	"math/rand"
	"os"
	"runtime"
	"strconv"
	"strings"
	"sync"
	"time"
)

type Violation struct {
	Sig    string      `json:"sig"`
	Tag    string      `json:"tag,omitempty"` // class used by the orchestrator to route to properties
	Detail string      `json:"detail"`
	Replay interface{} `json:"replay,omitempty"`
}

type Result struct {
	mu          sync.Mutex
	Evaluations int                    `json:"evaluations"`
	Distinct    int                    `json:"distinct"`
	Samples     []interface{}          `json:"samples"`
	Violations  []Violation            `json:"violations"`
	Drift       []string               `json:"drift"`
	Extra       map[string]interface{} `json:"extra"`
	seenSig     map[string]int
	seenDrift   map[string]bool
}

var (
	curMu   sync.Mutex
	current *Result
)

func NewResult() *Result {
	r := &Result{Extra: map[string]interface{}{}, seenSig: map[string]int{}, seenDrift: map[string]bool{}}
	curMu.Lock()
	current = r
	curMu.Unlock()
	return r
}

// Current returns the result document of the running engine (for the time-budget watchdog of cmd/vh).
func Current() *Result {
	curMu.Lock()
	defer curMu.Unlock()
	return current
}

// Violate records a violation; at most 3 per signature are kept.
func (r *Result) Violate(tag, sig, detail string, replay interface{}) {
	r.mu.Lock()
	defer r.mu.Unlock()
	r.seenSig[sig]++
	if r.seenSig[sig] > 2 {
		return
	}
	r.Violations = append(r.Violations, Violation{Sig: sig, Tag: tag, Detail: detail, Replay: replay})
}

func (r *Result) NViol() int {
	r.mu.Lock()
	defer r.mu.Unlock()
	return len(r.Violations)
}

func (r *Result) DriftNote(s string) {
	r.mu.Lock()
	defer r.mu.Unlock()
	if r.seenDrift[s] || len(r.Drift) > 30 {
		return
	}
	r.seenDrift[s] = true
	r.Drift = append(r.Drift, s)
}

func (r *Result) Sample(v interface{}) {
	r.mu.Lock()
	defer r.mu.Unlock()
	if len(r.Samples) < 5 {
		r.Samples = append(r.Samples, v)
	}
}

func (r *Result) Add(k string, n int) {
	r.mu.Lock()
	defer r.mu.Unlock()
	if v, ok := r.Extra[k].(int); ok {
		r.Extra[k] = v + n
	} else {
		r.Extra[k] = n
	}
}

func (r *Result) Set(k string, v interface{}) {
	r.mu.Lock()
	defer r.mu.Unlock()
	r.Extra[k] = v
}

func (r *Result) Write(path string) {
	r.mu.Lock()
	defer r.mu.Unlock()
	if r.Samples == nil {
		r.Samples = []interface{}{}
	}
	b, err := json.Marshal(r)
	if err != nil {
		fmt.Fprintln(os.Stderr, "result marshal:", err)
		os.Exit(3)
	}
	if path == "" {
		os.Stdout.Write(b)
		return
	}
	if err := os.WriteFile(path, b, 0644); err != nil {
		fmt.Fprintln(os.Stderr, "result write:", err)
		os.Exit(3)
	}
}

func Seed() int64 {
	if s, err := strconv.ParseInt(os.Getenv("VERIF_SEED"), 10, 64); err == nil {
		return s
	}
	return 1
}

func Rand(salt int64) *rand.Rand { return rand.New(rand.NewSource(Seed()*7919 + salt)) }

// ReadNDJSON calls f for every line of path.
func ReadNDJSON(path string, f func(line []byte) error) error {
	fh, err := os.Open(path)
	if err != nil {
		return err
	}
	defer fh.Close()
	sc := bufio.NewScanner(fh)
	sc.Buffer(make([]byte, 1<<20), 1<<28)
	for sc.Scan() {
		b := sc.Bytes()
		if len(b) == 0 {
			continue
		}
		if err := f(b); err != nil {
			return err
		}
	}
	return sc.Err()
}

// Dump returns the stacks of all goroutines.
func Dump() string {
	buf := make([]byte, 1<<22)
	n := runtime.Stack(buf, true)
	return string(buf[:n])
}

// GoroutinesWith returns the goroutine blocks of a dump that contain all needles.
func GoroutinesWith(dump string, needles ...string) []string {
	var out []string
	for _, g := range strings.Split(dump, "\n\n") {
		ok := true
		for _, n := range needles {
			if !strings.Contains(g, n) {
				ok = false
				break
			}
		}
		if ok {
			out = append(out, g)
		}
	}
	return out
}

// RunTimed runs f in a goroutine and reports whether it returned within d.
// On timeout the goroutine is abandoned and a full dump is returned; a panic in f
// is recovered and returned as a dump starting with "PANIC:".
func RunTimed(d time.Duration, f func()) (ok bool, dump string) {
	done := make(chan struct{})
	var pv string
	go func() {
		defer close(done)
		defer func() {
			if r := recover(); r != nil {
				buf := make([]byte, 1<<14)
				pv = fmt.Sprintf("PANIC: %v\n%s", r, buf[:runtime.Stack(buf, false)])
			}
		}()
		f()
	}()
	t := time.NewTimer(d)
	defer t.Stop()
	select {
	case <-done:
		if pv != "" {
			return false, pv
		}
		return true, ""
	case <-t.C:
		return false, Dump()
	}
}

func Trunc(s string, n int) string {
	if len(s) > n {
		return s[:n] + "..."
	}
	return s
}

func JS(v interface{}) string {
	b, _ := json.Marshal(v)
	return string(b)
}

// GoID returns the id of the calling goroutine (parsed from the stack header; harness use only:
// calls without a context, such as Dirent.Qid, are attributed to the session call that runs them).
func GoID() int64 {
	var buf [64]byte
	n := runtime.Stack(buf[:], false)
	s := strings.TrimPrefix(string(buf[:n]), "goroutine ")
	if i := strings.IndexByte(s, ' '); i > 0 {
		id, _ := strconv.ParseInt(s[:i], 10, 64)
		return id
	}
	return 0
}
