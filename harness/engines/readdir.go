package engines

// Engine "readdir" (C17): the LTS of specs/readdir/Readdir.tla replayed on the real
// p9p.Readdir (directly, and through Session.Read on a directory fid of SFileSys),
// and directory listing through the client file-system layer over a real connection
// at msizes forced by rewriting the client's Tversion.

import (
	"bytes"
	"context"
	"encoding/binary"
	"encoding/json"
	"flag"
	"fmt"
	"reflect"
	"strings"
	"sync"
	"time"

	p9p "github.com/frobnitzem/go-p9p"
	"verif/harness/gconn"
	"verif/harness/hx"
	"verif/harness/sfs"
)

type rdLabel struct {
	Op    string `json:"op"`
	C     int    `json:"c"`
	O     int    `json:"o"`
	K     int    `json:"k"`
	Bytes int    `json:"bytes"`
	Err   bool   `json:"err"`
	IErr  bool   `json:"ierr"`
}

// dirOfSize builds a directory entry whose encoding has exactly n bytes (49 + string bytes).
func dirOfSize(n, idx int) p9p.Dir {
	extra := n - 49
	name := fmt.Sprintf("%c", 'a'+idx%26)
	uid := ""
	if extra <= 0 {
		name = ""
	}
	if extra > 1 {
		uid = strings.Repeat("u", (extra-1)/2)
		name += strings.Repeat("n", extra-1-len(uid))
	}
	return p9p.Dir{Name: name, UID: uid, Qid: p9p.Qid{Path: uint64(1000 + idx), Version: uint32(idx)}, Mode: 0644,
		Length: uint64(idx * 3), AccessTime: time.Unix(int64(1000+idx), 0).UTC(), ModTime: time.Unix(int64(2000+idx), 0).UTC()}
}

// batchIter hands out the listing in the given batches; failAt > 0: its failAt-th call fails (once) without
// handing anything out (the call after the last batch is the one that reports the end).
func batchIter(dirs []p9p.Dir, cuts []int, failAt int) p9p.ReadNext {
	i, b := 0, 0
	return func(context.Context) ([]p9p.Dir, error) {
		if failAt > 0 && b+1 == failAt {
			failAt = 0
			return nil, p9p.MessageRerror{Ename: "iterator: transient failure"}
		}
		if b >= len(cuts) {
			return nil, nil
		}
		out := dirs[i : i+cuts[b]]
		i += cuts[b]
		b++
		return out, nil
	}
}

type rdExec struct {
	res     *hx.Result
	via     string // "direct" | "session"
	dirs    []p9p.Dir
	enc     [][]byte
	read    func(p []byte, off int64) (int, error)
	pos     int
	hist    []rdLabel
	listing []int
	cuts    []int
	failb   int
}

func (x *rdExec) viol(sig, d string) {
	x.res.Violate("C17", sig+":"+x.via, fmt.Sprintf("%s [listing sizes %v in batches %v; history %s]", d, x.listing, x.cuts, hx.JS(x.hist)),
		map[string]interface{}{"engine": "readdir", "via": x.via, "listing": x.listing, "batches": x.cuts, "history": x.hist})
}

func (x *rdExec) Step(label, from, to json.RawMessage) bool {
	var l rdLabel
	json.Unmarshal(label, &l)
	x.hist = append(x.hist, l)
	if l.Op == "setup" {
		var parts []json.RawMessage
		json.Unmarshal(to, &parts)
		json.Unmarshal(parts[0], &x.listing)
		json.Unmarshal(parts[1], &x.cuts)
		if len(parts) >= 8 {
			json.Unmarshal(parts[7], &x.failb)
		}
		codec := p9p.NewCodec()
		for i, n := range x.listing {
			d := dirOfSize(n, i)
			b, _ := codec.Marshal(d)
			if len(b) != n {
				x.res.Violate("harness", "harness:dirsize", fmt.Sprintf("entry of size %d encodes to %d", n, len(b)), nil)
				return false
			}
			x.dirs = append(x.dirs, d)
			x.enc = append(x.enc, b)
		}
		if x.via == "direct" {
			rd := p9p.NewReaddir(codec, batchIter(x.dirs, x.cuts, x.failb))
			x.read = func(p []byte, off int64) (int, error) { return rd.Read(context.Background(), p, off) }
		} else {
			fs := sfs.New()
			fs.Decide = func(call string, h *sfs.Handle) sfs.Expect { return sfs.Expect{Call: call, Out: "ok", Dir: true} }
			fs.DirIter = func() p9p.ReadNext { return batchIter(x.dirs, x.cuts, x.failb) }
			sess := p9p.SFileSys(fs)
			ctx := context.Background()
			if _, err := sess.Attach(ctx, 1, p9p.NOFID, "u", "/"); err != nil {
				x.res.Violate("harness", "harness:rd-attach", err.Error(), nil)
				return false
			}
			if _, _, err := sess.Open(ctx, 1, p9p.OREAD); err != nil {
				x.res.Violate("harness", "harness:rd-open", err.Error(), nil)
				return false
			}
			x.read = func(p []byte, off int64) (int, error) { return sess.Read(ctx, 1, p, off) }
		}
		return true
	}
	buf := make([]byte, l.C)
	for i := range buf {
		buf[i] = 0xEE
	}
	var n int
	var err error
	okc, dump := hx.RunTimed(hxTimeout, func() { n, err = x.read(buf, int64(l.O)) })
	if !okc {
		x.viol("read-panic-or-hang", hx.Trunc(dump, 800))
		return false
	}
	if l.Err {
		if err == nil {
			x.viol("wrong-offset-accepted", fmt.Sprintf("read at offset %d (running offset differs) was accepted and returned %d bytes", l.O, n))
			return false
		}
		return true
	}
	if l.IErr {
		// the iterator fails during this read: the read reports it; the entries gathered so far count as delivered
		if err == nil {
			x.viol("iterator-error-swallowed", fmt.Sprintf("the directory iterator failed during read(count %d) at offset %d, the read reports success with %d bytes", l.C, l.O, n))
			return false
		}
		x.pos += l.K
		return true
	}
	if err != nil {
		x.viol("read-error", fmt.Sprintf("read of %d bytes at the running offset %d failed: %v", l.C, l.O, err))
		return false
	}
	var want []byte
	for i := x.pos; i < x.pos+l.K; i++ {
		want = append(want, x.enc[i]...)
	}
	if n != l.Bytes || !bytes.Equal(buf[:n], want) {
		// describe what came back in terms of entries
		x.viol("wrong-entries", fmt.Sprintf("read(count %d) at offset %d returned %d bytes; expected entries %d..%d whole = %d bytes", l.C, l.O, n, x.pos+1, x.pos+l.K, l.Bytes))
		return false
	}
	x.pos += l.K
	return true
}

func (x *rdExec) Finish(state json.RawMessage) {}

// listViaClient lists the directory through CFileSys over a real connection whose msize is forced to m.
func listViaClient(dirs []p9p.Dir, cuts []int, m int, res *hx.Result) {
	rep := map[string]interface{}{"engine": "readdir", "via": "client", "msize": m, "entries": len(dirs), "batches": cuts}
	fs := sfs.New()
	fs.Decide = func(call string, h *sfs.Handle) sfs.Expect { return sfs.Expect{Call: call, Out: "ok", Dir: true} }
	fs.DirIter = func() p9p.ReadNext { return batchIter(dirs, cuts, 0) }
	cli, srv := gconn.Pair(0)
	cli.BeforeWrite = func(n int, p []byte) error {
		if n == 1 && len(p) >= 11 && p[4] == byte(p9p.Tversion) { // rewrite the proposed msize
			binary.LittleEndian.PutUint32(p[7:], uint32(m))
		}
		return nil
	}
	ctx, cancel := context.WithTimeout(context.Background(), 10*time.Second)
	defer cancel()
	go p9p.ServeConn(ctx, srv, p9p.SSession(p9p.SFileSys(fs)))
	sess, err := p9p.CSession(ctx, cli)
	if err != nil {
		res.Violate("harness", "harness:rd-client-session", err.Error(), rep)
		return
	}
	defer cli.Close()
	if ms, _ := sess.Version(); ms != m {
		res.Violate("harness", "harness:rd-client-msize", fmt.Sprintf("negotiated %d, wanted %d", ms, m), rep)
		return
	}
	cfs := p9p.CFileSys(sess)
	root, err := cfs.Attach(ctx, "u", "/", nil)
	if err != nil {
		res.Violate("harness", "harness:rd-client-attach", err.Error(), rep)
		return
	}
	var got []p9p.Dir
	var lerr error
	okc, dump := hx.RunTimed(8*time.Second, func() {
		next, err := root.OpenDir(ctx)
		if err != nil {
			lerr = err
			return
		}
		for i := 0; i < 1000; i++ {
			ds, err := next(ctx)
			if err != nil {
				lerr = err
				return
			}
			if len(ds) == 0 {
				return
			}
			got = append(got, ds...)
		}
		lerr = fmt.Errorf("listing does not end")
	})
	if !okc {
		res.Violate("C17", "client-listing-hang", hx.Trunc(dump, 800), rep)
		return
	}
	if lerr != nil {
		res.Violate("C17", "client-listing-error", fmt.Sprintf("listing %d entries at msize %d failed: %v", len(dirs), m, lerr), rep)
		return
	}
	want := make([]p9p.Dir, len(dirs))
	for i := range dirs {
		want[i] = canonDir(dirs[i])
	}
	for i := range got {
		got[i] = canonDir(got[i])
	}
	if len(got) != len(want) || (len(want) > 0 && !reflect.DeepEqual(got, want)) {
		names := func(ds []p9p.Dir) []string {
			var s []string
			for _, d := range ds {
				s = append(s, hx.Trunc(d.Name, 6))
			}
			return s
		}
		res.Violate("C17", "client-listing-differs", fmt.Sprintf("client obtained %d entries %v, the server's listing has %d %v (msize %d)", len(got), names(got), len(want), names(want), m), rep)
	}
}

func ReaddirEngine(args []string) {
	fl := flag.NewFlagSet("readdir", flag.ExitOnError)
	ltsPath := fl.String("lts", "", "LTS ndjson")
	out := fl.String("out", "", "result file")
	nrand := fl.Int("random", 200, "random walks")
	nclient := fl.Int("client", 60, "client-side listings")
	fl.Parse(args)
	res := hx.NewResult()
	defer res.Write(*out)
	l, err := LoadLTS(*ltsPath)
	if err != nil {
		res.Set("error", err.Error())
		return
	}
	var mu sync.Mutex
	total := LTSStats{}
	for _, via := range []string{"direct", "session"} {
		st := RunLTS(l, func() Exec { return &rdExec{res: res, via: via} }, LTSOpts{Cover: true, NRandom: *nrand, Depth: 8, MaxLen: 8}, res)
		mu.Lock()
		total.Steps += st.Steps
		total.Histories += st.Histories
		total.EdgesCovered = st.EdgesCovered
		mu.Unlock()
	}
	// client half
	rng := hx.Rand(17)
	nc := 0
	for i := 0; i < *nclient && res.NViol() < 20; i++ {
		n := rng.Intn(12)
		if i%7 == 0 {
			n = 40 + rng.Intn(40)
		}
		var dirs []p9p.Dir
		largest := 0
		for k := 0; k < n; k++ {
			sz := []int{50, 51, 57, 100, 49, 230}[rng.Intn(6)]
			if sz > largest {
				largest = sz
			}
			dirs = append(dirs, dirOfSize(sz, k))
		}
		var cuts []int
		for left := n; left > 0; {
			c := 1 + rng.Intn(left)
			cuts = append(cuts, c)
			left -= c
		}
		if largest == 0 {
			largest = 49
		}
		ms := []int{largest + 11, largest + 12, largest + 11 + 49, 2*largest + 11, 4096, 65536}[i%6]
		listViaClient(dirs, cuts, ms, res)
		nc++
	}
	res.Evaluations = total.Steps + nc
	res.Distinct = total.EdgesCovered + nc
	res.Set("histories", total.Histories)
	res.Set("client_listings", nc)
	res.Set("lts_edges", len(l.From))
	res.Set("lts_states", len(l.States))
	for _, i := range []int{1, len(l.Label) / 2} {
		var v interface{}
		json.Unmarshal(l.Label[i], &v)
		res.Sample(v)
	}
}
