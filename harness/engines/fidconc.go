package engines

// Engine "fidconc" (C14): truly concurrent workloads on the real
// p9p.SFileSys(scriptedFS).  Every session call logs invoke / return, every
// FileSys call logs enter / exit (with the entry object id), all stamped under
// one mutex.  The histories are validated by TLC (specs/fid/FidLin.tla):
// mutual exclusion per entry and linearizability against the sequential fid
// table.  Calls that never return and fids left locked are judged here
// (watchdog + goroutine dump, then probes on every fid at quiescence).

import (
	"context"
	"encoding/json"
	"flag"
	"fmt"
	"math/rand"
	"os"
	"runtime"
	"strings"
	"sync"
	"time"

	p9p "github.com/frobnitzem/go-p9p"
	"verif/harness/hx"
	"verif/harness/sfs"
)

type fcEvent struct {
	E   string `json:"e"`
	P   int    `json:"p"`
	K   string `json:"k"`
	F   int    `json:"f"`
	NF  int    `json:"nf"`
	Out string `json:"out"`
	Res string `json:"res"`
	H   int    `json:"h"`
	Run int    `json:"run"`
}

type fcOp struct {
	K   string `json:"k"`
	F   int    `json:"f"`
	NF  int    `json:"nf"`
	Out string `json:"out"`
}

type procKey struct{}

func classOf(err error) string {
	if err == nil {
		return ""
	}
	s := err.Error()
	switch {
	case strings.Contains(s, "unknown fid"):
		return "unknownfid"
	case strings.Contains(s, "duplicate fid"):
		return "dupfid"
	case strings.Contains(s, "already open"):
		return "alreadyopen"
	case strings.Contains(s, "no file open"):
		return "notopen"
	case strings.Contains(s, "fs:"):
		return "fs"
	}
	return "other:" + hx.Trunc(s, 40)
}

type fcRun struct {
	mu     sync.Mutex
	events []fcEvent
	run    int
	outOf  map[int]string // process -> scripted outcome of its current op
}

func (r *fcRun) log(e fcEvent) {
	r.mu.Lock()
	e.Run = r.run
	r.events = append(r.events, e)
	r.mu.Unlock()
}

func doOp(ctx context.Context, sess p9p.Session, o fcOp) error {
	f, nf := p9p.Fid(o.F), p9p.Fid(o.NF)
	var err error
	switch o.K {
	case "stat":
		_, err = sess.Stat(ctx, f)
	case "wstat":
		err = sess.WStat(ctx, f, p9p.Dir{})
	case "clunk":
		err = sess.Clunk(ctx, f)
	case "remove":
		err = sess.Remove(ctx, f)
	case "walk":
		if o.F == o.NF || o.Out == "clone" {
			_, err = sess.Walk(ctx, f, nf)
		} else {
			_, err = sess.Walk(ctx, f, nf, "a")
		}
	case "open":
		_, _, err = sess.Open(ctx, f, p9p.ORDWR)
	case "read":
		_, err = sess.Read(ctx, f, make([]byte, 4), 0)
	case "attach":
		_, err = sess.Attach(ctx, f, p9p.NOFID, "u", "/")
	}
	return err
}

// genWorkload: shared fids 0,1 (pre-bound), process p owns fid 2+p as allocation target.
func genWorkload(rng *rand.Rand, P, nops int) [][]fcOp {
	w := make([][]fcOp, P)
	for p := 0; p < P; p++ {
		own := 2 + p
		for i := 0; i < nops; i++ {
			s := rng.Intn(2)
			out := "ok"
			if rng.Intn(4) == 0 {
				out = "fail"
			}
			var o fcOp
			switch rng.Intn(11) {
			case 10:
				// any use (also clunk / remove / walking from it) of the fid another process is possibly allocating right
				// now: the property's discipline only forbids allocating the same new fid from two requests at once
				other := 2 + (p+1+rng.Intn(P-1))%P
				k := []string{"stat", "open", "read", "wstat", "clunk", "remove", "walk"}[rng.Intn(7)]
				o = fcOp{k, other, 0, out}
				if k == "walk" {
					o.NF = own
				}
				if k == "read" {
					o.Out = "ok"
				}
			case 0, 1:
				o = fcOp{"stat", s, 0, out}
			case 2:
				o = fcOp{"clunk", s, 0, out}
			case 3:
				o = fcOp{"remove", s, 0, out}
			case 4, 5:
				o = fcOp{"walk", s, own, out}
			case 6:
				o = fcOp{"open", s, 0, out}
			case 7:
				o = fcOp{"read", s, 0, "ok"}
			case 8:
				// operate on the own fid (bound or not)
				k := []string{"stat", "clunk", "open", "read", "attach"}[rng.Intn(5)]
				o = fcOp{k, own, 0, out}
			case 9:
				o = fcOp{"wstat", s, 0, out}
			}
			w[p] = append(w[p], o)
		}
	}
	return w
}

func runFidConc(run int, w [][]fcOp, jitter int64, res *hx.Result) []fcEvent {
	r := &fcRun{run: run, outOf: map[int]string{}}
	fs := sfs.New()
	rngMu := sync.Mutex{}
	jr := rand.New(rand.NewSource(jitter))
	jit := func() {
		rngMu.Lock()
		n := jr.Intn(6)
		rngMu.Unlock()
		switch n {
		case 0:
			time.Sleep(time.Duration(50) * time.Microsecond)
		case 1, 2:
			runtime.Gosched()
		}
	}
	fs.Decide = func(call string, h *sfs.Handle) sfs.Expect {
		return sfs.Expect{Call: call, Out: "ok", Dir: true}
	}
	// per-call outcome comes from the calling process's current operation (carried in ctx)
	fs.DecideCtx = func(ctx context.Context, call string, h *sfs.Handle) sfs.Expect {
		out := "ok"
		if p, ok := ctx.Value(procKey{}).(int); ok {
			r.mu.Lock()
			if r.outOf[p] == "fail" {
				out = "fail"
			}
			r.mu.Unlock()
		}
		return sfs.Expect{Call: call, Out: out, Dir: true}
	}
	fs.Gate = func(ctx context.Context, enter bool, call string, h *sfs.Handle) {
		p, _ := ctx.Value(procKey{}).(int)
		if h != nil {
			if enter {
				r.log(fcEvent{E: "fse", P: p, H: h.ID, K: call})
				jit()
			} else {
				jit()
				r.log(fcEvent{E: "fsx", P: p, H: h.ID, K: call})
			}
		}
	}
	sess := p9p.SFileSys(fs)
	call := func(p int, o fcOp) bool {
		ctx := context.WithValue(context.Background(), procKey{}, p)
		r.mu.Lock()
		r.outOf[p] = o.Out
		r.mu.Unlock()
		r.log(fcEvent{E: "inv", P: p, K: o.K, F: o.F, NF: o.NF, Out: o.Out})
		var err error
		ok, dump := hx.RunTimed(4*time.Second, func() { err = doOp(ctx, sess, o) })
		if !ok && strings.HasPrefix(dump, "PANIC:") {
			res.Violate("hang", "conc-panic:"+o.K, fmt.Sprintf("concurrent %s(fid %d) panicked\n%s", o.K, o.F, hx.Trunc(dump, 1500)), map[string]interface{}{"workload": w})
			return false
		}
		if !ok {
			gs := hx.GoroutinesWith(dump, "p9p.(*session)", "sync.(*Mutex).Lock")
			d := fmt.Sprintf("concurrent %s(fid %d) never returns although every FileSys call returned", o.K, o.F)
			if len(gs) > 0 {
				d += "\n" + hx.Trunc(gs[0], 1500)
			}
			res.Violate("hang", "conc-hang:"+o.K, d, map[string]interface{}{"workload": w})
			return false
		}
		r.log(fcEvent{E: "ret", P: p, K: o.K, Res: classOf(err)})
		return true
	}
	// sequential set-up by process 0: bind the shared fids
	call(0, fcOp{"attach", 0, 0, "ok"})
	call(0, fcOp{K: "walk", F: 0, NF: 1, Out: "clone"})
	var wg sync.WaitGroup
	hung := false
	var hmu sync.Mutex
	for p := range w {
		wg.Add(1)
		go func(p int) {
			defer wg.Done()
			for _, o := range w[p] {
				if !call(p, o) {
					hmu.Lock()
					hung = true
					hmu.Unlock()
					return
				}
			}
		}(p)
	}
	wg.Wait()
	if hung {
		return nil
	}
	// quiescence: no fid may be left locked -> a probe on every fid returns
	for f := 0; f < 2+len(w); f++ {
		o := fcOp{"stat", f, 0, "ok"}
		ctx := context.WithValue(context.Background(), procKey{}, 0)
		ok, dump := hx.RunTimed(3*time.Second, func() { doOp(ctx, sess, o) })
		if !ok {
			gs := hx.GoroutinesWith(dump, "p9p.(*session)", "sync.(*Mutex).Lock")
			d := fmt.Sprintf("after all operations returned fid %d is left locked: a stat on it never returns", f)
			if len(gs) > 0 {
				d += "\n" + hx.Trunc(gs[0], 1200)
			}
			res.Violate("hang", "fid-left-locked", d, map[string]interface{}{"workload": w})
			return nil
		}
	}
	r.mu.Lock()
	defer r.mu.Unlock()
	// drop the probe's fs events (they come after every ret)
	last := 0
	for i, e := range r.events {
		if e.E == "ret" {
			last = i
		}
	}
	return append([]fcEvent{}, r.events[:last+1]...)
}

// runDirected: a walk that allocates fid 5 is parked inside the FileSys while a second request names fid 5;
// then the walk is released (succeeding or failing).  Both must return; the history is validated like the others.
func runDirected(run int, op2 string, walkOut string, res *hx.Result) []fcEvent {
	r := &fcRun{run: run, outOf: map[int]string{}}
	fs := sfs.New()
	parked := make(chan struct{}, 1)
	release := make(chan struct{})
	fs.Decide = func(call string, h *sfs.Handle) sfs.Expect { return sfs.Expect{Call: call, Out: "ok", Dir: true} }
	fs.DecideCtx = func(ctx context.Context, call string, h *sfs.Handle) sfs.Expect {
		out := "ok"
		if p, ok := ctx.Value(procKey{}).(int); ok {
			r.mu.Lock()
			if r.outOf[p] == "fail" {
				out = "fail"
			}
			r.mu.Unlock()
		}
		return sfs.Expect{Call: call, Out: out, Dir: true}
	}
	fs.Gate = func(ctx context.Context, enter bool, call string, h *sfs.Handle) {
		p, _ := ctx.Value(procKey{}).(int)
		if h != nil {
			if enter {
				r.log(fcEvent{E: "fse", P: p, H: h.ID, K: call})
			} else {
				r.log(fcEvent{E: "fsx", P: p, H: h.ID, K: call})
			}
		}
		if enter && p == 1 && call == "walk" {
			parked <- struct{}{}
			<-release
		}
	}
	sess := p9p.SFileSys(fs)
	w := [][]fcOp{{{"walk", 0, 5, walkOut}}, {{op2, 5, 4, "ok"}}}
	call := func(p int, o fcOp) bool {
		ctx := context.WithValue(context.Background(), procKey{}, p)
		r.mu.Lock()
		r.outOf[p] = o.Out
		r.mu.Unlock()
		r.log(fcEvent{E: "inv", P: p, K: o.K, F: o.F, NF: o.NF, Out: o.Out})
		var err error
		ok, dump := hx.RunTimed(4*time.Second, func() { err = doOp(ctx, sess, o) })
		if !ok {
			gs := hx.GoroutinesWith(dump, "p9p.(*session)", "sync.(*Mutex).Lock")
			d := fmt.Sprintf("%s(fid %d) issued while a walk that allocates fid %d was in progress (walk outcome: %s) never returns although every FileSys call returned", o.K, o.F, o.F, walkOut)
			if len(gs) > 0 {
				d += "\n" + hx.Trunc(gs[0], 1500)
			}
			res.Violate("hang", "conc-hang:"+o.K+":during-walk-"+walkOut, d, map[string]interface{}{"workload": w})
			return false
		}
		r.log(fcEvent{E: "ret", P: p, K: o.K, Res: classOf(err)})
		return true
	}
	call(0, fcOp{"attach", 0, 0, "ok"})
	var wg sync.WaitGroup
	okAll := true
	var mu sync.Mutex
	wg.Add(1)
	go func() {
		defer wg.Done()
		if !call(1, w[0][0]) {
			mu.Lock()
			okAll = false
			mu.Unlock()
		}
	}()
	<-parked
	wg.Add(1)
	go func() {
		defer wg.Done()
		if !call(2, w[1][0]) {
			mu.Lock()
			okAll = false
			mu.Unlock()
		}
	}()
	time.Sleep(3 * time.Millisecond) // let the second request reach the reserved fid's lock
	close(release)
	wg.Wait()
	if !okAll {
		return nil
	}
	r.mu.Lock()
	defer r.mu.Unlock()
	return append([]fcEvent{}, r.events...)
}

func FidConc(args []string) {
	fl := flag.NewFlagSet("fidconc", flag.ExitOnError)
	out := fl.String("out", "", "result file")
	tracePath := fl.String("trace", "", "trace output")
	n := fl.Int("n", 300, "number of workloads")
	fl.Parse(args)
	res := hx.NewResult()
	defer res.Write(*out)
	rng := hx.Rand(77)
	f, err := os.Create(*tracePath)
	if err != nil {
		res.Set("error", err.Error())
		return
	}
	defer f.Close()
	enc := json.NewEncoder(f)
	distinct := map[string]bool{}
	nev := 0
	for i := 0; i < *n; i++ {
		P := 2 + rng.Intn(3)
		nops := 1 + rng.Intn(3)
		if P == 4 {
			nops = 1 + rng.Intn(2)
		}
		w := genWorkload(rng, P, nops)
		ev := runFidConc(i+1, w, rng.Int63(), res)
		if ev == nil {
			if res.NViol() > 6 {
				break
			}
			continue
		}
		sig := ""
		for _, e := range ev {
			enc.Encode(e)
			nev++
			sig += fmt.Sprint(e.E, e.P, e.K, e.Res, ";")
		}
		enc.Encode(fcEvent{E: "reset", Run: i + 1})
		distinct[sig] = true
		if i < 2 {
			res.Sample(map[string]interface{}{"workload": w, "history": ev})
		}
		res.Evaluations++
	}
	// directed: every kind of request on a fid while the walk allocating it is inside the file system
	nd := 0
	for rep := 0; rep < 3; rep++ {
		for _, op2 := range []string{"stat", "open", "read", "wstat", "clunk", "remove", "walk"} {
			for _, wo := range []string{"ok", "fail"} {
				nd++
				ev := runDirected(*n+nd, op2, wo, res)
				if ev == nil {
					continue
				}
				sig := ""
				for _, e := range ev {
					enc.Encode(e)
					nev++
					sig += fmt.Sprint(e.E, e.P, e.K, e.Res, ";")
				}
				enc.Encode(fcEvent{E: "reset", Run: *n + nd})
				distinct[sig] = true
				res.Evaluations++
			}
		}
	}
	res.Distinct = len(distinct)
	res.Set("events", nev)
	res.Set("directed_scenarios", nd)
}
