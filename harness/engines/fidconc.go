package engines

// Engine "fidconc" (C14): truly concurrent workloads on the real
// p9p.SFileSys(scriptedFS).  Every session call logs invoke / return, every
// FileSys call logs enter / exit (with the entry object id), all stamped under
// one mutex.  The histories are validated by TLC (specs/fid/FidLin.tla):
// mutual exclusion per entry and linearizability against the sequential fid
// table.  Calls that never return and fids left locked are judged here
// (watchdog + goroutine dump, then probes on every fid at quiescence).

import (
	"context"
	"encoding/json"
	"flag"
	"fmt"
	"math/rand"
	"os"
	"runtime"
	"strings"
	"sync"
	"time"

	p9p "github.com/frobnitzem/go-p9p"
	"verif/harness/hx"
	"verif/harness/sfs"
)

type fcEvent struct {
	E   string `json:"e"`
	P   int    `json:"p"`
	K   string `json:"k"`
	F   int    `json:"f"`
	NF  int    `json:"nf"`
	Out string `json:"out"`
	Res string `json:"res"`
	H   int    `json:"h"`
	Q   int    `json:"q"` // ret of a successful open: qid path of the reply
	Run int    `json:"run"`
}

type fcOp struct {
	K   string `json:"k"`
	F   int    `json:"f"`
	NF  int    `json:"nf"`
	Out string `json:"out"`
}

type procKey struct{}

func classOf(err error) string {
	if err == nil {
		return ""
	}
	s := err.Error()
	switch {
	case strings.Contains(s, "unknown fid"):
		return "unknownfid"
	case strings.Contains(s, "duplicate fid"):
		return "dupfid"
	case strings.Contains(s, "already open"):
		return "alreadyopen"
	case strings.Contains(s, "no file open"):
		return "notopen"
	case strings.Contains(s, "create in non-directory"):
		return "createnondir"
	case strings.Contains(s, "not a directory"):
		return "notdir"
	case strings.Contains(s, "fs:"):
		return "fs"
	}
	return "other:" + hx.Trunc(s, 40)
}

type fcRun struct {
	mu     sync.Mutex
	events []fcEvent
	run    int
	outOf  map[int]string // process -> scripted outcome of its current op
	gop    map[int64]int  // goroutine -> process (for calls without a context: Dirent.Qid)
	lastQ  map[int]int    // process -> qid path answered by its last successful open
}

// decide: the scripted outcome of one FileSys call made on behalf of process p
func (r *fcRun) decide(ctx context.Context, call string) sfs.Expect {
	out, o := "ok", ""
	if p, ok := ctx.Value(procKey{}).(int); ok {
		r.mu.Lock()
		o = r.outOf[p]
		r.mu.Unlock()
	}
	switch {
	case o == "fail":
		out = "fail"
	case o == "dirfail" && call == "opendir":
		out = "fail"
	}
	// a create with outcome "ok" makes a plain file; every other entry handed out is a directory
	// ... and a walk with outcome "file" finds a plain file
	return sfs.Expect{Call: call, Out: out, Dir: !(call == "create" && o == "ok") && !(call == "walk" && o == "file")}
}

func (r *fcRun) proc(ctx context.Context) int {
	if ctx != nil {
		if p, ok := ctx.Value(procKey{}).(int); ok {
			return p
		}
	}
	r.mu.Lock()
	defer r.mu.Unlock()
	if p, ok := r.gop[hx.GoID()]; ok {
		return p
	}
	return -1
}

// fsxOut: what the exit event of a FileSys call reports (only create's outcome matters to the model)
func (r *fcRun) fsxOut(p int, call string) string {
	if call != "create" {
		return ""
	}
	r.mu.Lock()
	defer r.mu.Unlock()
	if r.outOf[p] == "fail" {
		return "fail"
	}
	return "ok"
}

func newFcRun(run int) *fcRun {
	return &fcRun{run: run, outOf: map[int]string{}, gop: map[int64]int{}, lastQ: map[int]int{}}
}

// invoke runs one session call of process p on its own goroutine and logs inv / ret.
func (r *fcRun) invoke(sess p9p.Session, p int, o fcOp, limit time.Duration) (ok bool, dump string) {
	ctx := context.WithValue(context.Background(), procKey{}, p)
	r.mu.Lock()
	r.outOf[p] = o.Out
	r.mu.Unlock()
	r.log(fcEvent{E: "inv", P: p, K: o.K, F: o.F, NF: o.NF, Out: o.Out})
	var err error
	q := 0
	ok, dump = hx.RunTimed(limit, func() {
		g := hx.GoID()
		r.mu.Lock()
		r.gop[g] = p
		r.mu.Unlock()
		q, err = doOp(ctx, sess, o)
		r.mu.Lock()
		delete(r.gop, g)
		r.mu.Unlock()
	})
	if ok {
		r.log(fcEvent{E: "ret", P: p, K: o.K, Res: classOf(err), Q: q})
	}
	return ok, dump
}

func (r *fcRun) log(e fcEvent) {
	r.mu.Lock()
	e.Run = r.run
	r.events = append(r.events, e)
	r.mu.Unlock()
}

func doOp(ctx context.Context, sess p9p.Session, o fcOp) (int, error) {
	f, nf := p9p.Fid(o.F), p9p.Fid(o.NF)
	var err error
	q := 0
	switch o.K {
	case "stat":
		_, err = sess.Stat(ctx, f)
	case "wstat":
		err = sess.WStat(ctx, f, p9p.Dir{})
	case "clunk":
		err = sess.Clunk(ctx, f)
	case "remove":
		err = sess.Remove(ctx, f)
	case "walk":
		if o.F == o.NF || o.Out == "clone" {
			_, err = sess.Walk(ctx, f, nf)
		} else {
			_, err = sess.Walk(ctx, f, nf, "a")
		}
	case "walkin":
		_, err = sess.Walk(ctx, f, f, "a")
	case "create":
		perm := uint32(0644)
		if o.Out == "dir" || o.Out == "dirfail" {
			perm |= p9p.DMDIR
		}
		_, _, err = sess.Create(ctx, f, "n", perm, p9p.ORDWR)
	case "open", "openr":
		var qid p9p.Qid
		mode := p9p.Flag(p9p.ORDWR)
		if o.K == "openr" {
			mode = p9p.OREAD
		}
		qid, _, err = sess.Open(ctx, f, mode)
		if err == nil {
			q = int(qid.Path)
		}
	case "read":
		_, err = sess.Read(ctx, f, make([]byte, 4), 0)
	case "attach":
		_, err = sess.Attach(ctx, f, p9p.NOFID, "u", "/")
	}
	return q, err
}

// genWorkload: shared fids 0,1 (pre-bound), process p owns fid 2+p as allocation target.
func genWorkload(rng *rand.Rand, P, nops int) [][]fcOp {
	w := make([][]fcOp, P)
	createOut := func() string { return []string{"ok", "dir", "dir", "dirfail", "dirfail", "fail"}[rng.Intn(6)] }
	for p := 0; p < P; p++ {
		own := 2 + p
		for i := 0; i < nops; i++ {
			s := rng.Intn(2)
			out := "ok"
			if rng.Intn(4) == 0 {
				out = "fail"
			}
			var o fcOp
			switch rng.Intn(14) {
			case 10:
				// any use (also clunk / remove / walking from it) of the fid another process is possibly allocating right
				// now: the property's discipline only forbids allocating the same new fid from two requests at once
				other := 2 + (p+1+rng.Intn(P-1))%P
				k := []string{"stat", "open", "read", "wstat", "clunk", "remove", "walk", "create", "walkin"}[rng.Intn(9)]
				o = fcOp{k, other, 0, out}
				if k == "walk" {
					o.NF = own
				}
				if k == "read" {
					o.Out = "ok"
				}
				if k == "create" {
					o.Out = createOut()
				}
			case 0, 1:
				o = fcOp{"stat", s, 0, out}
			case 2:
				o = fcOp{"clunk", s, 0, out}
			case 3:
				o = fcOp{"remove", s, 0, out}
			case 4:
				o = fcOp{"walk", s, own, out}
			case 5:
				// clone or one-name walk
				o = fcOp{"walk", s, own, []string{"ok", "fail", "clone"}[rng.Intn(3)]}
			case 6:
				o = fcOp{"open", s, 0, out}
			case 7:
				o = fcOp{"read", s, 0, "ok"}
			case 8:
				// operate on the own fid (bound or not)
				k := []string{"stat", "clunk", "open", "read", "attach", "create"}[rng.Intn(6)]
				o = fcOp{k, own, 0, out}
				if k == "create" {
					o.Out = createOut()
				}
			case 9:
				o = fcOp{"wstat", s, 0, out}
			case 11, 12:
				o = fcOp{"create", s, 0, createOut()}
			case 13:
				o = fcOp{"walkin", s, 0, out}
			}
			w[p] = append(w[p], o)
		}
	}
	return w
}

// wire connects a scripted file system to the run's event log; park (optional) is called on entry of
// every FileSys call (after it has been logged) and may block.
func (r *fcRun) wire(fs *sfs.FS, jit func(), park func(p int, call string, h *sfs.Handle)) {
	fs.Decide = func(call string, h *sfs.Handle) sfs.Expect {
		return sfs.Expect{Call: call, Out: "ok", Dir: true}
	}
	// per-call outcome comes from the calling process's current operation (carried in ctx)
	fs.DecideCtx = func(ctx context.Context, call string, h *sfs.Handle) sfs.Expect { return r.decide(ctx, call) }
	gate := func(p int, enter bool, call string, h *sfs.Handle) {
		if h == nil {
			return
		}
		if enter {
			r.log(fcEvent{E: "fse", P: p, H: h.ID, K: call})
			if park != nil {
				park(p, call, h)
			}
			jit()
		} else {
			jit()
			r.log(fcEvent{E: "fsx", P: p, H: h.ID, K: call, Out: r.fsxOut(p, call)})
		}
	}
	fs.Gate = func(ctx context.Context, enter bool, call string, h *sfs.Handle) { gate(r.proc(ctx), enter, call, h) }
	fs.QidGate = func(enter bool, h *sfs.Handle) { gate(r.proc(nil), enter, "qid", h) }
}

func hangViolation(res *hx.Result, sig, what, dump string, w interface{}) {
	if strings.HasPrefix(dump, "PANIC:") {
		res.Violate("hang", strings.Replace(sig, "conc-hang", "conc-panic", 1), what+" panicked (the call never returns)\n"+hx.Trunc(dump, 1500), map[string]interface{}{"workload": w})
		return
	}
	gs := hx.GoroutinesWith(dump, "p9p.(*session)", "sync.(*Mutex).Lock")
	d := what + " never returns although every FileSys call returned"
	if len(gs) > 0 {
		d += "\n" + hx.Trunc(gs[0], 1500)
	}
	res.Violate("hang", sig, d, map[string]interface{}{"workload": w})
}

func runFidConc(run int, w [][]fcOp, jitter int64, res *hx.Result) []fcEvent {
	r := newFcRun(run)
	fs := sfs.New()
	rngMu := sync.Mutex{}
	jr := rand.New(rand.NewSource(jitter))
	jit := func() {
		rngMu.Lock()
		n := jr.Intn(6)
		rngMu.Unlock()
		switch n {
		case 0:
			time.Sleep(time.Duration(50) * time.Microsecond)
		case 1, 2:
			runtime.Gosched()
		}
	}
	r.wire(fs, jit, nil)
	sess := p9p.SFileSys(fs)
	call := func(p int, o fcOp) bool {
		ok, dump := r.invoke(sess, p, o, 4*time.Second)
		if !ok {
			hangViolation(res, "conc-hang:"+o.K, fmt.Sprintf("concurrent %s(fid %d)", o.K, o.F), dump, w)
		}
		return ok
	}
	// sequential set-up by process 0: bind the shared fids
	call(0, fcOp{"attach", 0, 0, "ok"})
	call(0, fcOp{K: "walk", F: 0, NF: 1, Out: "clone"})
	var wg sync.WaitGroup
	hung := false
	var hmu sync.Mutex
	for p := range w {
		wg.Add(1)
		go func(p int) {
			defer wg.Done()
			for _, o := range w[p] {
				if !call(p, o) {
					hmu.Lock()
					hung = true
					hmu.Unlock()
					return
				}
			}
		}(p)
	}
	wg.Wait()
	if hung {
		return nil
	}
	// quiescence: no fid may be left locked -> a probe on every fid returns
	r.mu.Lock()
	nev := len(r.events)
	r.mu.Unlock()
	for f := 0; f < 2+len(w); f++ {
		o := fcOp{"stat", f, 0, "ok"}
		ctx := context.WithValue(context.Background(), procKey{}, 0)
		ok, dump := hx.RunTimed(3*time.Second, func() { doOp(ctx, sess, o) })
		if !ok {
			gs := hx.GoroutinesWith(dump, "p9p.(*session)", "sync.(*Mutex).Lock")
			d := fmt.Sprintf("after all operations returned fid %d is left locked: a stat on it never returns", f)
			if len(gs) > 0 {
				d += "\n" + hx.Trunc(gs[0], 1200)
			}
			res.Violate("hang", "fid-left-locked", d, map[string]interface{}{"workload": w})
			return nil
		}
	}
	r.mu.Lock()
	defer r.mu.Unlock()
	// drop the probes' fs events (they come after every ret)
	return append([]fcEvent{}, r.events[:nev]...)
}

// dirScen: one request (op1, process 1) is parked inside the file system - on entry of its FileSys call
// parkCall, once it has already completed a call parkAfter (if given) - while a second request (op2,
// process 2) is issued; after a short pause op1 is released.  Both must return; the history is validated
// like the others.  pre: requests issued sequentially beforehand by process 0.
type dirScen struct {
	Name      string
	Pre       []fcOp
	Op1       fcOp
	ParkCall  string
	ParkAfter string
	Op2       fcOp
	// Op0 (optional): a third request, issued first (process 3), is the one that parks (in ParkCall);
	// Op1 and then Op2 queue behind it on the fid's lock, in that order
	Op0 fcOp
}

func ds(name string, pre []fcOp, op1 fcOp, parkCall, parkAfter string, op2 fcOp) dirScen {
	return dirScen{Name: name, Pre: pre, Op1: op1, ParkCall: parkCall, ParkAfter: parkAfter, Op2: op2}
}

func directedScenarios() []dirScen {
	var l []dirScen
	// every kind of request on a fid while the walk allocating it is inside the file system
	for _, op2 := range []string{"stat", "open", "read", "wstat", "clunk", "remove", "walk", "create"} {
		for _, wo := range []string{"ok", "fail"} {
			o2 := fcOp{op2, 5, 4, "ok"}
			if op2 == "create" {
				o2.Out = "dir"
			}
			l = append(l, ds("during-walk-" + wo, nil, fcOp{"walk", 0, 5, wo}, "walk", "", o2))
		}
	}
	// every kind of request on a fid whose create is inside the file system: in Create itself, in the
	// session's own OpenDir of the new directory, and in the clean-up after that OpenDir failed
	on0 := []fcOp{{"stat", 0, 0, "ok"}, {"wstat", 0, 0, "ok"}, {"clunk", 0, 0, "ok"}, {"remove", 0, 0, "ok"}, {"open", 0, 0, "ok"},
		{"walk", 0, 4, "clone"}, {"walk", 0, 4, "ok"}, {"walkin", 0, 0, "ok"}, {"create", 0, 0, "dir"}, {"create", 0, 0, "ok"}, {"attach", 0, 0, "ok"}}
	for _, o2 := range on0 {
		for _, co := range []string{"ok", "dir", "dirfail", "fail"} {
			l = append(l, ds("during-create-" + co, nil, fcOp{"create", 0, 0, co}, "create", "", o2))
		}
		l = append(l, ds("during-create-opendir-ok", nil, fcOp{"create", 0, 0, "dir"}, "opendir", "", o2))
		l = append(l, ds("during-create-opendir-fail", nil, fcOp{"create", 0, 0, "dirfail"}, "opendir", "", o2))
		l = append(l, ds("during-create-cleanup", nil, fcOp{"create", 0, 0, "dirfail"}, "clunk", "", o2))
		// open is building its reply (Qid of the entry) after the file system opened the entry
		l = append(l, ds("during-open-reply", nil, fcOp{"open", 0, 0, "ok"}, "qid", "opendir", o2))
		l = append(l, ds("during-open", nil, fcOp{"open", 0, 0, "ok"}, "opendir", "", o2))
		l = append(l, ds("during-open-fail", nil, fcOp{"open", 0, 0, "fail"}, "opendir", "", o2))
		// an in-place walk releases the old entry
		l = append(l, ds("during-walkin-clunk", nil, fcOp{"walkin", 0, 0, "ok"}, "clunk", "", o2))
		l = append(l, ds("during-walkin", nil, fcOp{"walkin", 0, 0, "ok"}, "walk", "", o2))
		// clunk / remove inside the file system
		l = append(l, ds("during-clunk", nil, fcOp{"clunk", 0, 0, "ok"}, "clunk", "", o2))
		l = append(l, ds("during-remove-fail", nil, fcOp{"remove", 0, 0, "fail"}, "remove", "", o2))
		// create's reply (Qid of the new entry) for a plain file
		l = append(l, ds("during-create-reply", nil, fcOp{"create", 0, 0, "ok"}, "qid", "create", o2))
	}
	// two reads of one plain file opened read-only: the file system must not see them overlap
	for _, o2 := range []fcOp{{"read", 6, 0, "ok"}, {"stat", 6, 0, "ok"}, {"clunk", 6, 0, "ok"}} {
		l = append(l, dirScen{Name: "second-request-during-read-of-readonly-file", Pre: []fcOp{{"walk", 0, 6, "file"}, {"openr", 6, 0, "ok"}},
			Op1: fcOp{"read", 6, 0, "ok"}, ParkCall: "read", Op2: o2})
	}
	// two requests queued on the fid's lock behind a slow one: the first of them unbinds the fid (its release may
	// fail), the second must then find the fid gone
	for _, o1 := range []fcOp{{"clunk", 0, 0, "ok"}, {"clunk", 0, 0, "fail"}, {"remove", 0, 0, "ok"}, {"remove", 0, 0, "fail"}, {"create", 0, 0, "dirfail"}} {
		for _, o2 := range on0 {
			l = append(l, dirScen{Name: "queued-behind-stat:" + o1.K + "-" + o1.Out, Op0: fcOp{"stat", 0, 0, "ok"}, ParkCall: "stat", Op1: o1, Op2: o2})
		}
	}
	// the same on an open plain file, behind a slow read
	for _, o1 := range []fcOp{{"clunk", 0, 0, "ok"}, {"clunk", 0, 0, "fail"}, {"remove", 0, 0, "fail"}} {
		for _, o2 := range []fcOp{{"read", 0, 0, "ok"}, {"stat", 0, 0, "ok"}, {"open", 0, 0, "ok"}, {"walk", 0, 4, "clone"}, {"clunk", 0, 0, "ok"}} {
			l = append(l, dirScen{Name: "queued-behind-read:" + o1.K + "-" + o1.Out, Pre: []fcOp{{"create", 0, 0, "ok"}}, Op0: fcOp{"read", 0, 0, "ok"}, ParkCall: "read", Op1: o1, Op2: o2})
		}
	}
	return l
}

func runDirected(run int, sc dirScen, res *hx.Result) []fcEvent {
	r := newFcRun(run)
	fs := sfs.New()
	parked := make(chan struct{}, 1)
	release := make(chan struct{})
	var pmu sync.Mutex
	seenAfter, done := sc.ParkAfter == "", false
	parker := 1
	if sc.Op0.K != "" {
		parker = 3
	}
	park := func(p int, call string, h *sfs.Handle) {
		if p != parker {
			return
		}
		pmu.Lock()
		hit := !done && seenAfter && call == sc.ParkCall
		if hit {
			done = true
		}
		if call == sc.ParkAfter {
			seenAfter = true
		}
		pmu.Unlock()
		if hit {
			parked <- struct{}{}
			<-release
		}
	}
	r.wire(fs, func() {}, park)
	sess := p9p.SFileSys(fs)
	w := map[string]interface{}{"scenario": sc}
	call := func(p int, o fcOp) bool {
		ok, dump := r.invoke(sess, p, o, 4*time.Second)
		if !ok {
			hangViolation(res, "conc-hang:"+o.K+":"+sc.Name, fmt.Sprintf("%s(fid %d) issued while %s(fid %d, outcome %s) was inside the file system (%s)", o.K, o.F, sc.Op1.K, sc.Op1.F, sc.Op1.Out, sc.ParkCall), dump, w)
		}
		return ok
	}
	call(0, fcOp{"attach", 0, 0, "ok"})
	for _, o := range sc.Pre {
		call(0, o)
	}
	var wg sync.WaitGroup
	okAll := true
	var mu sync.Mutex
	run1 := func(p int, o fcOp) {
		defer wg.Done()
		if !call(p, o) {
			mu.Lock()
			okAll = false
			mu.Unlock()
		}
	}
	wg.Add(1)
	if parker == 3 {
		go run1(3, sc.Op0)
	} else {
		go run1(1, sc.Op1)
	}
	select {
	case <-parked:
	case <-time.After(3 * time.Second):
		// op1 never reached the parking point (it returned before): nothing to interleave
		close(release)
		wg.Wait()
		res.Add("steps_skipped", 1)
		return nil
	}
	if parker == 3 {
		wg.Add(1)
		go run1(1, sc.Op1)
		time.Sleep(3 * time.Millisecond) // Op1 queues first
	}
	wg.Add(1)
	go run1(2, sc.Op2)
	time.Sleep(3 * time.Millisecond) // let the second request reach the fid's lock
	close(release)
	wg.Wait()
	if !okAll {
		return nil
	}
	r.mu.Lock()
	defer r.mu.Unlock()
	return append([]fcEvent{}, r.events...)
}

// sameFidRace: several requests allocate the same new fid at the same moment (attach, and walks from an
// existing fid).  Whatever such a client deserves, the session's accounting must hold: exactly one of them
// binds the fid, and after clunk and Stop every entry the file system handed out has been released exactly once.
func sameFidRace(rounds int, res *hx.Result) {
	for r := 0; r < rounds && res.NViol() < 3; r++ {
		fs := sfs.New()
		fs.Decide = func(call string, h *sfs.Handle) sfs.Expect { return sfs.Expect{Call: call, Out: "ok", Dir: true} }
		sess := p9p.SFileSys(fs)
		ctx := context.Background()
		sess.Attach(ctx, 0, p9p.NOFID, "u", "/")
		const G = 6
		var wg sync.WaitGroup
		start := make(chan struct{})
		var mu sync.Mutex
		wins := 0
		for g := 0; g < G; g++ {
			wg.Add(1)
			go func(g int) {
				defer wg.Done()
				<-start
				var err error
				if (g+r)%2 == 0 {
					_, err = sess.Attach(ctx, 7, p9p.NOFID, "u", "/")
				} else {
					_, err = sess.Walk(ctx, 0, 7, "a")
				}
				if err == nil {
					mu.Lock()
					wins++
					mu.Unlock()
				}
			}(g)
		}
		close(start)
		wg.Wait()
		sess.Clunk(ctx, 7)
		sess.Clunk(ctx, 0)
		sess.Stop(nil)
		res.Evaluations++
		rep := map[string]interface{}{"engine": "fidconc", "same_newfid_race": r}
		if wins != 1 {
			res.Violate("release", "same-newfid-race:winners", fmt.Sprintf("%d requests allocated fid 7 at the same moment and %d of them succeeded; a fid is bound by one request", G, wins), rep)
			continue
		}
		for _, h := range fs.All {
			if !h.Placeholder && h.Released() != 1 {
				res.Violate("release", "same-newfid-race:release", fmt.Sprintf("%d requests allocated fid 7 at the same moment; after clunk of both fids and Stop entry#%d has been released %d times (every entry handed to the session must be released exactly once)", G, h.ID, h.Released()), rep)
				break
			}
		}
	}
}

func FidConc(args []string) {
	fl := flag.NewFlagSet("fidconc", flag.ExitOnError)
	out := fl.String("out", "", "result file")
	tracePath := fl.String("trace", "", "trace output")
	n := fl.Int("n", 300, "number of workloads")
	reps := fl.Int("reps", 2, "repetitions of the directed scenarios")
	fl.Parse(args)
	res := hx.NewResult()
	defer res.Write(*out)
	rng := hx.Rand(77)
	f, err := os.Create(*tracePath)
	if err != nil {
		res.Set("error", err.Error())
		return
	}
	defer f.Close()
	enc := json.NewEncoder(f)
	distinct := map[string]bool{}
	nev := 0
	emit := func(run int, ev []fcEvent) {
		sig := ""
		for _, e := range ev {
			enc.Encode(e)
			nev++
			sig += fmt.Sprint(e.E, e.P, e.K, e.Res, ";")
		}
		enc.Encode(fcEvent{E: "reset", Run: run})
		distinct[sig] = true
		res.Evaluations++
	}
	for i := 0; i < *n; i++ {
		P := 2 + rng.Intn(3)
		nops := 1 + rng.Intn(3)
		if P == 4 {
			nops = 1 + rng.Intn(2)
		}
		w := genWorkload(rng, P, nops)
		ev := runFidConc(i+1, w, rng.Int63(), res)
		if ev == nil {
			if res.NViol() > 6 {
				break
			}
			continue
		}
		if i < 2 {
			res.Sample(map[string]interface{}{"workload": w, "history": ev})
		}
		emit(i+1, ev)
	}
	// directed interleavings
	nd := 0
	scs := directedScenarios()
	for rep := 0; rep < *reps; rep++ {
		for _, sc := range scs {
			nd++
			if ev := runDirected(*n+nd, sc, res); ev != nil {
				emit(*n+nd, ev)
			}
		}
	}
	sameFidRace(2000**reps, res)
	res.Distinct = len(distinct)
	res.Set("events", nev)
	res.Set("directed_scenarios", nd)
	res.Set("directed_scenario_kinds", len(scs))
}
