package engines

// Engine "fid": replays walks through the labelled transition system that TLC
// computed from specs/fid/FidTable.tla on the real p9p.SFileSys(scriptedFS) and
// compares, after every step, the result class, the FileSys calls made, the
// whole fid table (projected through side-effect-free probes) and the release
// count of every entry object with the model.

import (
	"context"
	"encoding/json"
	"flag"
	"fmt"
	"sort"
	"strings"
	"sync"
	"time"

	p9p "github.com/frobnitzem/go-p9p"
	"verif/harness/hx"
	"verif/harness/sfs"
)

type fidArgs struct {
	F     int      `json:"f"`
	NF    int      `json:"nf"`
	AF    int      `json:"af"`
	Names []string `json:"names"`
	Name  string   `json:"name"`
	Mode  int      `json:"mode"`
}

type fidLabel struct {
	Op  string       `json:"op"`
	A   fidArgs      `json:"a"`
	FS  []sfs.Expect `json:"fs"`
	Err string       `json:"err"`
	Nq  int          `json:"nq"`
}

type fidSt struct {
	H    int  `json:"h"`
	Dir  bool `json:"dir"`
	Open bool `json:"open"`
	Mode int  `json:"mode"`
}

type fidState struct {
	Tab     map[string]fidSt
	Live    []int
	Stopped bool
}

type fidEdge struct {
	From, To int
	Lab      fidLabel
}

type fidLTS struct {
	States []fidState
	Key    map[string]int
	Edges  []fidEdge
	Out    [][]int
	Init   int
}

const modelNOFID = 99

var realFids = []p9p.Fid{0, 7, 0xFFFFFFFE, 12345}

func realFid(m int) p9p.Fid {
	if m == modelNOFID {
		return p9p.NOFID
	}
	return realFids[m]
}

func parseFidState(raw json.RawMessage) (fidState, error) {
	var parts []json.RawMessage
	var st fidState
	if err := json.Unmarshal(raw, &parts); err != nil || len(parts) != 3 {
		return st, fmt.Errorf("bad state %s", raw)
	}
	// tab is a function over Fids; ToJson renders 0..n domains as object or (1..n) as array
	if err := json.Unmarshal(parts[0], &st.Tab); err != nil {
		var arr []fidSt
		if err2 := json.Unmarshal(parts[0], &arr); err2 != nil {
			return st, err
		}
		st.Tab = map[string]fidSt{}
		for i, v := range arr {
			st.Tab[fmt.Sprint(i+1)] = v
		}
	}
	json.Unmarshal(parts[1], &st.Live)
	json.Unmarshal(parts[2], &st.Stopped)
	return st, nil
}

func loadFidLTS(path string) (*fidLTS, error) {
	l := &fidLTS{Key: map[string]int{}, Init: -1}
	state := func(raw json.RawMessage) (int, error) {
		k := string(raw)
		if i, ok := l.Key[k]; ok {
			return i, nil
		}
		st, err := parseFidState(raw)
		if err != nil {
			return 0, err
		}
		l.Key[k] = len(l.States)
		l.States = append(l.States, st)
		l.Out = append(l.Out, nil)
		return len(l.States) - 1, nil
	}
	err := hx.ReadNDJSON(path, func(line []byte) error {
		var parts []json.RawMessage
		if err := json.Unmarshal(line, &parts); err != nil || len(parts) != 3 {
			return fmt.Errorf("bad LTS line: %s", hx.Trunc(string(line), 200))
		}
		from, err := state(parts[0])
		if err != nil {
			return err
		}
		to, err := state(parts[2])
		if err != nil {
			return err
		}
		var lab fidLabel
		if err := json.Unmarshal(parts[1], &lab); err != nil {
			return err
		}
		l.Edges = append(l.Edges, fidEdge{from, to, lab})
		l.Out[from] = append(l.Out[from], len(l.Edges)-1)
		return nil
	})
	if err != nil {
		return nil, err
	}
	for i, s := range l.States {
		if len(s.Live) == 0 && !s.Stopped {
			blank := true
			for _, t := range s.Tab {
				if t.H != 0 {
					blank = false
				}
			}
			if blank {
				l.Init = i
			}
		}
	}
	if l.Init < 0 {
		return nil, fmt.Errorf("no initial state in LTS")
	}
	return l, nil
}

// ---------------------------------------------------------------- executor

var errClass = map[string]string{
	"unknownfid": "unknown fid", "dupfid": "duplicate fid", "badpath": "Non-normalized path",
	"notdir": "not a directory", "alreadyopen": "already open", "notopen": "no file open",
	"noread": "read prohibited", "nowrite": "write prohibited", "dirwrite": "invalid",
	"illegalname": "illegal filename", "createnondir": "create in non-directory",
	"invalidresult": "invalid result", "fs": "fs:",
}

type fidRun struct {
	lts   *fidLTS
	res   *hx.Result
	fs    *sfs.FS
	sess  p9p.Session
	hist  []fidLabel
	fids  []int // model fids
	hung  bool
	steps int
}

func newFidRun(l *fidLTS, res *hx.Result) *fidRun {
	r := &fidRun{lts: l, res: res, fs: sfs.New()}
	r.sess = p9p.SFileSys(r.fs)
	for k := range l.States[l.Init].Tab {
		var i int
		fmt.Sscan(k, &i)
		r.fids = append(r.fids, i)
	}
	sort.Ints(r.fids)
	return r
}

func (r *fidRun) replayDoc() interface{} {
	return map[string]interface{}{"engine": "fid", "history": r.hist}
}

func (r *fidRun) viol(tag, sig, detail string) {
	r.res.Violate(tag, sig, fmt.Sprintf("%s [after %d steps; last op %s]", detail, len(r.hist), hx.JS(r.hist[len(r.hist)-1])), r.replayDoc())
}

// timed runs one session call; a call that does not return is a hang.
func (r *fidRun) timed(what string, f func()) bool {
	ok, dump := hx.RunTimed(3*time.Second, f)
	if ok {
		return true
	}
	r.hung = true
	if strings.HasPrefix(dump, "PANIC:") {
		r.viol("state", "panic:"+what, "session call panicked\n"+hx.Trunc(dump, 1500))
		return false
	}
	gs := hx.GoroutinesWith(dump, "p9p.(*session)", "sync.(*Mutex).Lock")
	if len(gs) > 0 {
		r.viol("hang", "hang:"+what, "session call never returns: blocked on a fid lock although every FileSys call returned\n"+hx.Trunc(gs[0], 1500))
	} else {
		r.viol("hang", "hang-unclassified:"+what, "session call did not return within 3s\n"+hx.Trunc(dump, 1500))
	}
	return false
}

func errHas(err error, sub string) bool { return err != nil && strings.Contains(err.Error(), sub) }

func qidsEq(a, b []p9p.Qid) bool {
	if len(a) != len(b) {
		return false
	}
	for i := range a {
		if a[i] != b[i] {
			return false
		}
	}
	return true
}

// step executes one labelled transition and checks result + FileSys calls.
func (r *fidRun) step(e fidEdge) bool {
	lab := e.Lab
	from := r.lts.States[e.From]
	r.hist = append(r.hist, lab)
	r.steps++
	ctx := context.Background()
	a := lab.A
	f, nf, af := realFid(a.F), realFid(a.NF), realFid(a.AF)
	mode := p9p.Flag(a.Mode)
	if lab.Op == "stop" {
		return r.stop(e)
	}
	r.fs.SetScript(lab.FS)
	var err error
	var detail string // mismatch in ok-results
	buf := make([]byte, 8)
	ok := r.timed(lab.Op, func() {
		switch lab.Op {
		case "attach":
			var q p9p.Qid
			q, err = r.sess.Attach(ctx, f, af, "u", "/")
			if err == nil && lab.Err == "" {
				if h := r.fs.Reg[lab.FS[0].NH]; h == nil || q != h.Qid() {
					detail = fmt.Sprintf("attach returned qid %v, not the qid of the attached entry", q)
				}
			}
		case "walk":
			var qs []p9p.Qid
			r.fs.WalkQids = nil
			qs, err = r.sess.Walk(ctx, f, nf, a.Names...)
			if err == nil && lab.Err == "" {
				if len(qs) != lab.Nq || !qidsEq(qs, r.fs.WalkQids) {
					detail = fmt.Sprintf("walk returned %d qids %v, file system produced %v (expected %d)", len(qs), qs, r.fs.WalkQids, lab.Nq)
				}
			}
		case "open":
			var q p9p.Qid
			q, _, err = r.sess.Open(ctx, f, mode)
			if err == nil && lab.Err == "" {
				if h := r.fs.Reg[from.Tab[fmt.Sprint(a.F)].H]; h == nil || q != h.Qid() {
					detail = fmt.Sprintf("open returned qid %v, not the entry's", q)
				}
			}
		case "create":
			var q p9p.Qid
			perm := uint32(0644)
			if len(lab.FS) > 0 && lab.FS[0].Dir {
				perm = p9p.DMDIR | 0755
			}
			q, _, err = r.sess.Create(ctx, f, a.Name, perm, mode)
			if err == nil && lab.Err == "" {
				if h := r.fs.Reg[lab.FS[0].NH]; h == nil || q != h.Qid() {
					detail = fmt.Sprintf("create returned qid %v, not the new entry's", q)
				}
			}
		case "read":
			var n int
			n, err = r.sess.Read(ctx, f, buf, 0)
			if err == nil && lab.Err == "" {
				st := from.Tab[fmt.Sprint(a.F)]
				if st.Dir {
					if n != 0 {
						detail = fmt.Sprintf("read of an empty directory returned %d bytes", n)
					}
				} else if h := r.fs.Reg[st.H]; h == nil || n != 5 || string(buf[:n]) != string((&sfs.HFile{H: h}).Pattern(5)) {
					detail = fmt.Sprintf("read returned %d bytes %v, not the file's data", n, buf[:n])
				}
			}
		case "write":
			var n int
			n, err = r.sess.Write(ctx, f, []byte("abc"), 0)
			if err == nil && lab.Err == "" && n != 3 {
				detail = fmt.Sprintf("write returned %d, file system wrote 3", n)
			}
		case "stat":
			var d p9p.Dir
			d, err = r.sess.Stat(ctx, f)
			if err == nil && lab.Err == "" {
				if h := r.fs.Reg[from.Tab[fmt.Sprint(a.F)].H]; h == nil || d.Name != h.StatDir().Name {
					detail = fmt.Sprintf("stat returned %q, not the entry's record", d.Name)
				}
			}
		case "wstat":
			err = r.sess.WStat(ctx, f, p9p.Dir{Name: "n"})
		case "clunk":
			err = r.sess.Clunk(ctx, f)
		case "remove":
			err = r.sess.Remove(ctx, f)
		default:
			panic("unknown op " + lab.Op)
		}
	})
	if !ok {
		return false
	}
	problems := r.fs.EndScript()
	good := true
	// a read or write of zero bytes is a read / write like any other: it succeeds or fails on the same grounds
	if (lab.Op == "read" || lab.Op == "write") && (lab.Err == "" || lab.Err == "unknownfid" || lab.Err == "notopen" || lab.Err == "noread" || lab.Err == "nowrite" || lab.Err == "dirwrite") {
		var zerr error
		r.fs.StartProbe()
		okz := r.timed(lab.Op+"-zero", func() {
			if lab.Op == "read" {
				_, zerr = r.sess.Read(ctx, f, []byte{}, 0)
			} else {
				_, zerr = r.sess.Write(ctx, f, []byte{}, 0)
			}
		})
		r.fs.EndProbe()
		if !okz {
			return false
		}
		if (zerr == nil) != (lab.Err == "") {
			r.viol("state", "result:"+lab.Op+":zero-count", fmt.Sprintf("%s of zero bytes returns %v where a %s of some bytes %s", lab.Op, zerr, lab.Op, map[bool]string{true: "succeeds", false: "fails with " + lab.Err}[lab.Err == ""]))
			good = false
		}
	}
	// result class
	switch {
	case lab.Err == "" && err != nil:
		r.viol("state", "result:"+lab.Op+":unexpected-error", fmt.Sprintf("%s failed with %q, the reference succeeds", lab.Op, err))
		good = false
	case lab.Err != "" && err == nil:
		r.viol("state", "result:"+lab.Op+":unexpected-success:"+lab.Err, fmt.Sprintf("%s succeeded, the reference fails with %s", lab.Op, lab.Err))
		good = false
	case lab.Err != "" && !errHas(err, errClass[lab.Err]):
		if lab.Err == "dupfid" || lab.Err == "fs" {
			r.viol("state", "result:"+lab.Op+":wrong-error:"+lab.Err, fmt.Sprintf("%s failed with %q, expected %s", lab.Op, err, lab.Err))
			good = false
		} else {
			r.res.DriftNote(fmt.Sprintf("%s: error %q where the model expects class %s", lab.Op, err, lab.Err))
		}
	}
	if detail != "" {
		r.viol("state", "result:"+lab.Op+":value", detail)
		good = false
	}
	for _, p := range problems {
		tag := "state"
		if strings.Contains(p, "clunk") || strings.Contains(p, "remove") {
			tag = "release"
		}
		r.viol(tag, "fscall:"+lab.Op, p)
		good = false
	}
	// arguments handed to the file system
	for _, ev := range r.fs.Scripted {
		if ev.Call == "walk" && ev.Note != fmt.Sprint(a.Names) {
			r.viol("state", "fsargs:walk", fmt.Sprintf("file system saw names %s, caller passed %v", ev.Note, a.Names))
			good = false
		}
	}
	if !good {
		return false
	}
	return r.checkState(e.To)
}

func (r *fidRun) stop(e fidEdge) bool {
	if e.Lab.A.Name == "fail" {
		// every release made by Stop reports an error (accounting goes on; a failing clunk is still a release)
		r.fs.Decide = func(call string, h *sfs.Handle) sfs.Expect { return sfs.Expect{Call: call, Out: "fail"} }
		ok := r.timed("stop", func() { r.sess.Stop(nil) })
		r.fs.Decide = nil
		if !ok {
			return false
		}
		return r.checkState(e.To)
	}
	r.fs.StartProbe() // Stop releases in any order: no script, only accounting
	if !r.timed("stop", func() { r.sess.Stop(nil) }) {
		return false
	}
	r.fs.EndProbe()
	return r.checkState(e.To)
}

// checkState projects the real session through probes and compares with the model state.
func (r *fidRun) checkState(to int) bool {
	st := r.lts.States[to]
	ctx := context.Background()
	good := true
	bad := func(tag, sig, d string) { r.viol(tag, sig, d); good = false }
	for _, mf := range append(append([]int{}, r.fids...), modelNOFID) {
		want := fidSt{}
		if mf != modelNOFID {
			want = st.Tab[fmt.Sprint(mf)]
		}
		fid := realFid(mf)
		var err error
		var d p9p.Dir
		r.fs.StartProbe()
		if !r.timed("probe-stat", func() { d, err = r.sess.Stat(ctx, fid) }) {
			return false
		}
		log := r.fs.EndProbe()
		if want.H == 0 {
			if err == nil || len(log) > 0 {
				bad("state", "bound-but-should-not", fmt.Sprintf("fid %d is bound (stat succeeded / reached the file system) but the reference has it unbound", mf))
			}
			continue
		}
		h := r.fs.Reg[want.H]
		if err != nil {
			bad("state", "unbound-but-should-be", fmt.Sprintf("fid %d: stat fails with %q but the reference has it bound", mf, err))
			continue
		}
		if len(log) != 1 || log[0].H != h || d.Name != h.StatDir().Name {
			bad("state", "bound-to-wrong-entry", fmt.Sprintf("fid %d is bound to another entry than in the reference (stat reached %v)", mf, d.Name))
			continue
		}
		// open state through read/write probes at an offset no directory reader accepts
		var rerr, werr error
		r.fs.StartProbe()
		if !r.timed("probe-read", func() { _, rerr = r.sess.Read(ctx, fid, make([]byte, 4), 1<<40) }) {
			return false
		}
		rlog := r.fs.EndProbe()
		r.fs.StartProbe()
		if !r.timed("probe-write", func() { _, werr = r.sess.Write(ctx, fid, []byte{}, 1<<40) }) {
			return false
		}
		wlog := r.fs.EndProbe()
		canR, canW := want.Mode%4 != 1, want.Mode%4 == 1 || want.Mode%4 == 2
		switch {
		case !want.Open:
			if !errHas(rerr, "no file open") || !errHas(werr, "no file open") || len(rlog)+len(wlog) > 0 {
				bad("state", "open-but-should-not", fmt.Sprintf("fid %d behaves as open (read: %v, write: %v) but the reference has it not open", mf, rerr, werr))
			}
		default:
			if errHas(rerr, "no file open") || errHas(werr, "no file open") {
				bad("state", "not-open-but-should-be", fmt.Sprintf("fid %d is not open but the reference has it open with mode %d", mf, want.Mode))
				break
			}
			gotR := !errHas(rerr, "read prohibited")
			gotW := !errHas(werr, "write prohibited")
			if gotR != canR || gotW != canW {
				bad("state", "mode", fmt.Sprintf("fid %d open with mode %d: read allowed=%v (reference %v), write allowed=%v (reference %v)", mf, want.Mode, gotR, canR, gotW, canW))
				break
			}
			if !want.Dir {
				if canR && (len(rlog) != 1 || rlog[0].H != h || rlog[0].Call != "read") {
					bad("state", "read-wrong-file", fmt.Sprintf("fid %d: read does not reach the open file of its entry", mf))
				}
				if canW && (len(wlog) != 1 || wlog[0].H != h || wlog[0].Call != "write") {
					bad("state", "write-wrong-file", fmt.Sprintf("fid %d: write does not reach the open file of its entry", mf))
				}
			} else if canR && !errHas(rerr, "bad offset") {
				bad("state", "dir-read", fmt.Sprintf("fid %d: open directory does not read through the directory reader (%v)", mf, rerr))
			}
		}
	}
	// release accounting on the real entry objects
	live := map[int]bool{}
	for _, h := range st.Live {
		live[h] = true
	}
	for _, h := range r.fs.All {
		if h.Placeholder {
			if h.Released() > 0 || h.Calls > 0 {
				bad("release", "placeholder-used", "the entry returned by an incomplete walk was used or released")
			}
			continue
		}
		want := 1
		if h.MH != 0 && live[h.MH] && r.fs.Reg[h.MH] == h {
			want = 0
		}
		if h.Released() != want {
			sig := "released-too-often"
			if h.Released() < want {
				sig = "not-released"
			} else if want == 0 {
				sig = "released-while-bound"
			}
			bad("release", sig, fmt.Sprintf("entry#%d (model h%d): released %d times (clunk %d, remove %d, consumed by create %d), reference says %d",
				h.ID, h.MH, h.Released(), h.Clunks, h.Removes, h.Consumed, want))
		}
		if len(h.UsedAfterRelease) > 0 {
			bad("release", "use-after-release", fmt.Sprintf("entry#%d used after its release: %v", h.ID, h.UsedAfterRelease))
		}
	}
	return good
}

// finalAccounting (C13, independent of the model): whatever went wrong before, after Stop every
// entry object the file system handed to the session must have been released exactly once.
func (r *fidRun) finalAccounting() {
	if r.hung {
		return
	}
	r.fs.StartProbe()
	if !r.timed("stop", func() { r.sess.Stop(nil) }) {
		return
	}
	r.fs.EndProbe()
	for _, h := range r.fs.All {
		if h.Placeholder {
			continue
		}
		if h.Released() != 1 {
			sig := "not-released-after-stop"
			if h.Released() > 1 {
				sig = "released-too-often"
			}
			r.viol("release", sig, fmt.Sprintf("after Stop, entry#%d (model h%d) has been released %d times (clunk %d, remove %d, consumed by create %d); every entry handed to the session must be released exactly once",
				h.ID, h.MH, h.Released(), h.Clunks, h.Removes, h.Consumed))
			return
		}
	}
}

// finish ends a history with Stop (stop may strike at any point) and checks that nothing stays bound.
func (r *fidRun) finish(cur int) {
	if r.hung || r.lts.States[cur].Stopped {
		return
	}
	for _, ei := range r.lts.Out[cur] {
		if r.lts.Edges[ei].Lab.Op == "stop" {
			r.step(r.lts.Edges[ei])
			return
		}
	}
}

// ------------------------------------------------------------------ walker

func Fid(args []string) {
	fl := flag.NewFlagSet("fid", flag.ExitOnError)
	ltsPath := fl.String("lts", "", "LTS ndjson from TLC")
	out := fl.String("out", "", "result file")
	cover := fl.Bool("cover", true, "edge-cover tours")
	nrand := fl.Int("random", 200, "number of random walks")
	depth := fl.Int("depth", 30, "length of random walks")
	maxlen := fl.Int("maxlen", 40, "maximal length of a cover tour")
	replay := fl.String("replay", "", "replay file")
	fl.Parse(args)
	res := hx.NewResult()
	defer res.Write(*out)
	lts, err := loadFidLTS(*ltsPath)
	if err != nil {
		fmt.Println("fid: cannot load LTS:", err)
		res.Set("error", err.Error())
		return
	}
	_ = replay
	res.Set("lts_states", len(lts.States))
	res.Set("lts_edges", len(lts.Edges))

	// plan the histories (sequences of edge indices)
	var plans [][]int
	covered := make([]bool, len(lts.Edges))
	if *cover {
		plans = append(plans, coverTours(lts.Out, func(e int) int { return lts.Edges[e].From }, func(e int) int { return lts.Edges[e].To }, lts.Init, len(lts.Edges), *maxlen,
			func(e int) bool { return lts.Edges[e].Lab.Op == "stop" })...)
	}
	rng := hx.Rand(11)
	for i := 0; i < *nrand; i++ {
		cur := lts.Init
		var p []int
		for j := 0; j < *depth && len(lts.Out[cur]) > 0; j++ {
			// prefer state-changing edges half of the time
			outs := lts.Out[cur]
			e := outs[rng.Intn(len(outs))]
			if rng.Intn(2) == 0 {
				for k := 0; k < 6 && lts.Edges[e].To == cur; k++ {
					e = outs[rng.Intn(len(outs))]
				}
			}
			if lts.Edges[e].Lab.Op == "stop" && j < *depth-1 && rng.Intn(4) != 0 {
				continue
			}
			p = append(p, e)
			cur = lts.Edges[e].To
			if lts.States[cur].Stopped {
				break
			}
		}
		plans = append(plans, p)
	}

	var wg sync.WaitGroup
	jobs := make(chan []int)
	var mu sync.Mutex
	steps, hists := 0, 0
	opsSeen := map[string]int{}
	for w := 0; w < 16; w++ {
		wg.Add(1)
		go func() {
			defer wg.Done()
			for p := range jobs {
				r := newFidRun(lts, res)
				cur := lts.Init
				okAll := true
				for _, ei := range p {
					if !r.step(lts.Edges[ei]) {
						okAll = false
						break
					}
					cur = lts.Edges[ei].To
				}
				if okAll {
					r.finish(cur)
				} else if len(r.hist) > 0 && r.hist[len(r.hist)-1].Op != "stop" {
					r.finalAccounting()
				}
				mu.Lock()
				steps += r.steps
				hists++
				for _, ei := range p {
					covered[ei] = true
					opsSeen[lts.Edges[ei].Lab.Op+"/"+lts.Edges[ei].Lab.Err]++
				}
				mu.Unlock()
				if hists < 4 {
					res.Sample(map[string]interface{}{"history": r.hist[:min(len(r.hist), 8)]})
				}
			}
		}()
	}
	for _, p := range plans {
		if res.NViol() > 40 {
			break
		}
		jobs <- p
	}
	close(jobs)
	wg.Wait()
	nc := 0
	for _, c := range covered {
		if c {
			nc++
		}
	}
	res.Evaluations = steps
	res.Distinct = nc
	res.Set("histories", hists)
	res.Set("edges_covered", nc)
	res.Set("op_result_classes_seen", len(opsSeen))
}

func min(a, b int) int {
	if a < b {
		return a
	}
	return b
}

// coverTours plans walks from init that together traverse every edge reachable from init.
func coverTours(out [][]int, from, to func(e int) int, init, nedges, maxlen int, terminal func(e int) bool) [][]int {
	covered := make([]bool, nedges)
	remaining := make([]int, len(out)) // uncovered out-edges per state
	total := 0
	for s, es := range out {
		remaining[s] = len(es)
		total += len(es)
	}
	next := make([]int, len(out)) // scan position per state
	pick := func(s int) int {
		for next[s] < len(out[s]) {
			e := out[s][next[s]]
			if !covered[e] {
				return e
			}
			next[s]++
		}
		return -1
	}
	// BFS from s to the nearest state with an uncovered out-edge; returns edge path
	stamp := make([]int, len(out))
	prevE := make([]int, len(out))
	gen := 0
	bfs := func(s int) []int {
		gen++
		stamp[s] = gen
		q := []int{s}
		for len(q) > 0 {
			u := q[0]
			q = q[1:]
			if u != s && remaining[u] > 0 {
				var path []int
				for u != s {
					e := prevE[u]
					path = append(path, e)
					u = from(e)
				}
				for i, j := 0, len(path)-1; i < j; i, j = i+1, j-1 {
					path[i], path[j] = path[j], path[i]
				}
				return path
			}
			for _, e := range out[u] {
				if terminal(e) {
					continue
				}
				v := to(e)
				if stamp[v] != gen {
					stamp[v] = gen
					prevE[v] = e
					q = append(q, v)
				}
			}
		}
		return nil
	}
	var plans [][]int
	for total > 0 {
		cur := init
		var p []int
		progressed := false
		for len(p) < maxlen {
			e := pick(cur)
			if e < 0 {
				path := bfs(cur)
				if path == nil || len(p)+len(path) >= maxlen+20 {
					break
				}
				for _, pe := range path {
					p = append(p, pe)
					cur = to(pe)
				}
				continue
			}
			covered[e] = true
			remaining[cur]--
			total--
			progressed = true
			p = append(p, e)
			if terminal(e) {
				break
			}
			cur = to(e)
		}
		if !progressed {
			break // the rest is unreachable
		}
		plans = append(plans, p)
	}
	return plans
}
