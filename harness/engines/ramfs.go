package engines

// Engine "ramfs" (C18): the LTS of specs/ramfs/RamFS.tla replayed on a fresh
// ramfs file server behind p9p.SFileSys, one session object per model session.
// After every step: result, returned data / listing, walk qids, the whole live
// tree (hook ramfs.VerifTree) and the node every fid denotes (Stat) are compared;
// when no fid is bound, every node's reference count must equal its number of
// parent links (hook ramfs.VerifValidate).  No request may panic.

import (
	"bytes"
	"context"
	"encoding/json"
	"flag"
	"fmt"
	"reflect"
	"sort"
	"strings"
	"sync"

	p9p "github.com/frobnitzem/go-p9p"
	"github.com/frobnitzem/go-p9p/ramfs"
	"verif/harness/hx"
)

type ramLabel struct {
	Op      string          `json:"op"`
	S       int             `json:"s"`
	F       int             `json:"f"`
	NF      int             `json:"nf"`
	Names   []string        `json:"names"`
	Name    string          `json:"name"`
	Off     string          `json:"off"`
	Cnt     int             `json:"cnt"`
	Bytes   []int           `json:"bytes"`
	Res     string          `json:"res"`
	Out     json.RawMessage `json:"out"`
	NewNode int             `json:"newnode"`
}

type ramTab struct {
	N     int   `json:"n"`
	Chain []int `json:"chain"`
	Open  bool  `json:"open"`
}

type ramState struct {
	Kind  []string
	Child []map[string]int
	Data  [][]int
	Tab   map[string]ramTab
}

func parseRamState(raw json.RawMessage) (*ramState, error) {
	var parts []json.RawMessage
	if err := json.Unmarshal(raw, &parts); err != nil || len(parts) != 4 {
		return nil, fmt.Errorf("bad ramfs state")
	}
	st := &ramState{}
	if err := json.Unmarshal(parts[0], &st.Kind); err != nil {
		return nil, err
	}
	if err := json.Unmarshal(parts[1], &st.Child); err != nil {
		return nil, err
	}
	if err := json.Unmarshal(parts[2], &st.Data); err != nil {
		return nil, err
	}
	if err := json.Unmarshal(parts[3], &st.Tab); err != nil {
		return nil, err
	}
	return st, nil
}

type ramExec struct {
	res   *hx.Result
	fs    p9p.FileSys
	sess  map[int]p9p.Session
	qid   map[int]uint64 // model node -> real qid path
	hist  []ramLabel
	cache map[string]*ramState
	cmu   *sync.Mutex
}

func newRamExec(res *hx.Result, cache map[string]*ramState, cmu *sync.Mutex) *ramExec {
	return &ramExec{res: res, fs: ramfs.NewTestServer(), sess: map[int]p9p.Session{}, qid: map[int]uint64{1: 1}, cache: cache, cmu: cmu}
}

func (x *ramExec) state(raw json.RawMessage) *ramState {
	x.cmu.Lock()
	defer x.cmu.Unlock()
	if s, ok := x.cache[string(raw)]; ok {
		return s
	}
	s, err := parseRamState(raw)
	if err != nil {
		panic(err)
	}
	x.cache[string(raw)] = s
	return s
}

func (x *ramExec) viol(sig, d string) {
	h := x.hist
	if len(h) > 30 {
		h = h[len(h)-30:]
	}
	x.res.Violate("C18", sig, fmt.Sprintf("%s [after %d steps; last %s]", d, len(x.hist), hx.JS(x.hist[len(x.hist)-1])),
		map[string]interface{}{"engine": "ramfs", "history": x.hist})
}

func (x *ramExec) session(s int) p9p.Session {
	if x.sess[s] == nil {
		x.sess[s] = p9p.SFileSys(x.fs)
	}
	return x.sess[s]
}

func concOff(o string, length int, variant int) int64 {
	switch o {
	case "0":
		return 0
	case "1":
		return 1
	case "end":
		return int64(length)
	case "end+1":
		// beyond the end: just beyond, and as far beyond as a positive int64 goes (offset + count wraps there)
		return []int64{int64(length) + 1, int64(length) + 1, 1 << 62, 1<<63 - 1, 1<<63 - 8, 1<<63 - 2}[variant%6]
	case "neg":
		return []int64{-1 << 63, -2, -1 << 40}[variant%3]
	}
	return -1 // 2^64-1 as a 64-bit offset
}

func tabKey(s, f int) string { return fmt.Sprintf("<<%d, %d>>", s, f) }

func (x *ramExec) Step(label, from, to json.RawMessage) bool {
	var l ramLabel
	if err := json.Unmarshal(label, &l); err != nil {
		x.res.Violate("harness", "harness:ram-label", err.Error(), nil)
		return false
	}
	x.hist = append(x.hist, l)
	if l.Op == "gc" || l.Res == "skip" {
		return true
	}
	fromSt := x.state(from)
	ctx := context.Background()
	sess := x.session(l.S)
	f, nf := p9p.Fid(l.F), p9p.Fid(l.NF)
	var err error
	var qids []p9p.Qid
	var q p9p.Qid
	var n int
	var rbuf []byte
	var listing []string
	okc, dump := hx.RunTimed(hxTimeout, func() {
		switch l.Op {
		case "attach":
			q, err = sess.Attach(ctx, f, p9p.NOFID, fmt.Sprintf("user%d", l.S), "/")
		case "walk":
			qids, err = sess.Walk(ctx, f, nf, l.Names...)
		case "create":
			perm := uint32(0644)
			if l.Cnt == 1 {
				perm = p9p.DMDIR | 0755
			}
			q, _, err = sess.Create(ctx, f, l.Name, perm, p9p.ORDWR)
		case "open":
			_, _, err = sess.Open(ctx, f, p9p.ORDWR)
		case "read":
			length := len(fromSt.Data[fromSt.Tab[tabKey(l.S, l.F)].N-1])
			rbuf = make([]byte, l.Cnt)
			n, err = sess.Read(ctx, f, rbuf, concOff(l.Off, length, len(x.hist)))
		case "write":
			length := len(fromSt.Data[fromSt.Tab[tabKey(l.S, l.F)].N-1])
			n, err = sess.Write(ctx, f, ints2bytes(l.Bytes), concOff(l.Off, length, len(x.hist)))
		case "truncate":
			err = sess.WStat(ctx, f, p9p.Dir{Mode: ^uint32(0), Length: uint64(l.Cnt)})
		case "list":
			_, _, err = sess.Open(ctx, f, p9p.OREAD)
			if err != nil {
				return
			}
			off := int64(0)
			for i := 0; i < 100; i++ {
				b := make([]byte, 4096)
				var k int
				k, err = sess.Read(ctx, f, b, off)
				if err != nil || k == 0 {
					return
				}
				off += int64(k)
				rd := bytes.NewReader(b[:k])
				for rd.Len() > 0 {
					var d p9p.Dir
					if err = p9p.DecodeDir(p9p.NewCodec(), rd, &d); err != nil {
						return
					}
					listing = append(listing, d.Name)
				}
			}
		case "clunk":
			err = sess.Clunk(ctx, f)
		case "remove":
			err = sess.Remove(ctx, f)
		}
	})
	if !okc {
		x.viol("panic-or-hang:"+l.Op, hx.Trunc(dump, 1200))
		return false
	}
	toSt := x.state(to)
	good := true
	bad := func(sig, d string) { x.viol(sig, d); good = false }
	switch l.Op {
	case "walk":
		switch l.Res {
		case "ok":
			if err != nil || len(qids) != len(l.Names) {
				bad("walk-result", fmt.Sprintf("walk %v must complete; got %d qids, err=%v", l.Names, len(qids), err))
			} else if len(qids) > 0 {
				if want := x.qid[toSt.Tab[tabKey(l.S, l.NF)].N]; qids[len(qids)-1].Path != want {
					bad("walk-qid", fmt.Sprintf("walk %v ends at qid path %d, the model tree says %d", l.Names, qids[len(qids)-1].Path, want))
				}
			}
		case "partial":
			if err != nil || len(qids) != l.Cnt {
				bad("walk-result", fmt.Sprintf("walk %v must stop after %d elements; got %d qids, err=%v", l.Names, l.Cnt, len(qids), err))
			}
		default:
			if err == nil && !(len(l.Names) > 0 && len(qids) == 0) {
				bad("walk-result", fmt.Sprintf("walk %v must fail; got %d qids without error", l.Names, len(qids)))
			}
		}
	case "read":
		var want []int
		json.Unmarshal(l.Out, &want)
		if l.Res == "nobytes" {
			if n != 0 {
				bad("read-data", fmt.Sprintf("read at offset class %s must return no bytes, returned %d", l.Off, n))
			}
		} else if err != nil || !bytes.Equal(rbuf[:n], ints2bytes(want)) {
			bad("read-data", fmt.Sprintf("read(off %s, count %d) returned %v (err %v), the bytes last written there are %v", l.Off, l.Cnt, rbuf[:n], err, want))
		}
	case "write":
		if l.Res == "ok" && (err != nil || n != len(l.Bytes)) {
			bad("write-result", fmt.Sprintf("write of %d bytes at offset class %s: n=%d err=%v", len(l.Bytes), l.Off, n, err))
		} else if l.Res == "err" && err == nil {
			bad("write-result", fmt.Sprintf("write at offset class %s (beyond the end / negative) was accepted", l.Off))
		}
	case "list":
		var outs [][]string
		json.Unmarshal(l.Out, &outs)
		want := []string{".."}
		if len(outs) > 0 {
			want = append(want, outs[0]...)
		}
		sort.Strings(want)
		sort.Strings(listing)
		if err != nil || !reflect.DeepEqual(listing, want) {
			bad("listing", fmt.Sprintf("directory listing is %v (err %v), the model tree has %v", listing, err, want))
		}
	case "create":
		if (err == nil) != (l.Res == "ok") {
			bad("create-result", fmt.Sprintf("create %q: err=%v, model says %s", l.Name, err, l.Res))
		} else if err == nil {
			x.qid[l.NewNode] = q.Path
		}
	default:
		if (err == nil) != (l.Res == "ok") {
			bad(l.Op+"-result", fmt.Sprintf("%s: err=%v, model says %s", l.Op, err, l.Res))
		}
	}
	if !good {
		return false
	}
	return x.compare(toSt)
}

// compare checks the whole live tree and what every fid denotes.
func (x *ramExec) compare(st *ramState) bool {
	var want []string
	var walk func(p string, n int)
	walk = func(p string, n int) {
		want = append(want, fmt.Sprintf("%s %s %d %x", p, st.Kind[n-1], x.qid[n], ints2bytes(st.Data[n-1])))
		names := []string{}
		for nm, c := range st.Child[n-1] {
			if c != 0 {
				names = append(names, nm)
			}
		}
		sort.Strings(names)
		for _, nm := range names {
			walk(p+"/"+nm, st.Child[n-1][nm])
		}
	}
	walk("", 1)
	got := ramfs.VerifTree(x.fs)
	if !reflect.DeepEqual(got, want) {
		x.viol("tree", fmt.Sprintf("the server's tree differs from the model tree:\n  server: %s\n  model:  %s", strings.Join(got, " | "), strings.Join(want, " | ")))
		return false
	}
	ctx := context.Background()
	anyBound := false
	for key, t := range st.Tab {
		var s, f int
		fmt.Sscanf(key, "<<%d, %d>>", &s, &f)
		var d p9p.Dir
		var err error
		okc, dump := hx.RunTimed(hxTimeout, func() { d, err = x.session(s).Stat(ctx, p9p.Fid(f)) })
		if !okc {
			x.viol("panic-or-hang:stat", hx.Trunc(dump, 800))
			return false
		}
		if t.N == 0 {
			if err == nil {
				x.viol("fid-bound", fmt.Sprintf("session %d fid %d is bound but the model has it unbound", s, f))
				return false
			}
			continue
		}
		anyBound = true
		if err != nil || d.Qid.Path != x.qid[t.N] {
			x.viol("fid-denotes", fmt.Sprintf("session %d fid %d denotes qid path %d (err %v), the model says node %d = qid path %d", s, f, d.Qid.Path, err, t.N, x.qid[t.N]))
			return false
		}
		// the chain of directories the fid was reached through: ".." x depth must walk it back to the root
		if k := len(t.Chain); k > 0 && st.Kind[t.N-1] == "dir" {
			ups := make([]string, k)
			for i := range ups {
				ups[i] = ".."
			}
			const tmp = p9p.Fid(77777)
			var qs []p9p.Qid
			okc, dump := hx.RunTimed(hxTimeout, func() { qs, err = x.session(s).Walk(ctx, p9p.Fid(f), tmp, ups...) })
			if !okc {
				x.viol("panic-or-hang:walk", hx.Trunc(dump, 800))
				return false
			}
			if err == nil && len(qs) == k {
				x.session(s).Clunk(ctx, tmp)
			}
			okq := err == nil && len(qs) == k
			for i := 0; okq && i < k; i++ {
				okq = qs[i].Path == x.qid[t.Chain[k-1-i]]
			}
			if !okq {
				x.viol("fid-chain", fmt.Sprintf("session %d fid %d was reached through nodes %v; walking %d x '..' from it gives qids %v (err %v)", s, f, t.Chain, k, qs, err))
				return false
			}
		}
	}
	if !anyBound {
		if err := ramfs.VerifValidate(x.fs); err != nil {
			x.viol("refcount", "all fids are clunked but "+err.Error())
			return false
		}
	}
	return true
}

func (x *ramExec) Finish(state json.RawMessage) {
	st := x.state(state)
	ctx := context.Background()
	for key, t := range st.Tab {
		if t.N != 0 {
			var s, f int
			fmt.Sscanf(key, "<<%d, %d>>", &s, &f)
			x.session(s).Clunk(ctx, p9p.Fid(f))
		}
	}
	if err := ramfs.VerifValidate(x.fs); err != nil {
		x.hist = append(x.hist, ramLabel{Op: "clunk-all"})
		x.viol("refcount", "after every fid was clunked "+err.Error())
	}
}

func RamEngine(args []string) {
	fl := flag.NewFlagSet("ramfs", flag.ExitOnError)
	ltsPath := fl.String("lts", "", "LTS ndjson")
	out := fl.String("out", "", "result file")
	nrand := fl.Int("random", 300, "random walks")
	depth := fl.Int("depth", 30, "depth of random walks")
	cover := fl.Bool("cover", true, "edge cover tours")
	fl.Parse(args)
	res := hx.NewResult()
	defer res.Write(*out)
	l, err := LoadLTS(*ltsPath)
	if err != nil {
		res.Set("error", err.Error())
		return
	}
	cache := map[string]*ramState{}
	var cmu sync.Mutex
	st := RunLTS(l, func() Exec { return newRamExec(res, cache, &cmu) }, LTSOpts{Cover: *cover, NRandom: *nrand, Depth: *depth, MaxLen: 40}, res)
	res.Evaluations = st.Steps
	res.Distinct = st.EdgesCovered
	res.Set("histories", st.Histories)
	res.Set("lts_states", len(l.States))
	res.Set("lts_edges", len(l.From))
	for _, i := range []int{len(l.Label) / 3, len(l.Label) / 2} {
		var v interface{}
		json.Unmarshal(l.Label[i], &v)
		res.Sample(v)
	}
}

// RamConc (C18, concurrency clause): several sessions hammer one shared tree from
// separate goroutines.  Oracles: no panic, the Go race detector (race build) and,
// after every fid is clunked, reference counts equal parent links.
func RamConc(args []string) {
	fl := flag.NewFlagSet("ramconc", flag.ExitOnError)
	out := fl.String("out", "", "result file")
	rounds := fl.Int("rounds", 30, "number of concurrent rounds")
	fl.Parse(args)
	res := hx.NewResult()
	defer res.Write(*out)
	rng := hx.Rand(5)
	for r := 0; r < *rounds && res.NViol() < 5; r++ {
		fs := ramfs.NewTestServer()
		P := 2 + rng.Intn(3)
		seeds := make([]int64, P)
		for i := range seeds {
			seeds[i] = rng.Int63()
		}
		var wg sync.WaitGroup
		for p := 0; p < P; p++ {
			wg.Add(1)
			go func(p int) {
				defer wg.Done()
				okc, dump := hx.RunTimed(20*hxTimeout, func() {
					rr := hx.Rand(seeds[p])
					sess := p9p.SFileSys(fs)
					ctx := context.Background()
					sess.Attach(ctx, 1, p9p.NOFID, fmt.Sprintf("u%d", p), "/")
					names := []string{"a", "b", "c"}
					for i := 0; i < 60; i++ {
						nm := names[rr.Intn(3)]
						switch rr.Intn(9) {
						case 0: // create a file under the root and write to it
							sess.Walk(ctx, 1, 2)
							if _, _, err := sess.Create(ctx, 2, nm, 0644, p9p.ORDWR); err == nil {
								sess.Write(ctx, 2, []byte("hello"), 0)
							}
							sess.Clunk(ctx, 2)
						case 1: // create a directory and a file in it
							sess.Walk(ctx, 1, 2)
							sess.Create(ctx, 2, nm, p9p.DMDIR|0755, p9p.OREAD)
							sess.Clunk(ctx, 2)
						case 2, 3: // walk, open, read / write
							if q, err := sess.Walk(ctx, 1, 3, nm); err == nil && len(q) == 1 {
								if _, _, err := sess.Open(ctx, 3, p9p.ORDWR); err == nil {
									sess.Read(ctx, 3, make([]byte, 8), int64(rr.Intn(4)))
									sess.Write(ctx, 3, []byte{byte(p), byte(i)}, int64(rr.Intn(3)))
								}
								sess.Clunk(ctx, 3)
							}
						case 4: // stat / wstat
							if q, err := sess.Walk(ctx, 1, 3, nm); err == nil && len(q) == 1 {
								sess.Stat(ctx, 3)
								sess.WStat(ctx, 3, p9p.Dir{Mode: ^uint32(0), Length: ^uint64(0), UID: "x"})
								sess.Clunk(ctx, 3)
							}
						case 5: // remove
							if q, err := sess.Walk(ctx, 1, 3, nm); err == nil && len(q) == 1 {
								sess.Remove(ctx, 3)
							}
						case 6: // list the root
							sess.Walk(ctx, 1, 4)
							if _, _, err := sess.Open(ctx, 4, p9p.OREAD); err == nil {
								sess.Read(ctx, 4, make([]byte, 2048), 0)
							}
							sess.Clunk(ctx, 4)
						case 7: // two levels and back
							if q, err := sess.Walk(ctx, 1, 3, nm, names[rr.Intn(3)]); err == nil && len(q) == 2 {
								sess.Walk(ctx, 3, 5, "..", "..")
								sess.Clunk(ctx, 5)
								sess.Clunk(ctx, 3)
							}
						case 8:
							sess.Walk(ctx, 1, 3, nm)
							sess.Walk(ctx, 3, 3, "..")
							sess.Clunk(ctx, 3)
						}
					}
					for f := 1; f <= 5; f++ {
						sess.Clunk(ctx, p9p.Fid(f))
					}
				})
				if !okc {
					res.Violate("C18", "concurrent-panic-or-hang", hx.Trunc(dump, 1500), map[string]interface{}{"engine": "ramconc", "round": r})
				}
			}(p)
		}
		wg.Wait()
		if err := ramfs.VerifValidate(fs); err != nil && res.NViol() == 0 {
			res.Violate("C18", "concurrent-refcount", "after concurrent sessions clunked every fid: "+err.Error(), map[string]interface{}{"engine": "ramconc", "round": r, "seeds": seeds})
		}
		res.Evaluations += P * 60
	}
	res.Distinct = *rounds
	res.Sample(map[string]interface{}{"rounds": *rounds, "ops_per_session": 60})
	for r := 0; r < 1+*rounds/10 && res.NViol() < 5; r++ {
		ramCreateRace(r, res)
	}
}

// ramCreateRace: several sessions try to create the same names in the shared root at the same moment.
// The tree is one object: for every name exactly one create succeeds, the others are told the name exists,
// and the node a later walk finds is the one the winner was given (its data is what the winner wrote).
func ramCreateRace(round int, res *hx.Result) {
	const P, N = 8, 600
	fs := ramfs.NewTestServer()
	ctx := context.Background()
	type win struct {
		p   int
		qid p9p.Qid
	}
	var mu sync.Mutex
	winners := map[int][]win{}
	start := make(chan struct{})
	var wg sync.WaitGroup
	for p := 0; p < P; p++ {
		wg.Add(1)
		go func(p int) {
			defer wg.Done()
			okc, dump := hx.RunTimed(20*hxTimeout, func() {
				sess := p9p.SFileSys(fs)
				sess.Attach(ctx, 1, p9p.NOFID, fmt.Sprintf("u%d", p), "/")
				<-start
				for n := 0; n < N; n++ {
					sess.Walk(ctx, 1, 2)
					q, _, err := sess.Create(ctx, 2, fmt.Sprintf("n%d", n), 0644, p9p.ORDWR)
					if err == nil {
						sess.Write(ctx, 2, []byte(fmt.Sprintf("written-by-%d", p)), 0)
						mu.Lock()
						winners[n] = append(winners[n], win{p, q})
						mu.Unlock()
					}
					sess.Clunk(ctx, 2)
				}
				sess.Clunk(ctx, 1)
			})
			if !okc {
				res.Violate("C18", "concurrent-panic-or-hang", hx.Trunc(dump, 1500), map[string]interface{}{"engine": "ramconc", "create_race": round})
			}
		}(p)
	}
	close(start)
	wg.Wait()
	res.Evaluations += P * N
	sess := p9p.SFileSys(fs)
	sess.Attach(ctx, 1, p9p.NOFID, "checker", "/")
	for n := 0; n < N && res.NViol() < 3; n++ {
		w := winners[n]
		name := fmt.Sprintf("n%d", n)
		if len(w) != 1 {
			res.Violate("C18", "concurrent-create-winners", fmt.Sprintf("%d sessions created %q in the same directory at the same moment and %d of them were told they succeeded (sessions %v); a directory holds one child per name", P, name, len(w), w),
				map[string]interface{}{"engine": "ramconc", "create_race": round})
			continue
		}
		q, err := sess.Walk(ctx, 1, 3, name)
		if err != nil || len(q) != 1 {
			res.Violate("C18", "concurrent-create-lost", fmt.Sprintf("%q was created (by session %d) and never removed, but a walk does not find it: %v", name, w[0].p, err), map[string]interface{}{"engine": "ramconc", "create_race": round})
			continue
		}
		buf := make([]byte, 32)
		sess.Open(ctx, 3, p9p.OREAD)
		k, _ := sess.Read(ctx, 3, buf, 0)
		sess.Clunk(ctx, 3)
		if q[0].Path != w[0].qid.Path || string(buf[:k]) != fmt.Sprintf("written-by-%d", w[0].p) {
			res.Violate("C18", "concurrent-create-other-node", fmt.Sprintf("%q: the creator (session %d) was given qid path %d and wrote its mark; a walk finds qid path %d holding %q", name, w[0].p, w[0].qid.Path, q[0].Path, buf[:k]),
				map[string]interface{}{"engine": "ramconc", "create_race": round})
		}
	}
	sess.Clunk(ctx, 1)
	if err := ramfs.VerifValidate(fs); err != nil && res.NViol() == 0 {
		res.Violate("C18", "concurrent-refcount", "after the concurrent creates, all fids clunked: "+err.Error(), map[string]interface{}{"engine": "ramconc", "create_race": round})
	}
}
