package engines

// Engine "cfs" (C20): replays the LTS of specs/cfs/CFileSys.tla on the real
// p9p.CFileSys(spy(p9p.SFileSys(scriptedFS))).  The spy records every session
// call the client layer issues; after every step the call, the reported
// outcome, the returned entry and the set of fids bound on the real server
// (probed directly on the server session) are compared with the model.

import (
	"context"
	"encoding/json"
	"errors"
	"flag"
	"fmt"
	"reflect"
	"sync"

	p9p "github.com/frobnitzem/go-p9p"
	"verif/harness/hx"
	"verif/harness/sfs"
)

type spyCall struct {
	M     string   `json:"m"`
	Fid   int      `json:"fid"`
	NF    int      `json:"nf"`
	Names []string `json:"names"`
	Name  string   `json:"name"`
}

type spySession struct {
	p9p.Session
	mu  sync.Mutex
	log []spyCall
	// lose, when set, is asked for every clunk / remove: true means the call never reaches the server
	// (the connection failed under it) and an error that is not a 9p error reply is returned
	lose func() bool
}

var errLost = errors.New("connection lost before the request was delivered")

func fidInt(f p9p.Fid) int {
	if f == p9p.NOFID {
		return 99
	}
	return int(f)
}

func (s *spySession) rec(c spyCall) {
	s.mu.Lock()
	if c.Names == nil {
		c.Names = []string{}
	}
	s.log = append(s.log, c)
	s.mu.Unlock()
}

func (s *spySession) Attach(ctx context.Context, fid, afid p9p.Fid, u, a string) (p9p.Qid, error) {
	s.rec(spyCall{M: "attach", Fid: fidInt(fid), NF: fidInt(afid)})
	return s.Session.Attach(ctx, fid, afid, u, a)
}
func (s *spySession) Walk(ctx context.Context, fid, nf p9p.Fid, names ...string) ([]p9p.Qid, error) {
	s.rec(spyCall{M: "walk", Fid: fidInt(fid), NF: fidInt(nf), Names: append([]string{}, names...)})
	return s.Session.Walk(ctx, fid, nf, names...)
}
func (s *spySession) Open(ctx context.Context, fid p9p.Fid, m p9p.Flag) (p9p.Qid, uint32, error) {
	s.rec(spyCall{M: "open", Fid: fidInt(fid), NF: 99})
	return s.Session.Open(ctx, fid, m)
}
func (s *spySession) Create(ctx context.Context, fid p9p.Fid, name string, perm uint32, m p9p.Flag) (p9p.Qid, uint32, error) {
	s.rec(spyCall{M: "create", Fid: fidInt(fid), NF: 99, Name: name})
	return s.Session.Create(ctx, fid, name, perm, m)
}
func (s *spySession) Stat(ctx context.Context, fid p9p.Fid) (p9p.Dir, error) {
	s.rec(spyCall{M: "stat", Fid: fidInt(fid), NF: 99})
	return s.Session.Stat(ctx, fid)
}
func (s *spySession) WStat(ctx context.Context, fid p9p.Fid, d p9p.Dir) error {
	s.rec(spyCall{M: "wstat", Fid: fidInt(fid), NF: 99})
	return s.Session.WStat(ctx, fid, d)
}
func (s *spySession) Clunk(ctx context.Context, fid p9p.Fid) error {
	s.rec(spyCall{M: "clunk", Fid: fidInt(fid), NF: 99})
	if s.lose != nil && s.lose() {
		return errLost
	}
	return s.Session.Clunk(ctx, fid)
}
func (s *spySession) Remove(ctx context.Context, fid p9p.Fid) error {
	s.rec(spyCall{M: "remove", Fid: fidInt(fid), NF: 99})
	if s.lose != nil && s.lose() {
		return errLost
	}
	return s.Session.Remove(ctx, fid)
}
func (s *spySession) Read(ctx context.Context, fid p9p.Fid, p []byte, off int64) (int, error) {
	s.rec(spyCall{M: "read", Fid: fidInt(fid), NF: 99})
	return s.Session.Read(ctx, fid, p, off)
}
func (s *spySession) Write(ctx context.Context, fid p9p.Fid, p []byte, off int64) (int, error) {
	s.rec(spyCall{M: "write", Fid: fidInt(fid), NF: 99})
	return s.Session.Write(ctx, fid, p, off)
}

type cfsLabel struct {
	Op    string   `json:"op"`
	E     int      `json:"e"`
	Names []string `json:"names"`
	Name  string   `json:"name"`
	Call  spyCall  `json:"call"`
	Out   string   `json:"out"`
	OK    bool     `json:"ok"`
	K     int      `json:"k"`
	Dir   bool     `json:"dir"`
}

type cfsExec struct {
	res    *hx.Result
	fs     *sfs.FS
	server p9p.Session
	spy    *spySession
	client p9p.FileSys
	ents   map[int]p9p.Dirent
	hist   []cfsLabel
	cur    cfsLabel
	maxFid int
	// m2r: the fid the client layer really chose for each fid of the model (fid numbers are the layer's own
	// business: it may recycle them; what counts is that live entries have pairwise distinct fids)
	m2r map[int]int
}

func (x *cfsExec) real(mf int) int {
	if r, ok := x.m2r[mf]; ok {
		return r
	}
	return mf
}

func newCfsExec(res *hx.Result, maxFid int) *cfsExec {
	x := &cfsExec{res: res, fs: sfs.New(), ents: map[int]p9p.Dirent{}, maxFid: maxFid, m2r: map[int]int{}}
	x.fs.Decide = func(call string, h *sfs.Handle) sfs.Expect {
		l := x.cur
		e := sfs.Expect{Call: call, Out: "ok", Dir: true}
		switch call {
		case "attach":
			if l.Out == "fail" {
				e.Out = "fail"
			}
		case "walk":
			switch l.Out {
			case "complete":
				e.Dir = l.Dir
			case "partial":
				e.Out, e.K = "partial", l.K
			default:
				e.Out = "fail"
			}
		case "create":
			e.Dir = l.Dir
			if l.Out == "fail" {
				e.Out = "fail"
			}
		default: // open, opendir, stat, wstat, clunk, remove
			if l.Out == "fail" && call != "opendir" || l.Out == "fail" && l.Op == "open" {
				e.Out = "fail"
			}
		}
		return e
	}
	x.server = p9p.SFileSys(x.fs)
	x.spy = &spySession{Session: x.server}
	x.spy.lose = func() bool { return x.cur.Out == "lost" }
	x.client = p9p.CFileSys(x.spy)
	return x
}

func (x *cfsExec) viol(sig, d string) {
	x.res.Violate("C20", sig, fmt.Sprintf("%s [after %d steps; last %s]", d, len(x.hist), hx.JS(x.hist[len(x.hist)-1])),
		map[string]interface{}{"engine": "cfs", "history": x.hist})
}

func (x *cfsExec) Step(label, from, to json.RawMessage) bool {
	var l cfsLabel
	if err := json.Unmarshal(label, &l); err != nil {
		x.res.Violate("harness", "harness:cfs-label", err.Error(), nil)
		return false
	}
	if l.Names == nil {
		l.Names = []string{}
	}
	if l.Call.Names == nil {
		l.Call.Names = []string{}
	}
	x.hist = append(x.hist, l)
	x.cur = l
	x.spy.log = nil
	ctx := context.Background()
	var err error
	var newEnt p9p.Dirent
	namesChanged := ""
	ent := x.ents[l.E]
	if l.Op != "attach" && ent == nil {
		x.res.Violate("harness", "harness:cfs-noent", fmt.Sprintf("no entry for fid %d", l.E), nil)
		return false
	}
	okc, dump := hx.RunTimed(hxTimeout, func() {
		switch l.Op {
		case "attach":
			newEnt, err = x.client.Attach(ctx, "u", "/", nil)
		case "walk":
			names := append([]string{}, l.Names...)
			_, newEnt, err = ent.Walk(ctx, names...)
			if !reflect.DeepEqual(names, l.Names) {
				namesChanged = fmt.Sprintf("%q -> %q", l.Names, names)
			}
		case "stat":
			_, err = ent.Stat(ctx)
		case "wstat":
			err = ent.WStat(ctx, p9p.Dir{})
		case "open":
			_, err = ent.Open(ctx, p9p.OREAD)
		case "clunk":
			err = ent.Clunk(ctx)
		case "remove":
			err = ent.Remove(ctx)
		case "create":
			perm := uint32(0644)
			if l.Dir {
				perm = p9p.DMDIR | 0755
			}
			newEnt, _, err = ent.Create(ctx, l.Name, perm, p9p.ORDWR)
		}
	})
	if !okc {
		x.viol("client-call-hang-or-panic:"+l.Op, hx.Trunc(dump, 1200))
		return false
	}
	good := true
	if namesChanged != "" {
		// the name list belongs to the caller (who may walk the same path again from another entry)
		x.viol("walk-modifies-names", "Walk rewrote its caller's name list: "+namesChanged)
		good = false
	}
	// 1. the session call issued
	want := []spyCall{}
	if l.Call.M != "none" {
		want = append(want, l.Call)
	}
	got := x.spy.log
	if got == nil {
		got = []spyCall{}
	}
	if !x.sameCalls(got, want) {
		x.viol("session-call:"+l.Op, fmt.Sprintf("client layer issued %s, the model expects %s (fid numbers up to renaming: model->real %v)", hx.JS(got), hx.JS(want), x.m2r))
		good = false
	}
	// 2. reported outcome
	if (err == nil) != l.OK {
		if l.OK {
			x.viol("reported-failure:"+l.Op, fmt.Sprintf("%s reported failure (%v) although the server completed it", l.Op, err))
		} else {
			x.viol("reported-success:"+l.Op, fmt.Sprintf("%s reported success although it must fail (%s)", l.Op, l.Out))
		}
		good = false
	}
	// 3. entries
	switch l.Op {
	case "attach", "walk":
		if l.OK && err == nil {
			x.ents[l.Call.NF] = newEnt
			if l.Op == "attach" {
				x.ents[l.Call.Fid] = newEnt
				delete(x.ents, l.Call.NF)
			}
		}
	case "create":
		if l.OK && err == nil {
			x.ents[l.E] = newEnt
		}
	case "clunk", "remove":
		if l.Out != "lost" {
			delete(x.ents, l.E)
		}
	}
	if !good {
		return false
	}
	return x.checkServer(to, l, newEnt, err)
}

// sameCalls compares the session calls issued with the expected ones up to the choice of new fid numbers: a fid
// the model allocates in this step may be any number that no live entry uses (and not NOFID).
func (x *cfsExec) sameCalls(got, want []spyCall) bool {
	if len(got) != len(want) {
		return false
	}
	for i := range got {
		g, w := got[i], want[i]
		if g.M != w.M || g.Name != w.Name || !reflect.DeepEqual(g.Names, w.Names) {
			return false
		}
		newModel, newReal := -1, -1
		switch w.M {
		case "attach":
			newModel, newReal = w.Fid, g.Fid
			if g.NF != w.NF {
				return false
			}
		case "walk":
			newModel, newReal = w.NF, g.NF
			if g.Fid != x.real(w.Fid) {
				return false
			}
		default:
			if g.Fid != x.real(w.Fid) || g.NF != w.NF {
				return false
			}
		}
		if newModel >= 0 {
			if newReal == 99 {
				return false
			}
			for mf := range x.ents { // live entries
				if x.real(mf) == newReal && mf != newModel {
					return false
				}
			}
			x.m2r[newModel] = newReal
		}
	}
	return true
}

// checkServer probes the real server session directly and compares with the model's bound set.
func (x *cfsExec) checkServer(to json.RawMessage, l cfsLabel, newEnt p9p.Dirent, opErr error) bool {
	var parts []json.RawMessage
	var sb []int
	if err := json.Unmarshal(to, &parts); err != nil || len(parts) != 3 || json.Unmarshal(parts[2], &sb) != nil {
		x.res.Violate("harness", "harness:cfs-state", string(to), nil)
		return false
	}
	bound := map[int]bool{}
	for _, f := range sb {
		bound[f] = true
	}
	ctx := context.Background()
	good := true
	for f := 1; f <= x.maxFid; f++ {
		x.cur = cfsLabel{Out: "ok"}
		if !bound[f] {
			// nothing may be bound under a number that no bound model fid maps to
			taken := false
			for g := range bound {
				if bound[g] && x.real(g) == x.real(f) {
					taken = true
				}
			}
			if taken {
				continue
			}
		}
		d, err := x.server.Stat(ctx, p9p.Fid(x.real(f)))
		if (err == nil) != bound[f] {
			if err == nil {
				x.viol("fid-leaked", fmt.Sprintf("fid %d is bound on the server but the model has it unbound (no live entry owns it)", f))
			} else {
				x.viol("fid-missing", fmt.Sprintf("fid %d is not bound on the server (%v) but a live entry owns it", f, err))
			}
			good = false
			continue
		}
		// the entry returned for a completed walk / attach / create denotes the walked-to file
		if err == nil && l.OK && opErr == nil && newEnt != nil &&
			((l.Op == "walk" && f == l.Call.NF && len(l.Call.Names) > 0) || (l.Op == "attach" && f == l.Call.Fid) || (l.Op == "create" && f == l.E)) {
			if newEnt.Qid() != d.Qid {
				x.viol("entry-qid:"+l.Op, fmt.Sprintf("the entry returned by %s has qid %v, the file bound to its fid %d has %v", l.Op, newEnt.Qid(), f, d.Qid))
				good = false
			}
		}
	}
	return good
}

func (x *cfsExec) Finish(state json.RawMessage) {
	// the caller gives up every entry it holds: afterwards the server must hold no fid
	ctx := context.Background()
	for f, e := range x.ents {
		x.cur = cfsLabel{Out: "ok"}
		e.Clunk(ctx)
		delete(x.ents, f)
	}
	for f := 0; f <= x.maxFid+3; f++ {
		x.cur = cfsLabel{Out: "ok"}
		if _, err := x.server.Stat(ctx, p9p.Fid(f)); err == nil {
			x.hist = append(x.hist, cfsLabel{Op: "clunk-all"})
			x.viol("fid-leaked-at-end", fmt.Sprintf("after every entry was clunked the server still holds fid %d", f))
			return
		}
	}
}

func Cfs(args []string) {
	fl := flag.NewFlagSet("cfs", flag.ExitOnError)
	ltsPath := fl.String("lts", "", "LTS ndjson")
	out := fl.String("out", "", "result file")
	nrand := fl.Int("random", 300, "random walks")
	depth := fl.Int("depth", 25, "depth of random walks")
	maxFid := fl.Int("maxfid", 5, "fids to probe")
	fl.Parse(args)
	res := hx.NewResult()
	defer res.Write(*out)
	l, err := LoadLTS(*ltsPath)
	if err != nil {
		res.Set("error", err.Error())
		return
	}
	var mu sync.Mutex
	first := 0
	st := RunLTS(l, func() Exec {
		x := newCfsExec(res, *maxFid)
		mu.Lock()
		first++
		mu.Unlock()
		return x
	}, LTSOpts{Cover: true, NRandom: *nrand, Depth: *depth}, res)
	res.Evaluations = st.Steps
	res.Distinct = st.EdgesCovered
	res.Set("histories", st.Histories)
	res.Set("lts_states", len(l.States))
	res.Set("lts_edges", len(l.From))
	if len(l.Label) > 3 {
		for _, i := range []int{0, len(l.Label) / 2, len(l.Label) - 1} {
			var v interface{}
			json.Unmarshal(l.Label[i], &v)
			res.Sample(v)
		}
	}
}
