package engines

// Engine "chan", write side (C02): real p9p.NewChannel(captureConn, msize).WriteFcall
// against the outcomes TLC computed with ChanWrite!WOut (specs/chan/ChanVectors.tla).

import (
	"bytes"
	"context"
	"encoding/binary"
	"encoding/json"
	"flag"
	"fmt"
	"net"
	"os"
	"time"

	p9p "github.com/frobnitzem/go-p9p"
	"verif/harness/hx"
)

// captureConn records what is written; reads block forever (never used).
type captureConn struct {
	buf    bytes.Buffer
	writes int
}

func (c *captureConn) Read(p []byte) (int, error)         { select {} }
func (c *captureConn) Write(p []byte) (int, error)        { c.writes++; return c.buf.Write(p) }
func (c *captureConn) Close() error                       { return nil }
func (c *captureConn) LocalAddr() net.Addr                { return nil }
func (c *captureConn) RemoteAddr() net.Addr               { return nil }
func (c *captureConn) SetDeadline(t time.Time) error      { return nil }
func (c *captureConn) SetReadDeadline(t time.Time) error  { return nil }
func (c *captureConn) SetWriteDeadline(t time.Time) error { return nil }

type cwVec struct {
	Kind string
	Tag  []byte
	F    map[string]interface{}
}

type cwCount struct {
	Big bool `json:"big"`
	V   int  `json:"v"`
}

type cwTuple struct {
	I     int     `json:"i"`
	Cls   string  `json:"cls"`
	S     int     `json:"S"`
	Dlen  int     `json:"dlen"`
	Count cwCount `json:"count"`
}

type cwOutcome struct {
	I     int  `json:"i"`
	Msize int  `json:"msize"`
	Live  bool `json:"live"`
	O     struct {
		Emit  bool    `json:"emit"`
		Total int     `json:"total"`
		Dlen  int     `json:"dlen"`
		Count cwCount `json:"count"`
		Over  int     `json:"over"`
		Ctx   bool    `json:"ctx"`
	} `json:"o"`
}

func le32(v uint32) []byte { b := make([]byte, 4); binary.LittleEndian.PutUint32(b, v); return b }
func le64(v uint64) []byte { b := make([]byte, 8); binary.LittleEndian.PutUint64(b, v); return b }

// loadMsgVectors reads the msg vectors of WireVectors and appends deterministic synthetic ones
// (write sizes and read counts the enumeration does not contain).
func loadMsgVectors(path string) (*wLayout, []cwVec, error) {
	var lay wLayout
	var out []cwVec
	err := hx.ReadNDJSON(path, func(b []byte) error {
		var v wVector
		if err := json.Unmarshal(b, &v); err != nil {
			return err
		}
		switch v.T {
		case "layout":
			return json.Unmarshal(b, &lay)
		case "msg":
			v.F = map[string]json.RawMessage{}
			if len(v.FRaw) > 0 && v.FRaw[0] == '{' {
				if err := json.Unmarshal(v.FRaw, &v.F); err != nil {
					return err
				}
			}
			f := map[string]interface{}{}
			for _, fd := range lay.Layout[v.Kind] {
				val, err := decodeVal(fd.Type, v.F[fd.Name], &lay)
				if err != nil {
					return err
				}
				f[fd.Name] = val
			}
			out = append(out, cwVec{v.Kind, ints2bytes(v.Tag), f})
		}
		return nil
	})
	if err != nil || lay.Layout == nil {
		return nil, nil, fmt.Errorf("cannot load vectors: %v", err)
	}
	pat := func(n int) []byte {
		b := make([]byte, n)
		for i := range b {
			b[i] = byte(i*7 + 3)
		}
		return b
	}
	for _, n := range []int{0, 1, 2, 5, 16, 17, 18, 40, 41, 100, 1000, 65513, 65536, 1 << 20} {
		out = append(out, cwVec{"Twrite", []byte{9, 0}, map[string]interface{}{"fid": le32(7), "offset": le64(1 << 40), "data": pat(n)}})
		out = append(out, cwVec{"Rread", []byte{9, 0}, map[string]interface{}{"data": pat(n)}})
	}
	// strings at and beyond what a 16-bit length can announce: whatever the codec does with them, the frame
	// accounting must stay right (nothing longer than msize leaves, prefix == bytes written)
	for _, n := range []int{65535, 65536, 70000} {
		out = append(out, cwVec{"Rerror", []byte{3, 0}, map[string]interface{}{"ename": pat(n)}})
		out = append(out, cwVec{"Tattach", []byte{3, 0}, map[string]interface{}{"fid": le32(1), "afid": le32(2), "uname": pat(n), "aname": pat(3)}})
	}
	for _, c := range []uint32{0, 1, 12, 13, 14, 20, 29, 30, 31, 52, 53, 60, 4085, 65524, 65525, 65526, 65536, 1<<20 - 11, 1 << 20, 1<<31 - 1, 1 << 31, 1<<32 - 2, 1<<32 - 1} {
		out = append(out, cwVec{"Tread", []byte{4, 0}, map[string]interface{}{"fid": le32(3), "offset": le64(0xFFFFFFFFFFFFFFFF), "count": le32(c)}})
	}
	return &lay, out, nil
}

func tupleOf(i int, v cwVec, lay *wLayout) cwTuple {
	S := len(refEncode(v.Kind, v.Tag, v.F, lay)) + 4
	t := cwTuple{I: i, Cls: "other", S: S}
	switch v.Kind {
	case "Twrite":
		t.Cls, t.Dlen = "Twrite", len(v.F["data"].([]byte))
	case "Tread":
		c := le(v.F["count"].([]byte))
		t.Cls = "Tread"
		if c >= 1<<31 {
			t.Count = cwCount{Big: true}
		} else {
			t.Count = cwCount{V: int(c)}
		}
	}
	return t
}

func ChanW(args []string) {
	fl := flag.NewFlagSet("chanw", flag.ExitOnError)
	vecPath := fl.String("vectors", "", "ndjson from WireVectors.tla")
	outcomes := fl.String("outcomes", "", "ndjson from ChanVectors.tla ('' = only emit tuples)")
	tuplesOut := fl.String("tuples", "", "where to write the tuples for TLC")
	out := fl.String("out", "", "result file")
	fl.Parse(args)
	res := hx.NewResult()
	defer res.Write(*out)
	lay, vecs, err := loadMsgVectors(*vecPath)
	if err != nil {
		res.Set("error", err.Error())
		return
	}
	if *outcomes == "" {
		f, err := os.Create(*tuplesOut)
		if err != nil {
			res.Set("error", err.Error())
			return
		}
		enc := json.NewEncoder(f)
		for i, v := range vecs {
			enc.Encode(tupleOf(i, v, lay))
		}
		f.Close()
		res.Evaluations = len(vecs)
		res.Distinct = len(vecs)
		return
	}
	type chanState struct {
		conn *captureConn
		ch   p9p.Channel
	}
	chans := map[int]*chanState{}
	distinct := map[string]bool{}
	err = hx.ReadNDJSON(*outcomes, func(b []byte) error {
		var o cwOutcome
		if err := json.Unmarshal(b, &o); err != nil {
			return err
		}
		if res.NViol() > 40 {
			return nil
		}
		v := vecs[o.I]
		// fresh copy of the field values: the caller's buffers must never be modified
		f := map[string]interface{}{}
		for k, val := range v.F {
			if bs, ok := val.([]byte); ok {
				f[k] = append([]byte{}, bs...)
			} else {
				f[k] = val
			}
		}
		msg, err := mkMessage(v.Kind, f)
		if err != nil {
			return err
		}
		fc := &p9p.Fcall{Type: msg.Type(), Tag: p9p.Tag(le(v.Tag)), Message: msg}
		cs := chans[o.Msize]
		if cs == nil {
			cs = &chanState{conn: &captureConn{}}
			// half of the channels start at the default size and are resized, as negotiation does
			switch o.Msize % 4 {
			case 0, 2:
				cs.ch = p9p.NewChannel(cs.conn, o.Msize)
			case 1:
				cs.ch = p9p.NewChannel(cs.conn, p9p.DefaultMSize)
				cs.ch.SetMSize(o.Msize)
			default:
				// ... and some have already carried traffic at another size before they are resized (renegotiation):
				// the outcome of a write depends on the msize in force, not on what went through the channel before
				first := p9p.DefaultMSize
				if o.Msize > 4096 {
					first = 64
				}
				cs.ch = p9p.NewChannel(cs.conn, first)
				cs.ch.WriteFcall(context.Background(), &p9p.Fcall{Type: p9p.Twrite, Tag: 9, Message: p9p.MessageTwrite{Fid: 1, Data: make([]byte, 30)}})
				cs.ch.WriteFcall(context.Background(), &p9p.Fcall{Type: p9p.Tread, Tag: 9, Message: p9p.MessageTread{Fid: 1, Count: 1 << 20}})
				cs.ch.SetMSize(o.Msize)
			}
			if len(chans) > 64 {
				for k := range chans {
					delete(chans, k)
					break
				}
			}
			chans[o.Msize] = cs
		}
		cs.conn.buf.Reset()
		ctx, cancel := context.WithCancel(context.Background())
		if !o.Live {
			cancel()
		}
		var werr error
		okc, dump := hx.RunTimed(20*time.Second, func() { werr = cs.ch.WriteFcall(ctx, fc) })
		cancel()
		res.Evaluations++
		got := append([]byte{}, cs.conn.buf.Bytes()...)
		rep := func() interface{} {
			return map[string]interface{}{"engine": "chanw", "kind": v.Kind, "frame_size": tupleOf(o.I, v, lay).S, "msize": o.Msize, "ctx_live": o.Live,
				"message": hx.Trunc(fmt.Sprintf("%+v", msg), 300), "expected": o.O, "got_bytes": len(got), "err": fmt.Sprint(werr)}
		}
		sig := func(s string) string { return s + ":" + tupleOf(o.I, v, lay).Cls }
		if !okc {
			res.Violate("C02", sig("write-panic-or-hang"), hx.Trunc(dump, 800), rep())
			delete(chans, o.Msize)
			return nil
		}
		key := fmt.Sprintf("%s/%d/%v/%v/%d", v.Kind, tupleOf(o.I, v, lay).S-o.Msize, o.Live, o.O.Emit, o.O.Over)
		distinct[key] = true
		// the caller's data is untouched
		for k, val := range v.F {
			if bs, ok := val.([]byte); ok && !bytes.Equal(bs, f[k].([]byte)) {
				res.Violate("C02", sig("caller-buffer-modified"), fmt.Sprintf("field %s of the caller's message was modified by WriteFcall", k), rep())
			}
		}
		switch {
		case o.O.Ctx:
			if werr == nil || len(got) != 0 {
				res.Violate("C02", sig("cancelled-ctx-wrote"), fmt.Sprintf("cancelled context: %d bytes written, err=%v", len(got), werr), rep())
			}
		case !o.O.Emit:
			if len(got) != 0 {
				res.Violate("C02", sig("partial-write-on-error"), fmt.Sprintf("message too long by %d: %d bytes were written nevertheless (err=%v)", o.O.Over, len(got), werr), rep())
			} else if werr == nil {
				res.Violate("C02", sig("silent-drop"), fmt.Sprintf("message too long by %d: nothing written and no error", o.O.Over), rep())
			} else if p9p.Overflow(werr) != o.O.Over {
				res.Violate("C02", sig("wrong-excess"), fmt.Sprintf("message too long by %d, error reports %d (%v)", o.O.Over, p9p.Overflow(werr), werr), rep())
			}
		default:
			// expected frame: the message (with shortened data / lowered count) in the spec's layout
			ef := map[string]interface{}{}
			for k, val := range v.F {
				ef[k] = val
			}
			if v.Kind == "Twrite" {
				ef["data"] = v.F["data"].([]byte)[:o.O.Dlen]
			}
			if v.Kind == "Tread" {
				ef["count"] = le32(uint32(o.O.Count.V))
			}
			body := refEncode(v.Kind, v.Tag, ef, lay)
			want := append(le32(uint32(len(body)+4)), body...)
			if len(want) != o.O.Total {
				res.Violate("harness", "harness:chanw-total", fmt.Sprintf("expected frame has %d bytes, spec says %d", len(want), o.O.Total), rep())
				return nil
			}
			switch {
			case werr != nil && len(got) == 0:
				res.Violate("C02", sig("refused-fitting-message"), fmt.Sprintf("a message that fits (frame %d <= msize %d) was refused: %v", o.O.Total, o.Msize, werr), rep())
			case len(got) > o.Msize:
				res.Violate("C02", sig("frame-exceeds-msize"), fmt.Sprintf("%d bytes written with msize %d", len(got), o.Msize), rep())
			case !bytes.Equal(got, want):
				pl := uint32(0)
				if len(got) >= 4 {
					pl = binary.LittleEndian.Uint32(got)
				}
				res.Violate("C02", sig("wrong-frame"), fmt.Sprintf("written frame (%d bytes, prefix %d) differs from the expected one (%d bytes)", len(got), pl, len(want)), rep())
			case werr != nil:
				res.Violate("C02", sig("error-after-write"), fmt.Sprintf("frame written but error returned: %v", werr), rep())
			}
		}
		if res.Evaluations%9973 == 0 {
			res.Sample(rep())
		}
		return nil
	})
	if err != nil {
		res.Set("error", err.Error())
	}
	res.Distinct = len(distinct)
	res.Set("vectors", len(vecs))
}
