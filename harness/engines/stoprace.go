package engines

// Engine "stoprace" (C11, fid clause): the schedule of specs/server/StopRace.tla
// on the real stack ServeConn(SSession(SFileSys(scriptedFS))): one request is
// parked inside a FileSys call when a fault ends serving; the FileSys call
// returns once its context is cancelled (after a short delay, so that an early
// Stop gets ahead of it, as in the model's as-is counterexample).  After
// ServeConn and every FileSys call have returned, every entry the file system
// handed out must have been released exactly once and never while in use.

import (
	"context"
	"flag"
	"fmt"
	"strings"
	"sync"
	"time"

	p9p "github.com/frobnitzem/go-p9p"
	"verif/harness/gconn"
	"verif/harness/hx"
	"verif/harness/sfs"
)

type stopRaceCase struct {
	Op    string `json:"op"`    // attach | clone | walk | create | open | stat
	Fault string `json:"fault"` // close | ctx | readerr
	Delay int    `json:"delay_ms"`
	Burst bool   `json:"burst"` // do not wait for the handler to be inside the FileSys call
}

func runStopRace(c stopRaceCase, res *hx.Result) {
	fs := sfs.New()
	var mu sync.Mutex
	parked := make(chan struct{}, 1)
	inFS := map[*sfs.Handle]int{}
	var releasedInUse []string
	park := map[string]string{"attach": "attach", "clone": "walk", "walk": "walk", "create": "create", "open": "opendir", "stat": "stat",
		"mkdir": "opendir", "mkdir-openfails": "opendir", "mkdir-openfails-queued": "opendir", "stat-queued-clunkfails": "stat",
		"attach-flushed": "attach", "walk-flushed": "walk", "create-flushed": "create", "stat-manyfids-clunkfails": "stat"}[c.Op]
	armed := false
	fs.Decide = func(call string, h *sfs.Handle) sfs.Expect {
		if call == "clunk" && (c.Op == "stat-queued-clunkfails" || c.Op == "stat-manyfids-clunkfails") {
			return sfs.Expect{Call: call, Out: "fail"}
		}
		if call == "opendir" && strings.HasPrefix(c.Op, "mkdir-openfails") {
			// the session's own OpenDir of the directory it has just created fails (it was cancelled)
			return sfs.Expect{Call: call, Out: "fail"}
		}
		return sfs.Expect{Call: call, Out: "ok", K: 1, Dir: call != "create" || strings.HasPrefix(c.Op, "mkdir")}
	}
	fs.Gate = func(ctx context.Context, enter bool, call string, h *sfs.Handle) {
		mu.Lock()
		if h != nil {
			if enter {
				if (call == "clunk" || call == "remove") && inFS[h] > 0 {
					releasedInUse = append(releasedInUse, fmt.Sprintf("%s of entry#%d while a FileSys call on it is in progress", call, h.ID))
				}
				inFS[h]++
			} else {
				inFS[h]--
			}
		}
		doPark := enter && armed && call == park
		if doPark {
			armed = false
		}
		mu.Unlock()
		if doPark {
			parked <- struct{}{}
			<-ctx.Done() // the handler returns once cancelled ...
			time.Sleep(time.Duration(c.Delay) * time.Millisecond)
		}
	}
	cli, srv := gconn.Pair(0)
	ctx, cancel := context.WithCancel(context.Background())
	defer cancel()
	serveDone := make(chan struct{})
	go func() {
		p9p.ServeConn(ctx, srv, p9p.SSession(p9p.SFileSys(fs)))
		close(serveDone)
	}()
	ch := p9p.NewChannel(cli, p9p.DefaultMSize)
	bg := context.Background()
	rt := func(tag p9p.Tag, m p9p.Message) (*p9p.Fcall, error) {
		if err := ch.WriteFcall(bg, &p9p.Fcall{Type: m.Type(), Tag: tag, Message: m}); err != nil {
			return nil, err
		}
		r := new(p9p.Fcall)
		err := ch.ReadFcall(bg, r)
		return r, err
	}
	fail := func(what string, err error) {
		res.Violate("harness", "harness:stoprace:"+what, fmt.Sprint(err), c)
	}
	if r, err := rt(p9p.NOTAG, p9p.MessageTversion{MSize: p9p.DefaultMSize, Version: "9P2000"}); err != nil || r.Type != p9p.Rversion {
		fail("version", err)
		return
	}
	if c.Op != "attach" && c.Op != "attach-flushed" {
		if r, err := rt(1, p9p.MessageTattach{Fid: 0, Afid: p9p.NOFID, Uname: "u", Aname: "/"}); err != nil || r.Type != p9p.Rattach {
			fail("attach", fmt.Errorf("%v %v", err, r))
			return
		}
	}
	if c.Op == "stat-manyfids-clunkfails" {
		// several fids are bound when serving ends, and every release Stop makes reports an error
		for nf := p9p.Fid(10); nf < 14; nf++ {
			if r, err := rt(1, p9p.MessageTwalk{Fid: 0, Newfid: nf}); err != nil || r.Type != p9p.Rwalk {
				fail("clone", fmt.Errorf("%v %v", err, r))
				return
			}
		}
	}
	var m p9p.Message
	switch c.Op {
	case "attach", "attach-flushed":
		m = p9p.MessageTattach{Fid: 0, Afid: p9p.NOFID, Uname: "u", Aname: "/"}
	case "walk-flushed":
		m = p9p.MessageTwalk{Fid: 0, Newfid: 1, Wnames: []string{"a"}}
	case "create-flushed":
		m = p9p.MessageTcreate{Fid: 0, Name: "f", Perm: 0644, Mode: p9p.ORDWR}
	case "stat-manyfids-clunkfails":
		m = p9p.MessageTstat{Fid: 0}
	case "clone":
		m = p9p.MessageTwalk{Fid: 0, Newfid: 1}
	case "walk":
		m = p9p.MessageTwalk{Fid: 0, Newfid: 1, Wnames: []string{"a"}}
	case "create":
		m = p9p.MessageTcreate{Fid: 0, Name: "f", Perm: 0644, Mode: p9p.ORDWR}
	case "stat-queued-clunkfails":
		m = p9p.MessageTstat{Fid: 0}
	case "mkdir", "mkdir-openfails", "mkdir-openfails-queued":
		m = p9p.MessageTcreate{Fid: 0, Name: "d", Perm: p9p.DMDIR | 0755, Mode: p9p.OREAD}
	case "open":
		m = p9p.MessageTopen{Fid: 0, Mode: p9p.OREAD}
	case "stat":
		m = p9p.MessageTstat{Fid: 0}
	}
	mu.Lock()
	armed = !c.Burst
	mu.Unlock()
	if err := ch.WriteFcall(bg, &p9p.Fcall{Type: m.Type(), Tag: 2, Message: m}); err != nil {
		fail("send", err)
		return
	}
	if !c.Burst { // burst: the fault strikes right behind the request, before its handler may have started
		select {
		case <-parked:
		case <-time.After(3 * time.Second):
			fail("park", fmt.Errorf("the FileSys call %s was never made", park))
			return
		}
	}
	if strings.HasSuffix(c.Op, "-queued") || c.Op == "stat-queued-clunkfails" {
		// further requests on the same fid queue on its lock behind the parked one: a clunk, then a stat
		ch.WriteFcall(bg, &p9p.Fcall{Type: p9p.Tclunk, Tag: 3, Message: p9p.MessageTclunk{Fid: 0}})
		time.Sleep(3 * time.Millisecond)
		ch.WriteFcall(bg, &p9p.Fcall{Type: p9p.Tstat, Tag: 4, Message: p9p.MessageTstat{Fid: 0}})
		time.Sleep(5 * time.Millisecond)
	}
	if strings.HasSuffix(c.Op, "-flushed") {
		// the request is flushed and the flush acknowledged while its handler is still unwinding (it returns Delay ms
		// after its cancellation); then serving ends: Stop must still wait for that handler
		if r, err := rt(5, p9p.MessageTflush{Oldtag: 2}); err != nil || r.Type != p9p.Rflush {
			fail("flush", fmt.Errorf("%v %v", err, r))
			return
		}
	}
	switch c.Fault {
	case "close":
		cli.Close()
	case "ctx":
		cancel()
	case "readerr":
		cli.FailPeerReadNow(gconn.ErrInjected)
	}
	select {
	case <-serveDone:
	case <-time.After(5 * time.Second):
		gs := hx.GoroutinesWith(hx.Dump(), "p9p.ServeConn")
		d := "ServeConn did not return within 5s of the fault although the in-flight FileSys call returns once cancelled"
		if len(gs) > 0 {
			d += "\n" + hx.Trunc(gs[0], 1500)
		}
		res.Violate("C11", "stoprace-hang:"+c.Op+":"+c.Fault, d, c)
		return
	}
	cli.Close()
	// wait until every FileSys call has returned (handlers return once cancelled)
	deadline := time.Now().Add(3 * time.Second)
	for {
		mu.Lock()
		busy := 0
		for _, n := range inFS {
			busy += n
		}
		mu.Unlock()
		if busy == 0 || time.Now().After(deadline) {
			break
		}
		time.Sleep(2 * time.Millisecond)
	}
	time.Sleep(time.Duration(c.Delay+10) * time.Millisecond) // let the handler finish binding after its FileSys call
	mu.Lock()
	defer mu.Unlock()
	sig := c.Op + ":" + c.Fault
	for _, h := range fs.All {
		if h.Placeholder {
			continue
		}
		if h.Released() != 1 {
			res.Violate("C11", "stoprace-release:"+sig, fmt.Sprintf(
				"after Stop and after every in-flight handler returned, entry#%d (dir=%v) has been released %d times (clunk %d, remove %d, consumed %d); expected exactly once",
				h.ID, h.IsDir, h.Released(), h.Clunks, h.Removes, h.Consumed), c)
		}
		if len(h.UsedAfterRelease) > 0 {
			res.Violate("C11", "stoprace-use-after-release:"+sig, fmt.Sprintf("entry#%d used after release: %v", h.ID, h.UsedAfterRelease), c)
		}
	}
	for _, s := range releasedInUse {
		res.Violate("C11", "stoprace-released-in-use:"+sig, "Stop ran while a handler was still inside the session: "+s, c)
	}
}

func StopRace(args []string) {
	fl := flag.NewFlagSet("stoprace", flag.ExitOnError)
	out := fl.String("out", "", "result file")
	reps := fl.Int("reps", 2, "repetitions per case")
	fl.Parse(args)
	res := hx.NewResult()
	defer res.Write(*out)
	var cases []stopRaceCase
	for _, op := range []string{"attach", "clone", "walk", "create", "open", "stat", "mkdir", "mkdir-openfails", "mkdir-openfails-queued", "stat-queued-clunkfails",
		"attach-flushed", "walk-flushed", "create-flushed", "stat-manyfids-clunkfails"} {
		for _, f := range []string{"close", "ctx", "readerr"} {
			for _, d := range []int{0, 15} {
				cases = append(cases, stopRaceCase{op, f, d, false})
			}
		}
	}
	burst := []stopRaceCase{}
	for _, op := range []string{"attach", "clone", "walk", "create"} {
		for _, f := range []string{"close", "ctx"} {
			burst = append(burst, stopRaceCase{op, f, 0, true})
		}
	}
	var wg sync.WaitGroup
	for _, c := range cases {
		for k := 0; k < *reps; k++ {
			wg.Add(1)
			go func(c stopRaceCase) {
				defer wg.Done()
				runStopRace(c, res)
			}(c)
		}
	}
	wg.Wait()
	// burst cases: many repetitions, few at a time (the window is the start of the handler goroutine)
	sem := make(chan struct{}, 4)
	for k := 0; k < 40**reps && res.NViol() < 10; k++ {
		for _, c := range burst {
			wg.Add(1)
			sem <- struct{}{}
			go func(c stopRaceCase) {
				defer wg.Done()
				defer func() { <-sem }()
				runStopRace(c, res)
			}(c)
		}
	}
	wg.Wait()
	res.Evaluations = len(cases)**reps + 40**reps*len(burst)
	res.Distinct = len(cases)
	res.Sample(cases[0])
	res.Sample(cases[len(cases)-1])
}
