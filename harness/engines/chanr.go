package engines

// Engine "chanr" (C03): frame sequences enumerated by TLC (specs/chan/ChanReadSeqs.tla)
// are concretised relative to msize, fed through a scripted connection that returns
// exactly the prescribed chunks, and read with the real Channel.ReadFcall.

import (
	"context"
	"encoding/json"
	"flag"
	"fmt"
	"io"
	"net"
	"strings"
	"time"

	p9p "github.com/frobnitzem/go-p9p"
	"verif/harness/hx"
)

type crSeq struct {
	Frames []string `json:"frames"`
	Expect []struct {
		K    string `json:"k"`
		Over int    `json:"over"`
	} `json:"expect"`
}

// chunkConn returns the stream in prescribed chunk sizes, then EOF.
type chunkConn struct {
	data  []byte
	pos   int
	chunk func(remaining int) int
}

func (c *chunkConn) Read(p []byte) (int, error) {
	if c.pos >= len(c.data) {
		return 0, io.EOF
	}
	n := len(p)
	if rem := len(c.data) - c.pos; n > rem {
		n = rem
	}
	if k := c.chunk(len(c.data) - c.pos); k > 0 && k < n {
		n = k
	}
	copy(p, c.data[c.pos:c.pos+n])
	c.pos += n
	return n, nil
}
func (c *chunkConn) Write(p []byte) (int, error)        { return len(p), nil }
func (c *chunkConn) Close() error                       { return nil }
func (c *chunkConn) LocalAddr() net.Addr                { return nil }
func (c *chunkConn) RemoteAddr() net.Addr               { return nil }
func (c *chunkConn) SetDeadline(t time.Time) error      { return nil }
func (c *chunkConn) SetReadDeadline(t time.Time) error  { return nil }
func (c *chunkConn) SetWriteDeadline(t time.Time) error { return nil }

type crFrame struct {
	bytes []byte
	msg   *p9p.Fcall // expected message for class msg
	desc  string
}

func frameOf(body []byte) []byte { return append(le32(uint32(len(body)+4)), body...) }

func ChanR(args []string) {
	fl := flag.NewFlagSet("chanr", flag.ExitOnError)
	vecPath := fl.String("vectors", "", "ndjson from WireVectors.tla")
	seqPath := fl.String("seqs", "", "ndjson from ChanReadSeqs.tla")
	out := fl.String("out", "", "result file")
	stride := fl.Int("stride", 1, "use every n-th sequence per (msize, chunking) combination")
	fl.Parse(args)
	res := hx.NewResult()
	defer res.Write(*out)
	lay, vecs, err := loadMsgVectors(*vecPath)
	if err != nil {
		res.Set("error", err.Error())
		return
	}
	type enc struct {
		body []byte
		fc   *p9p.Fcall
		kind string
	}
	var valid []enc
	for _, v := range vecs {
		body := refEncode(v.Kind, v.Tag, v.F, lay)
		msg, _ := mkMessage(v.Kind, v.F)
		if v.Kind == "Tread" {
			continue
		}
		valid = append(valid, enc{body, &p9p.Fcall{Type: msg.Type(), Tag: p9p.Tag(le(v.Tag)), Message: msg}, v.Kind})
	}
	var seqs []crSeq
	if err := hx.ReadNDJSON(*seqPath, func(b []byte) error {
		var s crSeq
		if err := json.Unmarshal(b, &s); err != nil {
			return err
		}
		seqs = append(seqs, s)
		return nil
	}); err != nil {
		res.Set("error", err.Error())
		return
	}
	rng := hx.Rand(31)
	rot := 0
	mk := func(kind string, f map[string]interface{}, tag uint16) enc {
		t := []byte{byte(tag), byte(tag >> 8)}
		m, _ := mkMessage(kind, f)
		return enc{refEncode(kind, t, f, lay), &p9p.Fcall{Type: m.Type(), Tag: p9p.Tag(tag), Message: m}, kind}
	}
	pat := func(n int, seed byte) []byte {
		b := make([]byte, n)
		for i := range b {
			b[i] = byte(i)*3 + seed
		}
		return b
	}
	concretise := func(class string, msize int, k int) crFrame {
		switch class {
		case "valid":
			for tries := 0; tries < len(valid); tries++ {
				rot = (rot + 7) % len(valid)
				if e := valid[rot]; len(e.body)+4 <= msize {
					return crFrame{frameOf(e.body), e.fc, "valid " + e.kind}
				}
			}
		case "tread":
			// count above msize-11 must be lowered on receipt
			c := uint32(msize - 11 + 1 + k*1000)
			if k%2 == 1 {
				c = 0xFFFFFFFF
			}
			e := mk("Tread", map[string]interface{}{"fid": le32(5), "offset": le64(9), "count": le32(c)}, 3)
			m := e.fc.Message.(p9p.MessageTread)
			m.Count = uint32(msize - 11)
			e.fc.Message = m
			return crFrame{frameOf(e.body), e.fc, "tread"}
		case "exact":
			e := mk("Twrite", map[string]interface{}{"fid": le32(6), "offset": le64(77), "data": pat(msize-23, byte(k))}, 0x1234)
			return crFrame{frameOf(e.body), e.fc, "exact"}
		case "over1", "over7", "overbig":
			ov := map[string]int{"over1": 1, "over7": 7, "overbig": 70000}[class]
			e := mk("Rread", map[string]interface{}{"data": pat(msize-11+ov, byte(k))}, 8)
			return crFrame{frameOf(e.body), nil, class}
		case "undec":
			tb := []byte{106, 255, 0, 99, 128}[k%5]
			return crFrame{frameOf(append([]byte{tb, 1, 0}, pat(6, 9)...)), nil, fmt.Sprintf("undecodable type %d", tb)}
		case "badstr":
			// Rerror whose string length points beyond the body
			return crFrame{frameOf([]byte{107, 2, 0, 200, 0, 'a', 'b'}), nil, "string length beyond body"}
		case "short1", "short3":
			s := 1
			if class == "short3" {
				s = 3
			}
			var e enc
			switch k % 3 {
			case 0:
				e = mk("Tclunk", map[string]interface{}{"fid": le32(0xAABBCCDD)}, 2)
			case 1:
				e = mk("Rwrite", map[string]interface{}{"count": le32(0x01020304)}, 2)
			default:
				e = mk("Topen", map[string]interface{}{"fid": le32(0x0A0B0C0D), "mode": []byte{2}}, 2)
			}
			return crFrame{frameOf(e.body[:len(e.body)-s]), nil, fmt.Sprintf("%s body short by %d", e.kind, s)}
		case "p0", "p1", "p2", "p3", "p4":
			return crFrame{le32(uint32(class[1] - '0')), nil, "bare prefix " + class[1:]}
		case "p5", "p6":
			// a complete runt frame: prefix, type byte (and half a tag)
			n := int(class[1] - '0')
			return crFrame{append(le32(uint32(n)), []byte{byte(100 + 2*(k%14)), 7}[:n-4]...), nil, "runt frame, prefix " + class[1:]}
		case "cut":
			e := valid[(rot+3)%len(valid)]
			fr := frameOf(e.body)
			return crFrame{fr[:4+len(e.body)/2], nil, "stream ends inside the frame"}
		}
		return crFrame{frameOf([]byte{120, 0, 0, 1, 0, 0, 0}), nil, "fallback"}
	}
	msizes := []int{64, 257, 8192}
	chunkings := []string{"all", "byte", "split3", "random"}
	distinct := map[string]bool{}
	n := 0
	for _, msize := range msizes {
		for _, chunking := range chunkings {
			for si, s := range seqs {
				if (si+n)%*stride != 0 {
					continue
				}
				if res.NViol() > 30 {
					break
				}
				var stream []byte
				frames := make([]crFrame, len(s.Frames))
				ended := false
				for i, c := range s.Frames {
					frames[i] = concretise(c, msize, si+i)
					if !ended { // nothing arrives after the stream ended inside a frame
						stream = append(stream, frames[i].bytes...)
					}
					ended = ended || c == "cut"
				}
				cc := &chunkConn{data: stream}
				switch chunking {
				case "all":
					cc.chunk = func(int) int { return 0 }
				case "byte":
					cc.chunk = func(int) int { return 1 }
				case "split3":
					cc.chunk = func(int) int { return 3 }
				default:
					cc.chunk = func(int) int { return 1 + rng.Intn(9) }
				}
				var ch p9p.Channel
				if si%2 == 0 {
					ch = p9p.NewChannel(cc, msize)
				} else {
					ch = p9p.NewChannel(cc, p9p.DefaultMSize)
					ch.SetMSize(msize)
				}
				for i := range frames {
					res.Evaluations++
					var fc p9p.Fcall
					var rerr error
					okc, dump := hx.RunTimed(10*time.Second, func() { rerr = ch.ReadFcall(context.Background(), &fc) })
					want := s.Expect[i]
					desc := make([]string, len(frames))
					for j := range frames {
						desc[j] = frames[j].desc
					}
					rep := map[string]interface{}{"engine": "chanr", "msize": msize, "chunking": chunking, "frames": desc, "read": i, "expected": want,
						"stream_hex": fmt.Sprintf("%x", stream[:min(len(stream), 300)]), "err": fmt.Sprint(rerr)}
					sig := want.K + ":" + strings.Fields(frames[i].desc)[0]
					distinct[fmt.Sprint(s.Frames[i], i, want.K, msize, chunking)] = true
					if !okc {
						res.Violate("C03", "read-panic:"+sig, fmt.Sprintf("ReadFcall panics / hangs on frame %d (%s): %s", i, frames[i].desc, hx.Trunc(dump, 700)), rep)
						break
					}
					bad := ""
					switch want.K {
					case "msg":
						if rerr != nil {
							bad = fmt.Sprintf("well-formed frame %d (%s) not delivered: %v", i, frames[i].desc, rerr)
						} else if !fcallEq(&fc, frames[i].msg) {
							bad = fmt.Sprintf("frame %d (%s) delivered as %+v, sent %+v", i, frames[i].desc, hx.Trunc(fmt.Sprint(fc.Message), 200), hx.Trunc(fmt.Sprint(frames[i].msg.Message), 200))
						}
					case "overflow":
						if rerr == nil {
							bad = fmt.Sprintf("frame %d longer than msize by %d was delivered", i, want.Over)
						} else if p9p.Overflow(rerr) != want.Over {
							bad = fmt.Sprintf("frame %d longer than msize by %d: error reports %d (%v)", i, want.Over, p9p.Overflow(rerr), rerr)
						}
					default:
						if rerr == nil {
							bad = fmt.Sprintf("frame %d (%s) must be an error but was delivered as %s", i, frames[i].desc, hx.Trunc(fmt.Sprintf("%v %+v", fc.Type, fc.Message), 200))
						} else if p9p.Overflow(rerr) != 0 {
							bad = fmt.Sprintf("frame %d (%s) reported as overflow of %d", i, frames[i].desc, p9p.Overflow(rerr))
						}
					}
					if bad != "" {
						res.Violate("C03", "read:"+sig, bad, rep)
						break
					}
				}
				n++
				if n%4001 == 0 {
					res.Sample(map[string]interface{}{"msize": msize, "chunking": chunking, "frames": s.Frames, "expect": s.Expect})
				}
			}
		}
	}
	res.Distinct = len(distinct)
	res.Set("sequences", len(seqs))
	res.Set("streams_run", n)
}
