package engines

// Registry maps engine names to entry points.
var Registry = map[string]func(args []string){
	"fid":      Fid,
	"serve":    Serve,
	"stoprace": StopRace,
	"fidconc":  FidConc,
	"cfs":      Cfs,
	"wire":     Wire,
	"chanw":    ChanW,
	"chanr":    ChanR,
	"neg":      Neg,
	"client":   Client,
	"path":     PathEngine,
	"readdir":  ReaddirEngine,
	"ramfs":    RamEngine,
	"ramconc":  RamConc,
	"ufs":      UfsEngine,
	"stack":    Stack,
}
