package engines

// Generic walker over a labelled transition system dumped by TLC
// (one JSON line per transition: [view, label, view']).  Plans edge-cover
// tours from the initial state plus seeded random walks and runs them through
// an executor that replays each label on the real code.

import (
	"encoding/json"
	"fmt"
	"sync"
	"time"

	"verif/harness/hx"
)

const hxTimeout = 4 * time.Second

type LTS struct {
	States []json.RawMessage
	Key    map[string]int
	From   []int
	To     []int
	Label  []json.RawMessage
	Out    [][]int
	Init   int
}

func LoadLTS(path string) (*LTS, error) {
	l := &LTS{Key: map[string]int{}, Init: 0}
	haveInit := false
	state := func(raw json.RawMessage) int {
		// TLC does not print functions in a canonical key order: re-serialise (Go sorts object keys)
		var v interface{}
		if json.Unmarshal(raw, &v) == nil {
			if b, err := json.Marshal(v); err == nil {
				raw = b
			}
		}
		k := string(raw)
		if i, ok := l.Key[k]; ok {
			return i
		}
		l.Key[k] = len(l.States)
		l.States = append(l.States, append(json.RawMessage{}, raw...))
		l.Out = append(l.Out, nil)
		return len(l.States) - 1
	}
	err := hx.ReadNDJSON(path, func(line []byte) error {
		var parts []json.RawMessage
		if err := json.Unmarshal(line, &parts); err != nil || len(parts) < 3 {
			return fmt.Errorf("bad LTS line: %s", hx.Trunc(string(line), 200))
		}
		from, to := state(parts[0]), state(parts[2])
		l.From = append(l.From, from)
		l.To = append(l.To, to)
		l.Label = append(l.Label, append(json.RawMessage{}, parts[1]...))
		l.Out[from] = append(l.Out[from], len(l.From)-1)
		if len(parts) > 3 && string(parts[3]) == "1" { // TLCGet("level") of the source state: 1 = initial state
			l.Init = from
			haveInit = true
		}
		return nil
	})
	if err != nil {
		return nil, err
	}
	if len(l.States) == 0 {
		return nil, fmt.Errorf("empty LTS")
	}
	if !haveInit {
		return nil, fmt.Errorf("LTS has no transition from the initial state (level field missing?)")
	}
	return l, nil
}

// Exec replays one history on the real code.
type Exec interface {
	// Step executes the transition; false aborts the history (a violation was recorded).
	Step(label, from, to json.RawMessage) bool
	// Finish is called after the last step of a history that did not abort.
	Finish(state json.RawMessage)
}

type LTSOpts struct {
	Cover    bool
	NRandom  int
	Depth    int
	MaxLen   int
	Workers  int
	Terminal func(label json.RawMessage) bool // edges that end a history
	Salt     int64
}

type LTSStats struct {
	Histories, Steps, EdgesCovered int
}

func RunLTS(l *LTS, newExec func() Exec, o LTSOpts, res *hx.Result) LTSStats {
	if o.Workers == 0 {
		o.Workers = 16
	}
	if o.MaxLen == 0 {
		o.MaxLen = 40
	}
	term := make([]bool, len(l.From))
	if o.Terminal != nil {
		for e := range l.From {
			term[e] = o.Terminal(l.Label[e])
		}
	}
	var plans [][]int
	if o.Cover {
		plans = coverTours(l.Out, func(e int) int { return l.From[e] }, func(e int) int { return l.To[e] }, l.Init, len(l.From), o.MaxLen,
			func(e int) bool { return term[e] })
	}
	rng := hx.Rand(101 + o.Salt)
	for i := 0; i < o.NRandom; i++ {
		cur := l.Init
		var p []int
		for j := 0; j < o.Depth && len(l.Out[cur]) > 0; j++ {
			outs := l.Out[cur]
			e := outs[rng.Intn(len(outs))]
			if rng.Intn(3) != 0 { // prefer moves that change the state
				for k := 0; k < 8 && l.To[e] == cur; k++ {
					e = outs[rng.Intn(len(outs))]
				}
			}
			if term[e] && j < o.Depth-1 && rng.Intn(5) != 0 {
				continue
			}
			p = append(p, e)
			if term[e] {
				break
			}
			cur = l.To[e]
		}
		plans = append(plans, p)
	}
	covered := make([]bool, len(l.From))
	var st LTSStats
	var mu sync.Mutex
	var wg sync.WaitGroup
	jobs := make(chan []int)
	for w := 0; w < o.Workers; w++ {
		wg.Add(1)
		go func() {
			defer wg.Done()
			for p := range jobs {
				ex := newExec()
				cur := l.Init
				ok := true
				n := 0
				for _, e := range p {
					n++
					if !ex.Step(l.Label[e], l.States[l.From[e]], l.States[l.To[e]]) {
						ok = false
						break
					}
					cur = l.To[e]
				}
				if ok {
					ex.Finish(l.States[cur])
				}
				mu.Lock()
				st.Histories++
				st.Steps += n
				for _, e := range p[:n] {
					covered[e] = true
				}
				mu.Unlock()
			}
		}()
	}
	for _, p := range plans {
		if res.NViol() > 40 {
			break
		}
		jobs <- p
	}
	close(jobs)
	wg.Wait()
	for _, c := range covered {
		if c {
			st.EdgesCovered++
		}
	}
	return st
}
