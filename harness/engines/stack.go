package engines

// Engine "stack" (C09): the real client session connected to the real server
// serving a recording session S.
//   sequential: vectors from specs/stack/CallMap.tla; what S saw and what the
//               caller got are compared with the spec's expectation;
//   concurrent: N callers over a buffered pipe must each get their own result;
//   cycle     : the counterexample of specs/stack/Pipeline.tla (unbuffered pipe,
//               many callers) - a hang is reported with the goroutine dump of the
//               five mutually waiting loops.

import (
	"context"
	"encoding/json"
	"errors"
	"flag"
	"fmt"
	"io"
	"os"
	"reflect"
	"strings"
	"sync"
	"time"

	p9p "github.com/frobnitzem/go-p9p"
	"verif/harness/gconn"
	"verif/harness/hx"
)

type recCall struct {
	M      string
	Fid    p9p.Fid
	Afid   p9p.Fid
	Newfid p9p.Fid
	Names  []string
	Name   string
	Uname  string
	Aname  string
	Perm   uint32
	Mode   p9p.Flag
	Off    int64
	Len    int
	Data   []byte
	Dir    p9p.Dir
}

// recS records every call and answers from a script.
type recS struct {
	mu     sync.Mutex
	calls  []recCall
	err    error
	n      int // bytes produced by read / count reported by write
	qid    p9p.Qid
	qids   []p9p.Qid
	iounit uint32
	dir    p9p.Dir
	// concurrent mode: answer derived from the fid
	byFid bool
	// barrier mode: Stat returns only once all callers have arrived
	barrier *sync.WaitGroup
}

func (s *recS) rec(c recCall) {
	s.mu.Lock()
	s.calls = append(s.calls, c)
	s.mu.Unlock()
}
func (s *recS) Auth(ctx context.Context, afid p9p.Fid, u, a string) (p9p.Qid, error) {
	s.rec(recCall{M: "auth", Afid: afid, Uname: u, Aname: a})
	return s.qid, s.err
}
func (s *recS) Attach(ctx context.Context, fid, afid p9p.Fid, u, a string) (p9p.Qid, error) {
	s.rec(recCall{M: "attach", Fid: fid, Afid: afid, Uname: u, Aname: a})
	return s.qid, s.err
}
func (s *recS) Clunk(ctx context.Context, fid p9p.Fid) error {
	s.rec(recCall{M: "clunk", Fid: fid})
	return s.err
}
func (s *recS) Remove(ctx context.Context, fid p9p.Fid) error {
	s.rec(recCall{M: "remove", Fid: fid})
	return s.err
}
func (s *recS) Walk(ctx context.Context, fid, nf p9p.Fid, names ...string) ([]p9p.Qid, error) {
	s.rec(recCall{M: "walk", Fid: fid, Newfid: nf, Names: append([]string{}, names...)})
	return s.qids, s.err
}
func (s *recS) Read(ctx context.Context, fid p9p.Fid, p []byte, off int64) (int, error) {
	s.rec(recCall{M: "read", Fid: fid, Off: off, Len: len(p)})
	if s.byFid {
		return copy(p, []byte(fmt.Sprintf("data-of-%d", fid))), nil
	}
	n := s.n
	if n > len(p) {
		n = len(p)
	}
	for i := 0; i < n; i++ {
		p[i] = byte(i*31 + 7)
	}
	return n, s.err
}
func (s *recS) Write(ctx context.Context, fid p9p.Fid, p []byte, off int64) (int, error) {
	s.rec(recCall{M: "write", Fid: fid, Off: off, Len: len(p), Data: append([]byte{}, p...)})
	return s.n, s.err
}
func (s *recS) Open(ctx context.Context, fid p9p.Fid, m p9p.Flag) (p9p.Qid, uint32, error) {
	s.rec(recCall{M: "open", Fid: fid, Mode: m})
	return s.qid, s.iounit, s.err
}
func (s *recS) Create(ctx context.Context, fid p9p.Fid, name string, perm uint32, m p9p.Flag) (p9p.Qid, uint32, error) {
	s.rec(recCall{M: "create", Fid: fid, Name: name, Perm: perm, Mode: m})
	return s.qid, s.iounit, s.err
}
func (s *recS) Stat(ctx context.Context, fid p9p.Fid) (p9p.Dir, error) {
	s.rec(recCall{M: "stat", Fid: fid})
	if s.barrier != nil {
		// the calls wait for each other: nobody returns before all have arrived
		s.barrier.Done()
		ok := make(chan struct{})
		go func() { s.barrier.Wait(); close(ok) }()
		select {
		case <-ok:
		case <-time.After(6 * time.Second):
			return p9p.Dir{}, p9p.MessageRerror{Ename: "barrier: the other calls never arrived"}
		}
	}
	if s.byFid {
		return p9p.Dir{Name: fmt.Sprintf("stat-of-%d", fid)}, nil
	}
	return s.dir, s.err
}
func (s *recS) WStat(ctx context.Context, fid p9p.Fid, d p9p.Dir) error {
	s.rec(recCall{M: "wstat", Fid: fid, Dir: d})
	return s.err
}
func (s *recS) Version() (int, string) { return p9p.DefaultMSize, p9p.DefaultVersion }
func (s *recS) Stop(err error) error   { return err }

type cmVector struct {
	M       string `json:"m"`
	Fid     string `json:"fid"`
	Off     string `json:"off"`
	Len     int    `json:"len"`
	Sres    int    `json:"sres"`
	Serr    string `json:"serr"`
	Variant int    `json:"variant"`
	Seen    struct {
		Len int    `json:"len"`
		Off string `json:"off"`
		Fid string `json:"fid"`
	} `json:"seen"`
	Got struct {
		N     int    `json:"n"`
		EOF   bool   `json:"eof"`
		Short bool   `json:"short"`
		Err   string `json:"err"`
	} `json:"got"`
}

func anchorFid(s string) p9p.Fid {
	switch s {
	case "0":
		return 0
	case "1":
		return 1
	case "NOFID-1":
		return p9p.NOFID - 1
	}
	return p9p.NOFID
}

func anchorOff(s string) int64 {
	switch s {
	case "0":
		return 0
	case "1":
		return 1
	case "2^31":
		return 1 << 31
	case "2^32":
		return 1 << 32
	case "2^63-1":
		return 1<<63 - 1
	case "2^63":
		return -1 << 63
	}
	return -1 // 2^64-1
}

// scripted error of S and the text the caller must see
func anchorErr(s string) (error, string) {
	switch s {
	case "plain":
		return errors.New("boom: no such thing"), "boom: no such thing"
	case "empty":
		return errors.New(""), ""
	case "long":
		t := strings.Repeat("long error text ", 40)
		return errors.New(t), t
	case "unicode":
		return errors.New("fehler: größe \x00 \xff übersteigt"), "fehler: größe \x00 \xff übersteigt"
	case "rerror":
		return p9p.MessageRerror{Ename: "permission denied"}, "permission denied"
	case "wrapped":
		// an error that wraps a 9p error: the caller must see the text of the error S returned, not of what it wraps
		e := fmt.Errorf("open /a/b: %w", p9p.MessageRerror{Ename: "file not found"})
		return e, e.Error()
	}
	return nil, ""
}

func errText(err error) (string, bool) {
	if me, ok := err.(p9p.MessageRerror); ok {
		return me.Ename, true
	}
	return err.Error(), false
}

type stackRig struct {
	s    *recS
	sess p9p.Session
	cli  *gconn.Conn
	done chan struct{}
}

// wrapLogging, when set, serves S through p9p.NewLogger: the logging wrapper must be
// indistinguishable from the session it wraps (growth item: logging as a refinement of identity).
var wrapLogging bool

// newStackRig sets up a client/server pair; the server gives version negotiation one second, which a heavily
// loaded machine can miss: the set-up (not part of any verdict) is retried.
func newStackRig(capacity int) (*stackRig, error) {
	var r *stackRig
	var err error
	for try := 0; try < 4; try++ {
		if r, err = newStackRig1(capacity); err == nil {
			return r, nil
		}
		r.cli.Close()
		time.Sleep(50 * time.Millisecond)
	}
	return r, err
}

func newStackRig1(capacity int) (*stackRig, error) {
	cli, srv := gconn.Pair(capacity)
	s := &recS{}
	r := &stackRig{s: s, cli: cli, done: make(chan struct{})}
	var served p9p.Session = s
	if wrapLogging {
		served = p9p.NewLogger("", s)
	}
	go func() { p9p.ServeConn(context.Background(), srv, p9p.SSession(served)); close(r.done) }()
	var err error
	r.sess, err = p9p.CSession(context.Background(), cli)
	return r, err
}

func (r *stackRig) close() { r.cli.Close(); <-r.done }

func stackSequential(vecPath string, res *hx.Result) {
	rig, err := newStackRig(0)
	if err != nil {
		res.Violate("harness", "harness:stack-rig", err.Error(), nil)
		return
	}
	defer rig.close()
	ctx := context.Background()
	s := rig.s
	distinct := map[string]bool{}
	// a call whose message cannot be sent at all (it does not fit msize and cannot be shortened) fails by itself:
	// S is not called, and the calls that follow are served as before
	{
		big := strings.Repeat("n", 5000)
		names := make([]string, 16)
		for i := range names {
			names[i] = big
		}
		_, werr := rig.sess.Walk(ctx, 1, 2, names...)
		err2 := rig.sess.WStat(ctx, 1, p9p.Dir{Name: strings.Repeat("d", 80000)})
		s.mu.Lock()
		ncalls := len(s.calls)
		s.calls = nil
		s.mu.Unlock()
		s.dir = p9p.Dir{Name: "after-oversized"}
		d, serr := rig.sess.Stat(ctx, 7)
		if werr == nil || err2 == nil || ncalls != 0 {
			res.Violate("C09", "oversized-call", fmt.Sprintf("a walk of 16 x 5000-byte names / a wstat with an 80000-byte name cannot be sent within msize 65536: errors %v / %v, S saw %d calls", werr, err2, ncalls), map[string]interface{}{"engine": "stack", "oversized": true})
		} else if serr != nil || d.Name != "after-oversized" {
			res.Violate("C09", "call-after-oversized-call", fmt.Sprintf("after a call that could not be sent (message larger than msize) the next call returns %q, %v instead of what S returns", d.Name, serr), map[string]interface{}{"engine": "stack", "oversized": true})
		}
		s.mu.Lock()
		s.calls = nil
		s.mu.Unlock()
		res.Evaluations += 3
	}
	hx.ReadNDJSON(vecPath, func(b []byte) error {
		var v cmVector
		if err := json.Unmarshal(b, &v); err != nil {
			return err
		}
		if res.NViol() > 30 {
			return nil
		}
		res.Evaluations++
		s.mu.Lock()
		s.calls = nil
		s.mu.Unlock()
		serr, text := anchorErr(v.Serr)
		s.err = serr
		fid := anchorFid(v.Fid)
		rep := map[string]interface{}{"engine": "stack", "vector": json.RawMessage(append([]byte{}, b...))}
		viol := func(sig, d string) { res.Violate("C09", sig+":"+v.M, d, rep) }
		checkErr := func(err error) bool {
			if serr == nil {
				return true
			}
			t, isRerror := "", false
			if err != nil {
				t, isRerror = errText(err)
			}
			if err == nil || !isRerror || t != text {
				viol("error-text", fmt.Sprintf("S failed with %q; the caller got %v", text, err))
			}
			return false
		}
		distinct[fmt.Sprint(v.M, v.Fid, v.Off, v.Len, v.Sres, v.Serr, v.Variant)] = true
		switch v.M {
		case "read":
			s.n = v.Sres
			p := make([]byte, v.Len)
			n, err := rig.sess.Read(ctx, fid, p, anchorOff(v.Off))
			if len(s.calls) != 1 {
				viol("calls", fmt.Sprintf("S saw %d calls", len(s.calls)))
				return nil
			}
			c := s.calls[0]
			if c.M != "read" || c.Fid != fid || c.Off != anchorOff(v.Seen.Off) || c.Len != v.Seen.Len {
				viol("args", fmt.Sprintf("caller: Read(fid %d, %d bytes, off %d); S saw %s(fid %d, %d bytes, off %d); expected %d bytes", fid, v.Len, anchorOff(v.Off), c.M, c.Fid, c.Len, c.Off, v.Seen.Len))
			}
			if checkErr(err) {
				if n != v.Got.N || (v.Got.EOF != (err == io.EOF)) || (err != nil && err != io.EOF) {
					viol("result", fmt.Sprintf("S produced %d bytes; caller got n=%d err=%v, expected n=%d eof=%v", v.Sres, n, err, v.Got.N, v.Got.EOF))
				} else {
					for i := 0; i < n; i++ {
						if p[i] != byte(i*31+7) {
							viol("data", fmt.Sprintf("byte %d of the read data differs", i))
							break
						}
					}
				}
			}
		case "write":
			s.n = v.Sres
			p := make([]byte, v.Len)
			for i := range p {
				p[i] = byte(i*13 + 5)
			}
			n, err := rig.sess.Write(ctx, fid, p, anchorOff(v.Off))
			if len(s.calls) != 1 {
				viol("calls", fmt.Sprintf("S saw %d calls", len(s.calls)))
				return nil
			}
			c := s.calls[0]
			if c.M != "write" || c.Fid != fid || c.Off != anchorOff(v.Seen.Off) || c.Len != v.Seen.Len || !reflect.DeepEqual(c.Data, p[:v.Seen.Len]) {
				viol("args", fmt.Sprintf("caller: Write(fid %d, %d bytes, off %d); S saw %s(fid %d, %d bytes, off %d); expected the first %d bytes", fid, v.Len, anchorOff(v.Off), c.M, c.Fid, c.Len, c.Off, v.Seen.Len))
			}
			if checkErr(err) {
				if n != v.Got.N || (v.Got.Short != (err == io.ErrShortWrite)) || (err != nil && err != io.ErrShortWrite) {
					viol("result", fmt.Sprintf("S wrote %d of %d; caller got n=%d err=%v", v.Sres, v.Seen.Len, n, err))
				}
			}
		default:
			stackPass(rig, v, fid, serr, checkErr, viol)
		}
		if res.Evaluations%499 == 0 {
			var x interface{}
			json.Unmarshal(b, &x)
			res.Sample(x)
		}
		return nil
	})
	res.Distinct += len(distinct)
}

// stackPass: methods whose arguments / results pass through unchanged.
func stackPass(rig *stackRig, v cmVector, fid p9p.Fid, serr error, checkErr func(error) bool, viol func(string, string)) {
	ctx := context.Background()
	s := rig.s
	k := v.Variant
	strs := []string{"", "a", "glenda", strings.Repeat("n", 300), "nön-utf8 \xff\x00", "with/slash"}
	qid := p9p.Qid{Type: p9p.QType([]int{0, 0x80, 0x40, 0xff, 8, 4}[k%6]), Version: uint32(k * 1000003), Path: []uint64{0, 1, 1 << 32, 1<<63 - 1, 1 << 63, ^uint64(0)}[k%6]}
	modes := []p9p.Flag{0, 1, 2, 3, 0x10 | 1, 0xff}
	perms := []uint32{0, 0644, p9p.DMDIR | 0755, 0xFFFFFFFF, 0x80000000, 0777}
	dir := p9p.Dir{Type: uint16(k * 9999), Dev: uint32(k) << 28, Qid: qid, Mode: perms[k%6], Length: qid.Path, Name: strs[k%6], UID: strs[(k+1)%6], GID: strs[(k+2)%6], MUID: strs[(k+3)%6],
		AccessTime: time.Unix(int64(k)*700000000, 0).UTC(), ModTime: time.Unix(int64(4294967295-k), 0).UTC()}
	s.qid, s.iounit, s.dir = qid, uint32(k)*0x11111111, dir
	nn := []int{0, 1, 2, 16, 3, 5}[k%6]
	names := make([]string, nn)
	for i := range names {
		names[i] = strs[(i+k)%5+1]
	}
	s.qids = make([]p9p.Qid, nn)
	for i := range s.qids {
		s.qids[i] = p9p.Qid{Path: uint64(i + k), Version: uint32(i)}
	}
	afid := anchorFid([]string{"NOFID", "0", "1", "NOFID-1"}[k%4])
	var err error
	var want recCall
	switch v.M {
	case "auth":
		var q p9p.Qid
		q, err = rig.sess.Auth(ctx, fid, strs[k%6], strs[(k+2)%6])
		want = recCall{M: "auth", Afid: fid, Uname: strs[k%6], Aname: strs[(k+2)%6]}
		if serr == nil && err == nil && q != qid {
			viol("result", fmt.Sprintf("S returned %v, caller got %v", qid, q))
		}
	case "attach":
		var q p9p.Qid
		q, err = rig.sess.Attach(ctx, fid, afid, strs[k%6], strs[(k+1)%6])
		want = recCall{M: "attach", Fid: fid, Afid: afid, Uname: strs[k%6], Aname: strs[(k+1)%6]}
		if serr == nil && err == nil && q != qid {
			viol("result", fmt.Sprintf("S returned %v, caller got %v", qid, q))
		}
	case "clunk":
		err = rig.sess.Clunk(ctx, fid)
		want = recCall{M: "clunk", Fid: fid}
	case "remove":
		err = rig.sess.Remove(ctx, fid)
		want = recCall{M: "remove", Fid: fid}
	case "open":
		var q p9p.Qid
		var iu uint32
		q, iu, err = rig.sess.Open(ctx, fid, modes[k%6])
		want = recCall{M: "open", Fid: fid, Mode: modes[k%6]}
		if serr == nil && err == nil && (q != qid || iu != s.iounit) {
			viol("result", fmt.Sprintf("S returned %v/%d, caller got %v/%d", qid, s.iounit, q, iu))
		}
	case "create":
		var q p9p.Qid
		var iu uint32
		q, iu, err = rig.sess.Create(ctx, fid, strs[k%6], perms[k%6], modes[(k+1)%6])
		want = recCall{M: "create", Fid: fid, Name: strs[k%6], Perm: perms[k%6], Mode: modes[(k+1)%6]}
		if serr == nil && err == nil && (q != qid || iu != s.iounit) {
			viol("result", fmt.Sprintf("S returned %v/%d, caller got %v/%d", qid, s.iounit, q, iu))
		}
	case "stat":
		var d p9p.Dir
		d, err = rig.sess.Stat(ctx, fid)
		want = recCall{M: "stat", Fid: fid}
		if serr == nil && err == nil && !reflect.DeepEqual(canonDir(d), canonDir(dir)) {
			viol("result", fmt.Sprintf("S returned %+v, caller got %+v", dir, d))
		}
	case "wstat":
		err = rig.sess.WStat(ctx, fid, dir)
		want = recCall{M: "wstat", Fid: fid, Dir: canonDir(dir)}
	case "walk":
		if v.Variant == 17 {
			names = make([]string, 17)
			for i := range names {
				names[i] = "x"
			}
			_, err = rig.sess.Walk(ctx, fid, afid, names...)
			if err == nil || len(s.calls) != 0 {
				viol("walk-limit", fmt.Sprintf("a walk of 17 names must be refused by the client without a call; err=%v, S saw %d calls", err, len(s.calls)))
			}
			return
		}
		var qs []p9p.Qid
		qs, err = rig.sess.Walk(ctx, fid, afid, names...)
		want = recCall{M: "walk", Fid: fid, Newfid: afid, Names: names}
		if serr == nil && err == nil && !(len(qs) == len(s.qids) && (len(qs) == 0 || reflect.DeepEqual(qs, s.qids))) {
			viol("result", fmt.Sprintf("S returned %v, caller got %v", s.qids, qs))
		}
	}
	if len(s.calls) != 1 {
		viol("calls", fmt.Sprintf("S saw %d calls for one %s", len(s.calls), v.M))
		return
	}
	got := s.calls[0]
	got.Dir = canonDir(got.Dir)
	if len(got.Names) == 0 {
		got.Names = nil
	}
	if len(want.Names) == 0 {
		want.Names = nil
	}
	if !reflect.DeepEqual(got, want) {
		viol("args", fmt.Sprintf("caller passed %+v; S saw %+v", want, got))
	}
	if checkErr(err) && err != nil {
		viol("result", fmt.Sprintf("S succeeded, the caller got error %v", err))
	}
}

// stackConcurrent: n callers, each must get the answer derived from its own fid.
// stackBarrier (Pipeline.tla with B = n): n concurrent callers whose session calls return only once all n
// have reached S.  Called directly on S they all complete, so they must complete through the stack.
func stackBarrier(n int, res *hx.Result) {
	rig, err := newStackRig(1 << 20)
	if err != nil {
		res.Violate("harness", "harness:stack-rig", err.Error(), nil)
		return
	}
	defer rig.cli.Close()
	rig.s.byFid = true
	rig.s.barrier = &sync.WaitGroup{}
	rig.s.barrier.Add(n)
	var wg sync.WaitGroup
	var mu sync.Mutex
	bad := ""
	nbad := 0
	for i := 0; i < n; i++ {
		wg.Add(1)
		go func(i int) {
			defer wg.Done()
			fid := p9p.Fid(5000 + i)
			ctx, cancel := context.WithTimeout(context.Background(), 8*time.Second)
			d, err := rig.sess.Stat(ctx, fid)
			cancel()
			if err != nil || d.Name != fmt.Sprintf("stat-of-%d", fid) {
				mu.Lock()
				nbad++
				if bad == "" {
					bad = fmt.Sprintf("caller of fid %d got %q, %v", fid, d.Name, err)
				}
				mu.Unlock()
			}
		}(i)
	}
	wg.Wait()
	res.Evaluations += n
	if nbad > 0 {
		res.Violate("C09", fmt.Sprintf("barrier-calls-do-not-complete:n%d", n), fmt.Sprintf("%d concurrent calls whose session calls wait for each other (each returns once all %d have reached S; all complete when S is called directly): %d did not get their result through the stack; first: %s; S saw %d of them", n, n, nbad, bad, len(rig.s.calls)),
			map[string]interface{}{"engine": "stack", "barrier": n})
	}
}

func stackConcurrent(n, capacity, rounds int, label string, res *hx.Result) bool {
	rig, err := newStackRig(capacity)
	if err != nil {
		res.Violate("harness", "harness:stack-rig", err.Error(), nil)
		return false
	}
	rig.s.byFid = true
	var wg sync.WaitGroup
	var mu sync.Mutex
	wrong, failed := 0, 0
	firstErr := ""
	for i := 0; i < n; i++ {
		wg.Add(1)
		go func(i int) {
			defer wg.Done()
			for r := 0; r < rounds; r++ {
				ctx, cancel := context.WithTimeout(context.Background(), 4*time.Second)
				fid := p9p.Fid(1000*i + r)
				var got, want string
				var err error
				if r%2 == 0 {
					var d p9p.Dir
					d, err = rig.sess.Stat(ctx, fid)
					got, want = d.Name, fmt.Sprintf("stat-of-%d", fid)
				} else {
					p := make([]byte, 64)
					var k int
					k, err = rig.sess.Read(ctx, fid, p, int64(r))
					got, want = string(p[:k]), fmt.Sprintf("data-of-%d", fid)
				}
				cancel()
				mu.Lock()
				if err != nil {
					failed++
					if firstErr == "" {
						firstErr = err.Error()
					}
				} else if got != want {
					wrong++
					if firstErr == "" {
						firstErr = fmt.Sprintf("caller of fid %d got %q", fid, got)
					}
				}
				mu.Unlock()
				if err != nil {
					return
				}
			}
		}(i)
	}
	doneCh := make(chan struct{})
	go func() { wg.Wait(); close(doneCh) }()
	dump := ""
	select {
	case <-doneCh:
	case <-time.After(2 * time.Second):
		dump = hx.Dump()
		<-doneCh
	}
	res.Evaluations += n * rounds
	rep := map[string]interface{}{"engine": "stack", "callers": n, "pipe_capacity_bytes": capacity, "rounds": rounds}
	ok := true
	if wrong > 0 {
		res.Violate("C09", "result-crossed:"+label, fmt.Sprintf("%d of %d concurrent calls obtained another caller's result (%s)", wrong, n*rounds, firstErr), rep)
		ok = false
	}
	if failed > 0 {
		frames := []string{}
		for _, f := range []string{"p9p.(*transport).handle(", "p9p.(*transport).handle.func", "p9p.(*conn).read(", "p9p.(*conn).serve(", "p9p.(*conn).write("} {
			if gs := hx.GoroutinesWith(dump, f); len(gs) > 0 {
				first := strings.SplitN(gs[0], "\n", 2)[0]
				frames = append(frames, f+": "+first)
			}
		}
		sig := "calls-do-not-complete:" + label
		if capacity == 1 && len(frames) >= 4 {
			sig = "coupled-write-cycle:" + label
		}
		res.Violate("C09", sig, fmt.Sprintf("%d concurrent callers over a pipe buffering %d byte(s): %d calls did not complete within 4 s (%s); loops parked after 2 s: %v",
			n, capacity, failed, firstErr, frames), rep)
		ok = false
	}
	rig.cli.Close()
	select {
	case <-rig.done:
	case <-time.After(3 * time.Second):
	}
	return ok
}

// stackDeadlines replays the call sequences of specs/stack/ConnDeadlineVectors.tla: idle times and
// per-call context deadlines in units of dlUnit on a fresh CSession <-> ServeConn pair each.  The model
// (ConnDeadline.tla) says every call issued before its own deadline goes through, whatever came before.
const dlUnit = 350 * time.Millisecond

type dlVector struct {
	Calls []struct {
		W int `json:"w"`
		D int `json:"d"`
	} `json:"calls"`
}

func stackDeadlines(vecPath string, res *hx.Result) {
	var vecs []dlVector
	if err := hx.ReadNDJSON(vecPath, func(b []byte) error {
		var v dlVector
		if err := json.Unmarshal(b, &v); err != nil {
			return err
		}
		vecs = append(vecs, v)
		return nil
	}); err != nil {
		res.Violate("harness", "harness:deadline-vectors", err.Error(), nil)
		return
	}
	var wg sync.WaitGroup
	var mu sync.Mutex
	distinct := 0
	sem := make(chan struct{}, 64)
	for _, v := range vecs {
		if res.NViol() >= 6 {
			break // (a broken library may leave goroutines spinning in every pair: enough has been seen)
		}
		wg.Add(1)
		sem <- struct{}{}
		go func(v dlVector) {
			defer wg.Done()
			defer func() { <-sem }()
			rig, err := newStackRig(1 << 20)
			if err != nil {
				res.Violate("harness", "harness:stack-rig", err.Error(), nil)
				return
			}
			defer rig.cli.Close()
			rig.s.byFid = true
			for k, c := range v.Calls {
				time.Sleep(time.Duration(c.W) * dlUnit)
				fid := p9p.Fid(100 + k)
				ctx, cancel := context.Background(), context.CancelFunc(func() {})
				if c.D > 0 {
					ctx, cancel = context.WithTimeout(ctx, time.Duration(c.D)*dlUnit)
				}
				var d p9p.Dir
				var cerr error
				ok, _ := hx.RunTimed(5*time.Second, func() { d, cerr = rig.sess.Stat(ctx, fid) })
				own := ctx.Err() != nil // the call's own deadline passed meanwhile (machine load): no verdict
				cancel()
				mu.Lock()
				res.Evaluations++
				mu.Unlock()
				what := fmt.Sprintf("call %d of the sequence %s (idle times w and context deadlines d in units of %v; d = 0: no deadline)", k+1, hx.JS(v.Calls), dlUnit)
				switch {
				case !ok:
					res.Violate("C09", "timed-sequence:call-never-returns", what+" did not return within 5 s although S answers at once", map[string]interface{}{"engine": "stack", "deadline_vector": v})
					return
				case cerr != nil && own:
					mu.Lock()
					res.Add("steps_skipped", 1)
					mu.Unlock()
					return
				case cerr != nil:
					res.Violate("C09", "timed-sequence:call-fails", what+fmt.Sprintf(" failed with %v although S answered", cerr), map[string]interface{}{"engine": "stack", "deadline_vector": v})
					return
				case d.Name != fmt.Sprintf("stat-of-%d", fid):
					res.Violate("C09", "timed-sequence:wrong-result", what+fmt.Sprintf(" returned %q", d.Name), map[string]interface{}{"engine": "stack", "deadline_vector": v})
					return
				}
			}
			mu.Lock()
			distinct++
			mu.Unlock()
		}(v)
	}
	wg.Wait()
	res.Distinct += distinct
	res.Set("deadline_sequences", len(vecs))
}

func Stack(args []string) {
	fl := flag.NewFlagSet("stack", flag.ExitOnError)
	vec := fl.String("vectors", "", "ndjson from CallMap.tla")
	out := fl.String("out", "", "result file")
	rounds := fl.Int("rounds", 50, "calls per concurrent caller")
	cycle := fl.Bool("cycle", true, "also run the Pipeline counterexample (unbuffered pipe)")
	dlvec := fl.String("deadlines", "", "ndjson from ConnDeadlineVectors.tla")
	logging := fl.Bool("logging", false, "additionally run the sequential vectors with S wrapped in p9p.NewLogger")
	fl.Parse(args)
	res := hx.NewResult()
	defer res.Write(*out)
	if *dlvec != "" {
		stackDeadlines(*dlvec, res)
	}
	stackSequential(*vec, res)
	if *logging {
		wrapLogging = true
		devnull, _ := os.OpenFile(os.DevNull, os.O_WRONLY, 0)
		saved := os.Stdout
		os.Stdout = devnull // the wrapper logs every call to os.Stdout (captured at NewLogger time)
		stackSequential(*vec, res)
		os.Stdout = saved
		wrapLogging = false
	}
	for _, n := range []int{2, 4, 8, 16, 32} {
		stackConcurrent(n, 1<<20, *rounds, fmt.Sprintf("buffered-n%d", n), res)
	}
	for _, n := range []int{8, 100, 300} {
		stackBarrier(n, res)
	}
	// below the threshold N >= 5 + 2K of the Pipeline model even the unbuffered pipe must work
	stackConcurrent(4, 1, *rounds, "unbuffered-n4", res)
	if *cycle {
		stackConcurrent(16, 1, 20, "unbuffered-n16", res)
	}
	res.Distinct += 7
}
