package engines

// Engine "client" (C05, C12): the real p9p.CSession over an in-memory connection
// to a scripted peer.  Scenarios are environment projections of TLC behaviours of
// specs/client/ClientImpl.tla (issue call i, answer the request of call i with an
// ok / error / wrong-typed reply, unsolicited reply, cancel call i, fault) plus a
// true-width tag wrap scenario.  Observable events are recorded under one mutex
// and validated by TLC against specs/client/ClientTrace.tla.  Calls that never
// return are judged here (bounded wait + goroutine dump).

import (
	"context"
	"encoding/json"
	"flag"
	"fmt"
	"os"
	"strings"
	"sync"
	"sync/atomic"
	"time"

	p9p "github.com/frobnitzem/go-p9p"
	"verif/harness/gconn"
	"verif/harness/hx"
)

type cliStep struct {
	A    string `json:"a"` // start | await_req | reply | rogue | cancel | fault | await_ret
	I    int    `json:"i,omitempty"`
	Kind string `json:"kind,omitempty"`
	K    int    `json:"k,omitempty"`
}

type cliScenario struct {
	Name   string    `json:"name"`
	Steps  []cliStep `json:"steps"`
	Repeat int       `json:"repeat,omitempty"`
	Wrap   int       `json:"wrap,omitempty"` // true-width wrap scenario with that many sequential calls
}

type cliEvent struct {
	E    string `json:"e"`
	I    int    `json:"i"`
	Tag  int    `json:"tag"`
	Kind string `json:"kind"`
	Res  string `json:"res"`
	Src  int    `json:"src"`
	Run  int    `json:"run"`
}

type cliRun struct {
	mu       sync.Mutex
	cond     *sync.Cond
	events   []cliEvent
	run      int
	held     map[int]p9p.Tag // call id -> tag of its request at the peer
	answered map[int]bool
	nreq     int
	returned map[int]bool
	cancels  map[int]context.CancelFunc
	lastTag  p9p.Tag
}

func (r *cliRun) log(e cliEvent) {
	e.Run = r.run
	r.events = append(r.events, e)
	r.cond.Broadcast()
}

func (r *cliRun) waitFor(d time.Duration, pred func() bool) bool {
	deadline := time.Now().Add(d)
	t := time.AfterFunc(d+time.Millisecond, func() { r.mu.Lock(); r.cond.Broadcast(); r.mu.Unlock() })
	defer t.Stop()
	for !pred() {
		if !time.Now().Before(deadline) {
			return false
		}
		r.cond.Wait()
	}
	return true
}

func classifyRet(i int, d p9p.Dir, err error) (string, int) {
	if err == nil {
		var src int
		fmt.Sscanf(d.Name, "r%d", &src)
		return "ok", src
	}
	s := err.Error()
	switch {
	case err == p9p.ErrClosed || s == "closed":
		return "closed", 0
	case err == context.Canceled || err == context.DeadlineExceeded:
		return "ctx", 0
	case strings.Contains(s, "unexpected message"):
		return "badtype", 0
	}
	if me, ok := err.(p9p.MessageRerror); ok {
		var src int
		if _, e2 := fmt.Sscanf(me.Ename, "e%d", &src); e2 == nil {
			return "err", src
		}
	}
	return "other", 0
}

// deadlineCtx ends like a context whose deadline has passed: Err() is context.DeadlineExceeded (which,
// unlike context.Canceled, is a net.Error reporting a timeout).  No deadline is announced, so the
// channel's connection deadlines stay what they are for other calls.
type deadlineCtx struct {
	context.Context
	done chan struct{}
	once sync.Once
}

func newDeadlineCtx() (context.Context, context.CancelFunc) {
	c := &deadlineCtx{Context: context.Background(), done: make(chan struct{})}
	return c, func() { c.once.Do(func() { close(c.done) }) }
}
func (c *deadlineCtx) Done() <-chan struct{} { return c.done }
func (c *deadlineCtx) Err() error {
	select {
	case <-c.done:
		return context.DeadlineExceeded
	default:
		return nil
	}
}

func runCliScenario(sc cliScenario, run int, res *hx.Result) []cliEvent {
	r := &cliRun{run: run, held: map[int]p9p.Tag{}, answered: map[int]bool{}, returned: map[int]bool{}, cancels: map[int]context.CancelFunc{}}
	r.cond = sync.NewCond(&r.mu)
	capacity := 0
	for _, st := range sc.Steps {
		if st.A == "stall" {
			capacity = 16 // a stalled peer must make the client's request writes block: a pipe that holds one request
		}
	}
	cli, srv := gconn.Pair(capacity)
	sctx, scancel := context.WithCancel(context.Background())
	defer scancel()
	raw := p9p.NewChannel(srv, p9p.DefaultMSize)
	var stallMu sync.Mutex
	var stallGate chan struct{}
	bg := context.Background()
	// the peer's side of the handshake
	hs := make(chan error, 1)
	go func() {
		var tv p9p.Fcall
		if err := raw.ReadFcall(bg, &tv); err != nil {
			hs <- err
			return
		}
		hs <- raw.WriteFcall(bg, &p9p.Fcall{Type: p9p.Rversion, Tag: p9p.NOTAG, Message: p9p.MessageRversion{MSize: p9p.DefaultMSize, Version: "9P2000"}})
	}()
	sess, err := p9p.CSession(sctx, cli)
	if err != nil || <-hs != nil {
		res.Violate("harness", "harness:client-handshake", fmt.Sprint(err), nil)
		return nil
	}
	// peer reader: records every request
	var wmu sync.Mutex // serialises peer writes
	autoReply := false
	heldZero, heldLast := false, false
	go func() {
		for {
			stallMu.Lock()
			g := stallGate
			stallMu.Unlock()
			if g != nil {
				<-g
			}
			var fc p9p.Fcall
			if err := raw.ReadFcall(bg, &fc); err != nil {
				return
			}
			id := -1
			if m, ok := fc.Message.(p9p.MessageTstat); ok {
				id = int(m.Fid)
			}
			r.mu.Lock()
			r.held[id] = fc.Tag
			r.nreq++
			r.lastTag = fc.Tag
			r.log(cliEvent{E: "preq", I: id, Tag: int(fc.Tag)})
			ar := autoReply && id >= 1000
			if ar && ((fc.Tag == 0 && !heldZero) || (fc.Tag == 0xFFFE && !heldLast)) {
				// keep the request that got tag 0 (and the one that got the last tag before NOTAG) unanswered
				// across the next wrap-around of the allocator
				if fc.Tag == 0 {
					heldZero = true
				} else {
					heldLast = true
				}
				ar = false
			}
			if ar {
				r.answered[id] = true
				r.log(cliEvent{E: "preply", I: id, Tag: int(fc.Tag), Kind: "ok"})
			}
			r.mu.Unlock()
			if ar {
				wmu.Lock()
				raw.WriteFcall(bg, &p9p.Fcall{Type: p9p.Rstat, Tag: fc.Tag, Message: p9p.MessageRstat{Stat: p9p.Dir{Name: fmt.Sprintf("r%d", id)}}})
				wmu.Unlock()
			}
		}
	}()
	var wg sync.WaitGroup
	start := func(i int, expired bool) {
		ctx, cancel := context.WithCancel(context.Background())
		if i%2 == 0 {
			// every other call's context ends the way a deadline does (Err() = context.DeadlineExceeded)
			ctx, cancel = newDeadlineCtx()
		}
		r.mu.Lock()
		r.cancels[i] = cancel
		r.log(cliEvent{E: "start", I: i})
		if expired {
			// the call is issued with a context that has already ended
			r.log(cliEvent{E: "cancel", I: i})
			cancel()
		}
		r.mu.Unlock()
		wg.Add(1)
		go func() {
			defer wg.Done()
			d, err := sess.Stat(ctx, p9p.Fid(i))
			k, src := classifyRet(i, d, err)
			r.mu.Lock()
			r.returned[i] = true
			r.log(cliEvent{E: "ret", I: i, Res: k, Src: src})
			r.mu.Unlock()
		}()
	}
	reply := func(i int, kind string) {
		r.mu.Lock()
		tag, ok := r.held[i]
		if !ok || r.answered[i] {
			r.mu.Unlock()
			res.Add("steps_skipped", 1)
			return
		}
		r.answered[i] = true
		r.log(cliEvent{E: "preply", I: i, Tag: int(tag), Kind: kind})
		r.mu.Unlock()
		var m p9p.Message
		switch kind {
		case "ok":
			m = p9p.MessageRstat{Stat: p9p.Dir{Name: fmt.Sprintf("r%d", i)}}
		case "err":
			m = p9p.MessageRerror{Ename: fmt.Sprintf("e%d", i)}
		default:
			m = p9p.MessageRclunk{}
		}
		wmu.Lock()
		raw.WriteFcall(bg, &p9p.Fcall{Type: m.Type(), Tag: tag, Message: m})
		wmu.Unlock()
	}
	faulted := false
	fault := func(kind string) {
		if faulted {
			return
		}
		faulted = true
		r.mu.Lock()
		r.log(cliEvent{E: "fault", Kind: kind})
		r.mu.Unlock()
		switch kind {
		case "close":
			srv.Close()
		case "readerr":
			srv.FailPeerReadNow(gconn.ErrInjected)
		case "garbage":
			srv.Write([]byte{2, 0, 0, 0}) // impossible length prefix
		case "garbage2":
			srv.Write([]byte{9, 0, 0, 0, 255, 1, 0, 7, 7}) // undecodable type
		case "cut":
			srv.Write([]byte{40, 0, 0, 0, 125, 1, 0})
			srv.CloseWrite()
		default:
			scancel()
		}
	}
	if sc.Wrap > 0 {
		// true 16-bit width: three calls stay unanswered while the allocator wraps around
		for i := 1; i <= 3; i++ {
			start(i, false)
		}
		r.mu.Lock()
		r.waitFor(2*time.Second, func() bool { return r.nreq >= 3 })
		autoReply = true
		// one of the three is abandoned by its caller: its tag stays taken until the peer answers
		c1 := r.cancels[1]
		r.log(cliEvent{E: "cancel", I: 1})
		r.mu.Unlock()
		c1()
		r.mu.Lock()
		r.waitFor(2*time.Second, func() bool { return r.returned[1] })
		r.mu.Unlock()
		// two issuers, so that the stream goes on while one call is kept waiting by the peer
		var next int64
		firstDone := make(chan struct{})
		var once sync.Once
		for w := 0; w < 3; w++ {
			wg.Add(1)
			go func() {
				defer wg.Done()
				defer once.Do(func() { close(firstDone) })
				for {
					k := int(atomic.AddInt64(&next, 1))
					if k > sc.Wrap {
						return
					}
					id := 1000 + k
					ctx, cancel := context.WithTimeout(bg, 20*time.Second)
					d, err := sess.Stat(ctx, p9p.Fid(id))
					cancel()
					kk, src := classifyRet(id, d, err)
					if kk == "ctx" {
						return // this issuer's call is the one the peer holds back
					}
					if kk != "ok" || src != id {
						res.Violate("C05", "bulk-call-wrong-result", fmt.Sprintf("sequential call %d returned %s/%d (%v)", id, kk, src, err), sc)
						return
					}
				}
			}()
		}
		<-firstDone // every call has been issued; the held ones are answered by the end-of-scenario peer below
	}
	nfault := 0
	for _, st := range sc.Steps {
		await := 300 * time.Millisecond
		if faulted {
			await = 30 * time.Millisecond
		}
		switch st.A {
		case "start":
			start(st.I, st.Kind == "expired")
		case "await_req":
			r.mu.Lock()
			if !r.waitFor(await, func() bool { _, ok := r.held[st.I]; return ok }) {
				res.Add("awaits_timed_out", 1)
			}
			r.mu.Unlock()
		case "reply":
			reply(st.I, st.Kind)
		case "rogue":
			// a reply nobody asked for: a tag that is not held (never used, or answered before)
			r.mu.Lock()
			tag := p9p.Tag(0x7700 + st.K)
			switch (run + st.K) % 3 {
			case 1:
				tag = r.lastTag // repeated tag, if already answered
			case 2:
				tag = p9p.NOTAG // the reserved tag, which no request ever carries
			}
			heldNow := false
			for i, t := range r.held {
				if t == tag && !r.answered[i] {
					heldNow = true
				}
			}
			if heldNow {
				r.mu.Unlock()
				res.Add("steps_skipped", 1)
				continue
			}
			r.log(cliEvent{E: "preply", Tag: int(tag), Kind: "rogue"})
			r.mu.Unlock()
			wmu.Lock()
			raw.WriteFcall(bg, &p9p.Fcall{Type: p9p.Rstat, Tag: tag, Message: p9p.MessageRstat{Stat: p9p.Dir{Name: "rogue"}}})
			wmu.Unlock()
		case "stall":
			stallMu.Lock()
			if stallGate == nil {
				stallGate = make(chan struct{})
			}
			stallMu.Unlock()
		case "resume":
			stallMu.Lock()
			if stallGate != nil {
				close(stallGate)
				stallGate = nil
			}
			stallMu.Unlock()
		case "cancel":
			r.mu.Lock()
			c := r.cancels[st.I]
			if c != nil {
				r.log(cliEvent{E: "cancel", I: st.I})
			}
			r.mu.Unlock()
			if c != nil {
				c()
			}
		case "fault":
			kinds := []string{"close", "readerr", "garbage", "sessionctx", "garbage2", "cut"}
			fault(kinds[(run+nfault+st.K)%len(kinds)])
			nfault++
		case "await_ret":
			r.mu.Lock()
			if !r.waitFor(await, func() bool { return r.returned[st.I] }) {
				res.Add("awaits_timed_out", 1)
			}
			r.mu.Unlock()
		}
	}
	// end of scenario: an honest peer reads on and answers everything it holds or still receives; then every call must return
	stallMu.Lock()
	if stallGate != nil {
		close(stallGate)
		stallGate = nil
	}
	stallMu.Unlock()
	stopAnswering := make(chan struct{})
	if !faulted {
		go func() {
			for {
				r.mu.Lock()
				var todo []int
				for i := range r.held {
					if !r.answered[i] && i >= 0 {
						todo = append(todo, i)
					}
				}
				r.mu.Unlock()
				for _, i := range todo {
					reply(i, "ok")
				}
				select {
				case <-stopAnswering:
					return
				case <-time.After(2 * time.Millisecond):
				}
			}
		}()
	}
	defer close(stopAnswering)
	done := make(chan struct{})
	go func() { wg.Wait(); close(done) }()
	select {
	case <-done:
	case <-time.After(5 * time.Second):
		dump := hx.Dump()
		gs := hx.GoroutinesWith(dump, "p9p.(*transport).send")
		d := "a client call did not return within 5 s"
		if faulted {
			d += " of the connection failing / the session context ending"
		} else {
			d += " although the peer answered every request"
		}
		if len(gs) > 0 {
			d += "\n" + hx.Trunc(gs[0], 1500)
		}
		tag := "C12"
		if !faulted {
			tag = "C05"
		}
		res.Violate(tag, "call-hang:"+sc.Name, d, sc)
	}
	r.mu.Lock()
	r.log(cliEvent{E: "end"})
	ev := append([]cliEvent{}, r.events...)
	r.mu.Unlock()
	scancel()
	cli.Close()
	srv.Close()
	return ev
}

// wrongTypeMatrix (C12): every Session call answered with every well-formed reply of another
// type (right tag) must return an error to the caller.
func wrongTypeMatrix(res *hx.Result) int {
	cli, srv := gconn.Pair(0)
	raw := p9p.NewChannel(srv, p9p.DefaultMSize)
	bg := context.Background()
	replies := []p9p.Message{p9p.MessageRversion{MSize: 1, Version: "9P2000"}, p9p.MessageRauth{}, p9p.MessageRattach{}, p9p.MessageRflush{},
		p9p.MessageRwalk{}, p9p.MessageRopen{}, p9p.MessageRcreate{}, p9p.MessageRread{Data: []byte("x")}, p9p.MessageRwrite{Count: 1},
		p9p.MessageRclunk{}, p9p.MessageRremove{}, p9p.MessageRstat{}, p9p.MessageRwstat{}, p9p.MessageTclunk{Fid: 1}}
	var mu sync.Mutex
	next := p9p.Message(p9p.MessageRclunk{})
	go func() {
		var tv p9p.Fcall
		if raw.ReadFcall(bg, &tv) != nil {
			return
		}
		raw.WriteFcall(bg, &p9p.Fcall{Type: p9p.Rversion, Tag: p9p.NOTAG, Message: p9p.MessageRversion{MSize: p9p.DefaultMSize, Version: "9P2000"}})
		for {
			var fc p9p.Fcall
			if raw.ReadFcall(bg, &fc) != nil {
				return
			}
			mu.Lock()
			m := next
			mu.Unlock()
			raw.WriteFcall(bg, &p9p.Fcall{Type: m.Type(), Tag: fc.Tag, Message: m})
		}
	}()
	sess, err := p9p.CSession(bg, cli)
	if err != nil {
		res.Violate("harness", "harness:wrongtype-session", err.Error(), nil)
		return 0
	}
	defer cli.Close()
	type call struct {
		name  string
		right p9p.FcallType
		f     func(ctx context.Context) error
	}
	calls := []call{
		{"Auth", p9p.Rauth, func(c context.Context) error { _, e := sess.Auth(c, 1, "u", "a"); return e }},
		{"Attach", p9p.Rattach, func(c context.Context) error { _, e := sess.Attach(c, 1, p9p.NOFID, "u", "a"); return e }},
		{"Clunk", p9p.Rclunk, func(c context.Context) error { return sess.Clunk(c, 1) }},
		{"Remove", p9p.Rremove, func(c context.Context) error { return sess.Remove(c, 1) }},
		{"Walk", p9p.Rwalk, func(c context.Context) error { _, e := sess.Walk(c, 1, 2, "a"); return e }},
		{"Read", p9p.Rread, func(c context.Context) error { _, e := sess.Read(c, 1, make([]byte, 8), 0); return e }},
		{"Write", p9p.Rwrite, func(c context.Context) error { _, e := sess.Write(c, 1, []byte("x"), 0); return e }},
		{"Open", p9p.Ropen, func(c context.Context) error { _, _, e := sess.Open(c, 1, p9p.OREAD); return e }},
		{"Create", p9p.Rcreate, func(c context.Context) error { _, _, e := sess.Create(c, 1, "n", 0644, p9p.OREAD); return e }},
		{"Stat", p9p.Rstat, func(c context.Context) error { _, e := sess.Stat(c, 1); return e }},
		{"WStat", p9p.Rwstat, func(c context.Context) error { return sess.WStat(c, 1, p9p.Dir{}) }},
	}
	n := 0
	for _, c := range calls {
		for _, m := range replies {
			if m.Type() == c.right {
				continue
			}
			mu.Lock()
			next = m
			mu.Unlock()
			ctx, cancel := context.WithTimeout(bg, 3*time.Second)
			err := c.f(ctx)
			cancel()
			n++
			if err == nil {
				res.Violate("C12", "wrong-typed-reply-accepted:"+c.name, fmt.Sprintf("%s answered with a %v reply (right tag) returned success", c.name, m.Type()),
					map[string]interface{}{"engine": "client", "call": c.name, "reply": fmt.Sprint(m.Type())})
			}
		}
	}
	return n
}

// oversizedReplies (C12): well-formed replies of the right type whose content is more than was asked for
// (an Rread carrying more data than the Tread's count, yet within msize).  The client must not crash - neither
// in Session.Read (which may not report more bytes than the caller's buffer holds) nor in its own users of
// Read (the directory reader of CFileSys slices its buffer by the count returned).
func oversizedReplies(res *hx.Result) int {
	n := 0
	for _, extra := range []int{1, 7, 300, 4000} {
		cli, srv := gconn.Pair(0)
		raw := p9p.NewChannel(srv, p9p.DefaultMSize)
		bg := context.Background()
		go func() {
			var tv p9p.Fcall
			if raw.ReadFcall(bg, &tv) != nil {
				return
			}
			raw.WriteFcall(bg, &p9p.Fcall{Type: p9p.Rversion, Tag: p9p.NOTAG, Message: p9p.MessageRversion{MSize: p9p.DefaultMSize, Version: "9P2000"}})
			for {
				var fc p9p.Fcall
				if raw.ReadFcall(bg, &fc) != nil {
					return
				}
				var m p9p.Message
				switch v := fc.Message.(type) {
				case p9p.MessageTread:
					d := make([]byte, int(v.Count)+extra)
					for i := range d {
						d[i] = byte(i)
					}
					m = p9p.MessageRread{Data: d}
				case p9p.MessageTattach:
					m = p9p.MessageRattach{Qid: p9p.Qid{Type: p9p.QTDIR, Path: 1}}
				case p9p.MessageTwalk:
					m = p9p.MessageRwalk{Qids: make([]p9p.Qid, len(v.Wnames))}
				case p9p.MessageTopen:
					m = p9p.MessageRopen{Qid: p9p.Qid{Type: p9p.QTDIR, Path: 1}}
				case p9p.MessageTclunk:
					m = p9p.MessageRclunk{}
				default:
					m = p9p.MessageRerror{Ename: "no"}
				}
				raw.WriteFcall(bg, &p9p.Fcall{Type: m.Type(), Tag: fc.Tag, Message: m})
			}
		}()
		sess, err := p9p.CSession(bg, cli)
		if err != nil {
			res.Violate("harness", "harness:oversized-session", err.Error(), nil)
			cli.Close()
			continue
		}
		rep := map[string]interface{}{"engine": "client", "oversized_rread_extra_bytes": extra}
		for _, want := range []int{0, 1, 16, 64} {
			n++
			p := make([]byte, want)
			var k int
			ctx, cancel := context.WithTimeout(bg, 3*time.Second)
			ok, dump := hx.RunTimed(4*time.Second, func() { k, err = sess.Read(ctx, 5, p, 0) })
			cancel()
			if !ok {
				res.Violate("C12", "oversized-rread:read-crashes-or-hangs", fmt.Sprintf("Read into a %d byte buffer, answered with an Rread of %d bytes: %s", want, want+extra, hx.Trunc(dump, 1000)), rep)
			} else if k > want {
				res.Violate("C12", "oversized-rread:count-exceeds-buffer", fmt.Sprintf("Read into a %d byte buffer, answered with an Rread of %d bytes, reports n=%d (err %v): the caller slicing p[:n] crashes", want, want+extra, k, err), rep)
			}
		}
		// the library's own consumer: listing a directory through CFileSys
		n++
		ok, dump := hx.RunTimed(6*time.Second, func() {
			ctx, cancel := context.WithTimeout(bg, 4*time.Second)
			defer cancel()
			fsys := p9p.CFileSys(sess)
			root, err := fsys.Attach(ctx, "u", "/", nil)
			if err != nil {
				return
			}
			next, err := root.OpenDir(ctx)
			if err != nil {
				return
			}
			for i := 0; i < 3; i++ {
				if _, err := next(ctx); err != nil {
					return
				}
			}
		})
		if !ok && strings.HasPrefix(dump, "PANIC:") {
			res.Violate("C12", "oversized-rread:listing-panics", fmt.Sprintf("listing a directory through CFileSys, every Tread answered with %d bytes more than asked for: %s", extra, hx.Trunc(dump, 1200)), rep)
		}
		cli.Close()
	}
	return n
}

// cliPeer is a scripted raw peer: it answers the version handshake and then hands every request it reads to onReq.
type cliPeer struct {
	cli, srv *gconn.Conn
	raw      p9p.Channel
	hold     chan struct{} // while non-nil and open, the peer does not read requests
	mu       sync.Mutex
	reqs     []*p9p.Fcall
	cond     *sync.Cond
}

func newCliPeer(rmsize uint32, rversion string, capacity int) *cliPeer {
	return newCliPeerAsym(rmsize, rversion, capacity, capacity)
}

func newCliPeerAsym(rmsize uint32, rversion string, capC2S, capS2C int) *cliPeer {
	cli, srv := gconn.PairAsym(capC2S, capS2C)
	p := &cliPeer{cli: cli, srv: srv, raw: p9p.NewChannel(srv, 1<<20)}
	p.cond = sync.NewCond(&p.mu)
	bg := context.Background()
	go func() {
		var tv p9p.Fcall
		if p.raw.ReadFcall(bg, &tv) != nil {
			return
		}
		p.raw.WriteFcall(bg, &p9p.Fcall{Type: p9p.Rversion, Tag: p9p.NOTAG, Message: p9p.MessageRversion{MSize: rmsize, Version: rversion}})
		for {
			p.mu.Lock()
			h := p.hold
			p.mu.Unlock()
			if h != nil {
				<-h
			}
			fc := new(p9p.Fcall)
			if p.raw.ReadFcall(bg, fc) != nil {
				return
			}
			p.mu.Lock()
			p.reqs = append(p.reqs, fc)
			p.cond.Broadcast()
			p.mu.Unlock()
		}
	}()
	return p
}

// waitReq waits (bounded) for the request whose Tstat names fid.
func (p *cliPeer) waitReq(fid p9p.Fid, d time.Duration) *p9p.Fcall {
	deadline := time.Now().Add(d)
	t := time.AfterFunc(d+time.Millisecond, func() { p.mu.Lock(); p.cond.Broadcast(); p.mu.Unlock() })
	defer t.Stop()
	p.mu.Lock()
	defer p.mu.Unlock()
	for {
		for _, r := range p.reqs {
			if m, ok := r.Message.(p9p.MessageTstat); ok && m.Fid == fid {
				return r
			}
		}
		if !time.Now().Before(deadline) {
			return nil
		}
		p.cond.Wait()
	}
}

func frameOfFcall(fc *p9p.Fcall) []byte {
	b, _ := p9p.NewCodec().Marshal(fc)
	out := make([]byte, 4, 4+len(b))
	n := uint32(len(b) + 4)
	out[0], out[1], out[2], out[3] = byte(n), byte(n>>8), byte(n>>16), byte(n>>24)
	return append(out, b...)
}

// splitReplyAcrossDeadline (C05, with ConnDeadline.tla's reading of the deadline registers): call A waits for its
// reply; call B, issued later with a short deadline, is abandoned by its caller; A's reply frame arrives in two
// pieces with B's deadline passing in between.  A deadline belongs to the call that set it: A must still get the
// reply the peer sent for its tag.
func splitReplyAcrossDeadline(res *hx.Result) int {
	n := 0
	bg := context.Background()
	for _, split := range []int{1, 4, 7, 12} {
		n++
		p := newCliPeer(p9p.DefaultMSize, "9P2000", 0)
		sess, err := p9p.CSession(bg, p.cli)
		if err != nil {
			res.Violate("harness", "harness:split-session", err.Error(), nil)
			continue
		}
		rep := map[string]interface{}{"engine": "client", "split_reply_at_byte": split}
		type ret struct {
			d   p9p.Dir
			err error
		}
		aDone, bDone := make(chan ret, 1), make(chan ret, 1)
		go func() { d, err := sess.Stat(bg, 11); aDone <- ret{d, err} }()
		ra := p.waitReq(11, 3*time.Second)
		ctxB, cancelB := context.WithTimeout(bg, 150*time.Millisecond)
		go func() { d, err := sess.Stat(ctxB, 22); bDone <- ret{d, err} }()
		rb := p.waitReq(22, 3*time.Second)
		if ra == nil || rb == nil {
			res.Add("steps_skipped", 1)
			cancelB()
			p.cli.Close()
			continue
		}
		fr := frameOfFcall(&p9p.Fcall{Type: p9p.Rstat, Tag: ra.Tag, Message: p9p.MessageRstat{Stat: p9p.Dir{Name: "r11"}}})
		p.srv.Write(fr[:split])
		select { // B gives up at its deadline
		case <-bDone:
		case <-time.After(3 * time.Second):
		}
		time.Sleep(150 * time.Millisecond)
		p.srv.Write(fr[split:])
		select {
		case a := <-aDone:
			if a.err != nil || a.d.Name != "r11" {
				res.Violate("C05", "reply-split-across-another-calls-deadline", fmt.Sprintf("call A's reply arrived in two pieces (%d + %d bytes) while another call's 150 ms deadline passed in between; A returned %q, %v instead of the reply sent for its tag", split, len(fr)-split, a.d.Name, a.err), rep)
			}
		case <-time.After(4 * time.Second):
			res.Violate("C05", "reply-split-across-another-calls-deadline", fmt.Sprintf("call A's reply arrived in two pieces (%d + %d bytes) while another call's 150 ms deadline passed in between; A never returned", split, len(fr)-split), rep)
		}
		cancelB()
		p.cli.Close()
	}
	return n
}

// repliesThenClose (C05): ten calls wait for their replies; an eleventh is stuck in its request write (the peer has
// stopped reading requests), so the handle loop is behind the reader; the peer writes the ten replies and closes.
// Every reply that was sent belongs to its call: the ten calls return with their own replies.
func repliesThenClose(res *hx.Result) int {
	bg := context.Background()
	n := 0
	for round := 0; round < 4; round++ {
		n++
		p := newCliPeerAsym(p9p.DefaultMSize, "9P2000", 8, 0)
		sess, err := p9p.CSession(bg, p.cli)
		if err != nil {
			res.Violate("harness", "harness:rtc-session", err.Error(), nil)
			continue
		}
		type ret struct {
			i   int
			d   p9p.Dir
			err error
		}
		rets := make(chan ret, 16)
		for i := 0; i < 10; i++ {
			go func(i int) { d, err := sess.Stat(bg, p9p.Fid(200+i)); rets <- ret{i, d, err} }(i)
		}
		reqs := make([]*p9p.Fcall, 10)
		okAll := true
		for i := 0; i < 10; i++ {
			if reqs[i] = p.waitReq(p9p.Fid(200+i), 3*time.Second); reqs[i] == nil {
				okAll = false
			}
		}
		if !okAll {
			res.Add("steps_skipped", 1)
			p.cli.Close()
			continue
		}
		hold := make(chan struct{})
		p.mu.Lock()
		p.hold = hold
		p.mu.Unlock()
		// the read the peer is already in takes one more request; the one after that blocks in its write
		go sess.Stat(bg, 298)
		time.Sleep(5 * time.Millisecond)
		go sess.Stat(bg, 299)
		time.Sleep(20 * time.Millisecond) // every one of the ten callers is waiting for its reply by now
		for i := 9; i >= 0; i-- {
			p.srv.Write(frameOfFcall(&p9p.Fcall{Type: p9p.Rstat, Tag: reqs[i].Tag, Message: p9p.MessageRstat{Stat: p9p.Dir{Name: fmt.Sprintf("r%d", 200+i)}}}))
		}
		p.srv.Close()
		close(hold)
		bad := ""
		for k := 0; k < 10; k++ {
			select {
			case r := <-rets:
				if r.err != nil || r.d.Name != fmt.Sprintf("r%d", 200+r.i) {
					bad = fmt.Sprintf("call %d returned %q, %v", 200+r.i, r.d.Name, r.err)
				}
			case <-time.After(4 * time.Second):
				bad = "a call did not return within 4 s"
			}
			if bad != "" {
				break
			}
		}
		if bad != "" {
			res.Violate("C05", "reply-sent-before-close-not-delivered", "ten calls were waiting for their replies (an eleventh was stuck in its request write: the peer had stopped reading requests); the peer wrote the ten replies, then closed the connection: "+bad,
				map[string]interface{}{"engine": "client", "replies_then_close": round})
		}
		p.cli.Close()
	}
	return n
}

// hostileRversion (C12): whatever well-formed Rversion the peer sends - msize 0..6, huge, odd version strings -
// setting up the client session returns (with a session or an error) and does not crash.
func hostileRversion(res *hx.Result) int {
	n := 0
	bg := context.Background()
	for _, ms := range []uint32{0, 1, 2, 3, 4, 5, 6, 7, 10, 11, 18, 19, 23, 24, 1 << 20, 1<<31 - 1, 1 << 31, 0xFFFFFFFF} {
		for _, v := range []string{"9P2000", "unknown", "", "9P2000.L"} {
			n++
			p := newCliPeer(ms, v, 0)
			ctx, cancel := context.WithTimeout(bg, 3*time.Second)
			var sess p9p.Session
			var err error
			ok, dump := hx.RunTimed(5*time.Second, func() { sess, err = p9p.CSession(ctx, p.cli) })
			rep := map[string]interface{}{"engine": "client", "rversion_msize": ms, "rversion_version": v}
			if !ok {
				res.Violate("C12", "rversion-crashes-client", fmt.Sprintf("the peer answers Tversion with Rversion(msize %d, %q): setting up the session %s", ms, v, hx.Trunc(dump, 1200)), rep)
			} else if err == nil && sess != nil {
				// a session was set up: a call on it returns (the peer answers nothing further)
				c2, cancel2 := context.WithTimeout(bg, 200*time.Millisecond)
				ok2, dump2 := hx.RunTimed(3*time.Second, func() { sess.Stat(c2, 1) })
				cancel2()
				if !ok2 {
					res.Violate("C12", "rversion-crashes-client", fmt.Sprintf("after Rversion(msize %d, %q) a call on the session %s", ms, v, hx.Trunc(dump2, 1200)), rep)
				}
			}
			cancel()
			p.cli.Close()
		}
	}
	return n
}

// stalledPeerThenFault (C12): the peer stops reading, so the first call blocks in its write and the later ones
// queue behind it; then the connection closes / the session context is cancelled (and the peer reads on).
// Every pending call returns an error in bounded time.
func stalledPeerThenFault(res *hx.Result) int {
	n := 0
	bg := context.Background()
	for _, fk := range []string{"close", "sessionctx", "own-contexts", "close", "sessionctx", "own-contexts"} {
		n++
		p := newCliPeer(p9p.DefaultMSize, "9P2000", 1)
		sctx, scancel := context.WithCancel(bg)
		sess, err := p9p.CSession(sctx, p.cli)
		if err != nil {
			res.Violate("harness", "harness:stalled-session", err.Error(), nil)
			scancel()
			continue
		}
		hold := make(chan struct{})
		p.mu.Lock()
		p.hold = hold
		p.mu.Unlock()
		// one request may still be taken by the read the peer is already in; everything after that stalls
		const N = 30
		var wg sync.WaitGroup
		var mu sync.Mutex
		returned := 0
		callCtx, cancelCalls := context.WithCancel(bg)
		if fk != "own-contexts" {
			callCtx = bg
		}
		for i := 0; i < N; i++ {
			wg.Add(1)
			go func(i int) {
				defer wg.Done()
				sess.Stat(callCtx, p9p.Fid(100+i)) // no deadline of its own
				mu.Lock()
				returned++
				mu.Unlock()
			}(i)
		}
		time.Sleep(30 * time.Millisecond)
		done := make(chan struct{})
		go func() { wg.Wait(); close(done) }()
		if fk == "own-contexts" {
			// the callers give up (their own contexts end) while the peer is still not reading: each call returns
			// promptly, whatever the handle loop is blocked in
			cancelCalls()
			select {
			case <-done:
			case <-time.After(3 * time.Second):
				mu.Lock()
				k := returned
				mu.Unlock()
				gs := hx.GoroutinesWith(hx.Dump(), "p9p.(*transport).send")
				d := fmt.Sprintf("%d calls were pending while the peer had stopped reading; their callers' contexts were cancelled; after 3 s only %d have returned", N, k)
				if len(gs) > 0 {
					d += "\n" + hx.Trunc(gs[0], 1200)
				}
				res.Violate("C12", "cancelled-calls-hang-while-peer-stalled", d, map[string]interface{}{"engine": "client", "stalled_peer_fault": fk})
			}
			close(hold)
			scancel()
			p.cli.Close()
			p.srv.Close()
			<-done
			continue
		}
		if fk == "close" {
			p.cli.Close()
		} else {
			scancel()
		}
		close(hold) // the peer reads on (it sees EOF or stray requests)
		select {
		case <-done:
		case <-time.After(5 * time.Second):
			mu.Lock()
			k := returned
			mu.Unlock()
			gs := hx.GoroutinesWith(hx.Dump(), "p9p.(*transport).send")
			d := fmt.Sprintf("%d calls were pending (the peer had stopped reading: one call blocked in its write, the others queued for dispatch) when the %s struck; after 5 s only %d have returned", N, map[string]string{"close": "connection was closed", "sessionctx": "session context was cancelled"}[fk], k)
			if len(gs) > 0 {
				d += "\n" + hx.Trunc(gs[0], 1200)
			}
			res.Violate("C12", "queued-calls-hang-after-fault:"+fk, d, map[string]interface{}{"engine": "client", "stalled_peer_fault": fk})
		}
		cancelCalls()
		scancel()
		p.cli.Close()
		p.srv.Close()
	}
	return n
}

func Client(args []string) {
	fl := flag.NewFlagSet("client", flag.ExitOnError)
	scPath := fl.String("scenarios", "", "ndjson file of scenarios")
	out := fl.String("out", "", "result file")
	tracePath := fl.String("trace", "", "trace output")
	matrix := fl.Bool("wrongtype", false, "also run the wrong-typed-reply matrix (C12)")
	fl.Parse(args)
	res := hx.NewResult()
	defer res.Write(*out)
	if *matrix {
		res.Set("wrongtype_cases", wrongTypeMatrix(res))
		res.Set("oversized_reply_cases", oversizedReplies(res))
		res.Set("hostile_rversion_cases", hostileRversion(res))
		res.Set("stalled_peer_cases", stalledPeerThenFault(res))
	} else {
		res.Set("split_reply_cases", splitReplyAcrossDeadline(res))
		res.Set("replies_then_close_cases", repliesThenClose(res))
	}
	var scs []cliScenario
	if err := hx.ReadNDJSON(*scPath, func(b []byte) error {
		var s cliScenario
		if err := json.Unmarshal(b, &s); err != nil {
			return err
		}
		scs = append(scs, s)
		return nil
	}); err != nil {
		res.Set("error", err.Error())
		return
	}
	type job struct {
		sc cliScenario
		n  int
	}
	var jobs []job
	n := 0
	for _, s := range scs {
		rep := s.Repeat
		if rep == 0 {
			rep = 1
		}
		for k := 0; k < rep; k++ {
			n++
			jobs = append(jobs, job{s, n})
		}
	}
	traces := make([][]cliEvent, len(jobs))
	var wg sync.WaitGroup
	sem := make(chan struct{}, 32)
	for idx, j := range jobs {
		wg.Add(1)
		sem <- struct{}{}
		go func(idx int, j job) {
			defer wg.Done()
			defer func() { <-sem }()
			traces[idx] = runCliScenario(j.sc, j.n, res)
		}(idx, j)
	}
	wg.Wait()
	f, err := os.Create(*tracePath)
	if err != nil {
		res.Set("error", err.Error())
		return
	}
	defer f.Close()
	enc := json.NewEncoder(f)
	distinct := map[string]bool{}
	nev := 0
	names := map[int]string{}
	for i, tr := range traces {
		if tr == nil {
			continue
		}
		names[jobs[i].n] = jobs[i].sc.Name
		sig := ""
		for k, e := range tr {
			enc.Encode(e)
			nev++
			if k < 400 {
				sig += fmt.Sprint(e.E, e.I, e.Kind, e.Res, ";")
			}
		}
		enc.Encode(cliEvent{E: "reset", Run: jobs[i].n})
		distinct[sig] = true
		if i < 3 && len(tr) < 60 {
			res.Sample(map[string]interface{}{"scenario": jobs[i].sc.Name, "trace": tr})
		}
	}
	res.Evaluations = len(jobs)
	res.Distinct = len(distinct)
	res.Set("events", nev)
	res.Set("run_names", names)
}
