package engines

// Engine "path" (C16): every (directory, name list) input enumerated by TLC from
// specs/path/PathRes.tla, with the spec's expected result, against the real
// p9p.ValidPath / NormalizePath / WalkName / CreateName.

import (
	"encoding/json"
	"flag"
	"fmt"
	"reflect"
	"strings"

	p9p "github.com/frobnitzem/go-p9p"
	"verif/harness/hx"
)

type pathLine struct {
	T     string   `json:"t"`
	Dir   []string `json:"dir"`
	Names []string `json:"names"`
	Name  string   `json:"name"`
	Valid int      `json:"valid"`
	Norm  struct {
		Steps []string `json:"steps"`
		Bsp   int      `json:"bsp"`
	} `json:"norm"`
	R struct {
		OK    bool     `json:"ok"`
		Path  []string `json:"path"`
		IsAbs bool     `json:"isabs"`
		Steps []string `json:"steps"`
	} `json:"r"`
	Abs   bool     `json:"abs"`
	Comps []string `json:"comps"`
}

func canonPath(c []string) string { return "/" + strings.Join(c, "/") }

func forEachLine(lines [][]byte, order []int, f func([]byte) error) error {
	for _, i := range order {
		if err := f(lines[i]); err != nil {
			return err
		}
	}
	return nil
}

func PathEngine(args []string) {
	fl := flag.NewFlagSet("path", flag.ExitOnError)
	vec := fl.String("vectors", "", "ndjson from PathRes.tla")
	out := fl.String("out", "", "result file")
	fl.Parse(args)
	res := hx.NewResult()
	defer res.Write(*out)
	n := 0
	// the helpers are pure functions: the answer for an input may not depend on what was asked before.  All vectors
	// are therefore evaluated twice, the second time in reverse order.
	var lines [][]byte
	err := hx.ReadNDJSON(*vec, func(b []byte) error {
		lines = append(lines, append([]byte{}, b...))
		return nil
	})
	if err != nil {
		res.Set("error", err.Error())
		return
	}
	order := make([]int, 0, 2*len(lines))
	for i := range lines {
		order = append(order, i)
	}
	for i := len(lines) - 1; i >= 0; i-- {
		order = append(order, i)
	}
	err = forEachLine(lines, order, func(b []byte) error {
		var l pathLine
		if err := json.Unmarshal(b, &l); err != nil {
			return err
		}
		if l.Names == nil {
			l.Names = []string{}
		}
		n++
		rep := map[string]interface{}{"engine": "path", "input": json.RawMessage(append([]byte{}, b...))}
		var panicked string
		func() {
			defer func() {
				if p := recover(); p != nil {
					panicked = fmt.Sprint(p)
				}
			}()
			switch l.T {
			case "list":
				if v := p9p.ValidPath(l.Names); v != l.Valid {
					res.Violate("C16", "validpath", fmt.Sprintf("ValidPath(%q) = %d, specification says %d", l.Names, v, l.Valid), rep)
				}
				in := append([]string{}, l.Names...)
				steps, bsp := p9p.NormalizePath(in)
				if !reflect.DeepEqual(in, l.Names) {
					res.Violate("C16", "normalize-modifies-input", fmt.Sprintf("NormalizePath modified its argument %q -> %q", l.Names, in), rep)
				}
				if bsp != l.Norm.Bsp {
					res.Violate("C16", "normalize-count", fmt.Sprintf("NormalizePath(%q) counts %d leading '..', specification says %d", l.Names, bsp, l.Norm.Bsp), rep)
				} else if bsp >= 0 {
					if steps == nil {
						steps = []string{}
					}
					want := l.Norm.Steps
					if want == nil {
						want = []string{}
					}
					if !reflect.DeepEqual(steps, want) {
						res.Violate("C16", "normalize-steps", fmt.Sprintf("NormalizePath(%q) = %q, specification says %q", l.Names, steps, want), rep)
					} else {
						// idempotence on the real function
						s2, b2 := p9p.NormalizePath(append([]string{}, steps...))
						if s2 == nil {
							s2 = []string{}
						}
						if b2 != bsp || !reflect.DeepEqual(s2, steps) {
							res.Violate("C16", "normalize-not-idempotent", fmt.Sprintf("NormalizePath(NormalizePath(%q)) = %q,%d", l.Names, s2, b2), rep)
						}
					}
				}
			case "walk":
				dir := canonPath(l.Dir)
				got, err := p9p.WalkName(dir, l.Names...)
				if (err == nil) != l.R.OK {
					res.Violate("C16", "walkname-accept", fmt.Sprintf("WalkName(%q, %q): err=%v, specification accepts=%v", dir, l.Names, err, l.R.OK), rep)
				} else if err == nil && got != canonPath(l.R.Path) {
					res.Violate("C16", "walkname-result", fmt.Sprintf("WalkName(%q, %q) = %q, stepwise resolution gives %q", dir, l.Names, got, canonPath(l.R.Path)), rep)
				}
			case "towalk":
				ps := strings.Join(l.Comps, "/")
				if l.Abs {
					ps = "/" + ps
				}
				isAbs, steps, err := p9p.ToWalk(nil, ps)
				switch {
				case isAbs != l.R.IsAbs:
					res.Violate("C16", "towalk-isabs", fmt.Sprintf("ToWalk(%q): isAbs=%v, the path %s with \"/\"", ps, isAbs, map[bool]string{true: "starts", false: "does not start"}[l.R.IsAbs]), rep)
				case (err == nil) != l.R.OK:
					res.Violate("C16", "towalk-accept", fmt.Sprintf("ToWalk(%q): err=%v, specification accepts=%v", ps, err, l.R.OK), rep)
				case err == nil && !(len(steps) == 0 && len(l.R.Steps) == 0) && !reflect.DeepEqual(steps, l.R.Steps):
					res.Violate("C16", "towalk-steps", fmt.Sprintf("ToWalk(%q) = %q, normalisation of its components gives %q", ps, steps, l.R.Steps), rep)
				}
			case "create":
				dir := canonPath(l.Dir)
				got, err := p9p.CreateName(dir, l.Name)
				if (err == nil) != l.R.OK {
					res.Violate("C16", "createname-accept", fmt.Sprintf("CreateName(%q, %q): err=%v, specification accepts=%v", dir, l.Name, err, l.R.OK), rep)
				} else if err == nil && got != canonPath(l.R.Path) {
					res.Violate("C16", "createname-result", fmt.Sprintf("CreateName(%q, %q) = %q, expected %q", dir, l.Name, got, canonPath(l.R.Path)), rep)
				}
			}
		}()
		if panicked != "" {
			res.Violate("C16", "panic:"+l.T, "helper panicked: "+panicked, rep)
		}
		if n%5003 == 0 {
			var v interface{}
			json.Unmarshal(b, &v)
			res.Sample(v)
		}
		return nil
	})
	if err != nil {
		res.Set("error", err.Error())
	}
	res.Evaluations = n
	res.Distinct = n / 2
}
