package engines

// Engine "serve": runs environment scenarios (derived from TLC behaviours of
// specs/server/ServeImpl.tla) against the real p9p.ServeConn with a scripted,
// gated Handler over an in-memory connection, and records the externally
// observable events of every run.  The recorded traces are validated by TLC
// against ServeContract (specs/server/ServeTrace.tla).  Hangs of ServeConn
// after a fault are judged here (bounded wait + goroutine dump).

import (
	"context"
	"encoding/json"
	"flag"
	"fmt"
	"os"
	"reflect"
	"strings"
	"sync"
	"time"

	p9p "github.com/frobnitzem/go-p9p"
	"verif/harness/gconn"
	"verif/harness/hx"
)

// Step is one environment step of a scenario.
type srvStep struct {
	A    string `json:"a"`              // send | await_enter | release | await_reply | fault
	I    int    `json:"i,omitempty"`    // request id
	Tag  int    `json:"tag,omitempty"`  // tag of a send
	Kind string `json:"kind,omitempty"` // send: req | flush ; fault: read-eof | read-err | read-mid | write | ctx
	Old  int    `json:"old,omitempty"`  // oldtag of a flush
	K    int    `json:"k,omitempty"`    // await_reply: total number of replies to wait for
}

type srvScenario struct {
	Name       string    `json:"name"`
	Steps      []srvStep `json:"steps"`
	// Paced: the client reads a reply only when the scenario says so (await_reply / must_reply); until then the
	// server's writer stays blocked in its write, as with a slow reader (the model's wr.write step is the read)
	Paced      bool      `json:"paced,omitempty"`
	BlockWrite int       `json:"block_write,omitempty"` // index (1-based) of the reply write that parks until the write fault
	Repeat     int       `json:"repeat,omitempty"`
}

// Event is one recorded observable event; all fields always present (TLC reads uniform records).
type srvEvent struct {
	E     string `json:"e"`
	ID    int    `json:"id"`
	Tag   int    `json:"tag"`
	Kind  string `json:"kind"`
	Old   int    `json:"old"`
	Dup   bool   `json:"dup"`
	Match bool   `json:"match"`
	Src   int    `json:"src"`
	Done  []int  `json:"done"`
	Sc    int    `json:"sc"` // scenario run number (diagnostics)
}

type srvRun struct {
	lastReq map[int]int // tag -> the last ordinary (non-duplicate) request sent on it
	res     *hx.Result
	mu      sync.Mutex
	cond    *sync.Cond
	events  []srvEvent
	sc      int
	sent    map[int]p9p.Message
	gates   map[int]chan struct{}
	ctxs    map[int]context.Context
	entered map[int]bool
	honour  map[int]bool
	faultCh chan struct{}
	nreply  int
	stops   int
	// client view (discipline only)
	cout     map[int]int
	fl       map[int]int
	flOld    map[int]int
	kind     map[int]string
	released map[int]bool
	uniform  bool
	tagOf    map[int]int
	dupPend  map[int]int // tag -> deliberate duplicates sent and not yet answered
}

func (r *srvRun) log(e srvEvent) {
	e.Sc = r.sc
	if e.Done == nil {
		e.Done = []int{}
	}
	r.events = append(r.events, e)
	r.cond.Broadcast()
}

func (r *srvRun) doneSet() []int {
	d := []int{}
	for i, c := range r.ctxs {
		if c.Err() != nil {
			d = append(d, i)
		}
	}
	return d
}

// srvUniform: every request of the run is a Tstat (odd-numbered runs), so that a tag is reused by a
// request of the same kind as its previous user; otherwise kinds rotate with the id.
func srvKind(i int, uniform bool) int {
	if uniform {
		return 1
	}
	// (ordered so that the small ids the model uses meet every kind of request, also those without a payload in
	// their reply: 1 stat, 2 clunk, 3 open, 4 read, 5 remove, 6 create, 7 wstat, 8 walk, 9 write, 10 attach, 0 auth)
	if i < 0 {
		return 0 // (a message the handler could not identify)
	}
	return []int{0, 1, 8, 3, 4, 9, 6, 10, 2, 5, 7}[i%11]
}

// message for request id i: every one carries the id in its fid field
func srvMessage(i int, uniform bool) p9p.Message {
	f := p9p.Fid(i)
	switch srvKind(i, uniform) {
	case 1:
		return p9p.MessageTstat{Fid: f}
	case 2:
		return p9p.MessageTwalk{Fid: f, Newfid: f + 100, Wnames: []string{"a", fmt.Sprint(i)}}
	case 3:
		return p9p.MessageTopen{Fid: f, Mode: p9p.ORDWR}
	case 4:
		return p9p.MessageTread{Fid: f, Offset: uint64(i) << 33, Count: 17}
	case 5:
		// (long enough that a later frame read into the same buffer would overwrite it)
		d := make([]byte, 64)
		for k := range d {
			d[k] = byte(i*31 + k)
		}
		return p9p.MessageTwrite{Fid: f, Offset: 7, Data: d}
	case 6:
		return p9p.MessageTcreate{Fid: f, Name: "n", Perm: 0644, Mode: p9p.OWRITE}
	case 7:
		return p9p.MessageTattach{Fid: f, Afid: p9p.NOFID, Uname: "u", Aname: "a"}
	case 8:
		return p9p.MessageTclunk{Fid: f}
	case 9:
		return p9p.MessageTremove{Fid: f}
	case 10:
		return p9p.MessageTwstat{Fid: f, Stat: p9p.Dir{Name: fmt.Sprint("w", i)}}
	}
	return p9p.MessageTauth{Afid: f, Uname: "u", Aname: "a"}
}

func srvIDOf(m p9p.Message) int {
	switch v := m.(type) {
	case p9p.MessageTstat:
		return int(v.Fid)
	case p9p.MessageTwalk:
		return int(v.Fid)
	case p9p.MessageTopen:
		return int(v.Fid)
	case p9p.MessageTread:
		return int(v.Fid)
	case p9p.MessageTwrite:
		return int(v.Fid)
	case p9p.MessageTcreate:
		return int(v.Fid)
	case p9p.MessageTattach:
		return int(v.Fid)
	case p9p.MessageTauth:
		return int(v.Afid)
	case p9p.MessageTclunk:
		return int(v.Fid)
	case p9p.MessageTremove:
		return int(v.Fid)
	case p9p.MessageTwstat:
		return int(v.Fid)
	}
	return -1
}

// sizes of read results (0: just the id); the second fills the negotiated msize to the last byte
var srvReadSizes = []int{0, p9p.DefaultMSize - 11, p9p.DefaultMSize - 12, p9p.DefaultMSize - 14, 100}

// the result handler i returns: a reply of the matching type carrying i, or an error text for i%3==0
// srvErr: the error handler i returns (every third handler fails): a plain error, a 9p error value, or an error that
// wraps a 9p error - the client must be told the text of the error the handler returned, whatever it wraps
func srvErr(i int) error {
	switch (i / 3) % 3 {
	case 1:
		return p9p.MessageRerror{Ename: fmt.Sprintf("e%d", i)}
	case 2:
		return fmt.Errorf("e%d: %w", i, p9p.MessageRerror{Ename: "inner"})
	}
	return fmt.Errorf("e%d", i)
}

func srvResult(i int, uniform bool, sz int) (p9p.Message, error) {
	if i%3 == 0 {
		return nil, srvErr(i)
	}
	q := p9p.Qid{Path: uint64(i), Version: 9}
	switch srvKind(i, uniform) {
	case 1:
		return p9p.MessageRstat{Stat: p9p.Dir{Name: fmt.Sprintf("r%d", i), Qid: q}}, nil
	case 2:
		return p9p.MessageRwalk{Qids: []p9p.Qid{q}}, nil
	case 3:
		return p9p.MessageRopen{Qid: q, IOUnit: 5}, nil
	case 4:
		// read results of various sizes, up to one that fills the negotiated msize to the last byte
		d := []byte(fmt.Sprintf("r%d ", i))
		n := srvReadSizes[sz%len(srvReadSizes)]
		for k := len(d); k < n; k++ {
			d = append(d, byte(k*7+i))
		}
		return p9p.MessageRread{Data: d}, nil
	case 5:
		return p9p.MessageRwrite{Count: uint32(i)}, nil
	case 6:
		return p9p.MessageRcreate{Qid: q, IOUnit: 5}, nil
	case 7:
		return p9p.MessageRattach{Qid: q}, nil
	case 8:
		return p9p.MessageRclunk{}, nil
	case 9:
		return p9p.MessageRremove{}, nil
	case 10:
		return p9p.MessageRwstat{}, nil
	}
	return p9p.MessageRauth{Qid: q}, nil
}

// classify a reply: kind and the handler id its payload names
func srvClassify(fc *p9p.Fcall) (kind string, src int) {
	switch m := fc.Message.(type) {
	case p9p.MessageRerror:
		switch {
		case m.Ename == "duplicate tag":
			return "dup", 0
		case m.Ename == "unknown tag":
			return "unk", 0
		case strings.HasPrefix(m.Ename, "e"):
			var i int
			if _, err := fmt.Sscanf(m.Ename, "e%d", &i); err == nil {
				// the text must be exactly the text of the error handler i returned
				want := srvErr(i)
				wt := want.Error()
				if me, ok := want.(p9p.MessageRerror); ok {
					wt = me.Ename
				}
				if m.Ename == wt {
					return "err", i
				}
				return "other", i
			}
		}
		return "other", 0
	case p9p.MessageRflush:
		return "rflush", 0
	case p9p.MessageRstat:
		var i int
		fmt.Sscanf(m.Stat.Name, "r%d", &i)
		return srvCheck(i, fc.Message)
	case p9p.MessageRwalk:
		if len(m.Qids) == 1 {
			return srvCheck(int(m.Qids[0].Path), fc.Message)
		}
	case p9p.MessageRopen:
		return srvCheck(int(m.Qid.Path), fc.Message)
	case p9p.MessageRread:
		var i int
		fmt.Sscanf(string(m.Data), "r%d", &i)
		return srvCheck(i, fc.Message)
	case p9p.MessageRwrite:
		return srvCheck(int(m.Count), fc.Message)
	case p9p.MessageRcreate:
		return srvCheck(int(m.Qid.Path), fc.Message)
	case p9p.MessageRattach:
		return srvCheck(int(m.Qid.Path), fc.Message)
	case p9p.MessageRauth:
		return srvCheck(int(m.Qid.Path), fc.Message)
	case p9p.MessageRclunk, p9p.MessageRremove, p9p.MessageRwstat:
		return "res", -1 // no payload: attributed to the request outstanding on the tag (and its kind checked) by the reader
	}
	return "other", 0
}

// the reply must be exactly what handler i returned
func srvCheck(i int, got p9p.Message) (string, int) {
	for _, uniform := range []bool{false, true} {
		for sz := range srvReadSizes {
			want, err := srvResult(i, uniform, sz)
			if err == nil && i > 0 && reflect.DeepEqual(normMsg(want), normMsg(got)) {
				return "res", i
			}
			if _, isRead := want.(p9p.MessageRread); !isRead {
				break
			}
		}
	}
	return "other", i
}

func normMsg(m p9p.Message) p9p.Message {
	if s, ok := m.(p9p.MessageRstat); ok {
		s.Stat.AccessTime = time.Time{}
		s.Stat.ModTime = time.Time{}
		return s
	}
	if w, ok := m.(p9p.MessageTwstat); ok {
		w.Stat.AccessTime = time.Time{}
		w.Stat.ModTime = time.Time{}
		return w
	}
	return m
}

type srvHandler struct{ r *srvRun }

func (h srvHandler) Handle(ctx context.Context, msg p9p.Message) (p9p.Message, error) {
	r := h.r
	id := srvIDOf(msg)
	r.mu.Lock()
	want, known := r.sent[id]
	r.entered[id] = true
	r.ctxs[id] = ctx
	gate := r.gates[id]
	if gate == nil {
		gate = make(chan struct{})
		r.gates[id] = gate
	}
	honour := r.honour[id]
	r.log(srvEvent{E: "enter", ID: id, Match: known && reflect.DeepEqual(normMsg(want), normMsg(msg))})
	r.mu.Unlock()
	var done <-chan struct{}
	if honour {
		done = ctx.Done()
	}
	select {
	case <-gate:
	case <-done:
	case <-r.faultCh: // after an injected fault every handler returns once its context is cancelled
		select {
		case <-gate:
		case <-ctx.Done():
		}
	}
	res, err := srvResult(id, r.uniform, r.sc/2)
	k := "res"
	if err != nil {
		k = "err"
	}
	r.mu.Lock()
	// the message belongs to the handler for as long as it runs: it must still be what was sent
	if known && !reflect.DeepEqual(normMsg(want), normMsg(msg)) && r.res != nil {
		r.res.Violate("C06", "handler-message-changed-while-held", fmt.Sprintf("the message handed to the handler of request %d was %+v when it was invoked and reads %+v when it returns (later frames were received meanwhile)", id, want, msg),
			map[string]interface{}{"engine": "serve", "scenario_run": r.sc})
	}
	r.log(srvEvent{E: "exit", ID: id, Kind: k})
	r.mu.Unlock()
	return res, err
}

func (h srvHandler) Stop(err error) error {
	h.r.mu.Lock()
	h.r.stops++
	h.r.log(srvEvent{E: "stop"})
	h.r.mu.Unlock()
	return err
}

// waitFor waits (bounded) until pred holds; must be called with r.mu held.
func (r *srvRun) waitFor(d time.Duration, pred func() bool) bool {
	deadline := time.Now().Add(d)
	t := time.AfterFunc(d+time.Millisecond, func() { r.mu.Lock(); r.cond.Broadcast(); r.mu.Unlock() })
	defer t.Stop()
	for !pred() {
		if !time.Now().Before(deadline) {
			return false
		}
		r.cond.Wait()
	}
	return true
}

// runScenario executes one scenario; returns the events and a hang description (if ServeConn did not return).
func runSrvScenario(sc srvScenario, scn int, res *hx.Result) []srvEvent {
	r := &srvRun{res: res, sc: scn, sent: map[int]p9p.Message{}, gates: map[int]chan struct{}{}, ctxs: map[int]context.Context{},
		entered: map[int]bool{}, honour: map[int]bool{}, faultCh: make(chan struct{}),
		cout: map[int]int{}, fl: map[int]int{}, flOld: map[int]int{}, kind: map[int]string{}, released: map[int]bool{},
		tagOf: map[int]int{}, dupPend: map[int]int{}, lastReq: map[int]int{}}
	r.cond = sync.NewCond(&r.mu)
	r.uniform = scn%2 == 1
	cli, srv := gconn.Pair(0)
	if sc.Paced {
		// replies back up in the server's writer until the client reads them (one byte of pipe), requests flow freely
		cli, srv = gconn.PairAsym(0, 1)
	}
	ctx, cancel := context.WithCancel(context.Background())
	defer cancel()

	// parked write: the BlockWrite-th reply write waits for the write fault, then fails
	writeFault := make(chan struct{})
	var wfOnce sync.Once
	if sc.BlockWrite > 0 {
		srv.BeforeWrite = func(n int, p []byte) error {
			if n-1 == sc.BlockWrite { // write #1 is the Rversion
				<-writeFault
				return gconn.ErrInjected
			}
			if n-1 > sc.BlockWrite {
				return gconn.ErrInjected
			}
			return nil
		}
	}

	serveDone := make(chan struct{})
	go func() {
		p9p.ServeConn(ctx, srv, srvHandler{r})
		r.mu.Lock()
		r.log(srvEvent{E: "ret", Done: r.doneSet()})
		r.mu.Unlock()
		close(serveDone)
	}()

	ch := p9p.NewChannel(cli, p9p.DefaultMSize)
	cctx := context.Background()
	// version handshake
	if err := ch.WriteFcall(cctx, &p9p.Fcall{Type: p9p.Tversion, Tag: p9p.NOTAG, Message: p9p.MessageTversion{MSize: p9p.DefaultMSize, Version: "9P2000"}}); err != nil {
		res.Violate("harness", "harness:version-write", err.Error(), nil)
		return nil
	}
	var rv p9p.Fcall
	if err := ch.ReadFcall(cctx, &rv); err != nil || rv.Type != p9p.Rversion {
		res.Violate("harness", "harness:version-read", fmt.Sprint(err, rv.Type), nil)
		return nil
	}

	// reply reader
	readerDone := make(chan struct{})
	readTok := make(chan struct{}, 4096)
	freeRun := make(chan struct{})
	var freeOnce sync.Once
	goFree := func() { freeOnce.Do(func() { close(freeRun) }) }
	tokens := 0
	allowReplies := func(k int) {
		for tokens < k {
			tokens++
			readTok <- struct{}{}
		}
	}
	if !sc.Paced {
		goFree()
	}
	go func() {
		defer close(readerDone)
		for {
			select {
			case <-readTok:
			case <-freeRun:
			}
			fc := new(p9p.Fcall)
			if err := ch.ReadFcall(cctx, fc); err != nil {
				return
			}
			kind, src := srvClassify(fc)
			t := int(fc.Tag)
			r.mu.Lock()
			if src == -1 {
				// a reply without payload: it answers the request outstanding on its tag, if that is of the matching kind
				// (or, if that was flushed meanwhile, the last ordinary request the client sent on the tag: the
				// contract then says whether that reply may still come)
				src = r.cout[t]
				if src == 0 || r.kind[src] != "req" {
					src = r.lastReq[t]
				}
				want, err := srvResult(src, r.uniform, 0)
				if src == 0 || err != nil || want.Type() != fc.Type {
					kind = "other"
				}
			}
			// client view
			switch kind {
			case "dup":
				if r.dupPend[t] > 0 {
					r.dupPend[t]--
				}
			case "res", "err", "other":
				r.cout[t] = 0
			case "rflush", "unk":
				f := r.cout[t]
				r.cout[t] = 0
				if v := r.fl[f]; f != 0 && v != 0 && r.cout[r.flOld[f]] == v {
					r.cout[r.flOld[f]] = 0
				}
			}
			r.nreply++
			r.log(srvEvent{E: "recv", Tag: t, Kind: kind, Src: src, Done: r.doneSet()})
			r.mu.Unlock()
		}
	}()

	faulted := false
	inject := func(kind string) {
		r.mu.Lock()
		r.log(srvEvent{E: "fault", Kind: kind})
		r.mu.Unlock()
		faulted = true
		goFree()
		close(r.faultCh)
		switch kind {
		case "read-eof":
			cli.CloseWrite()
		case "read-err":
			cli.FailPeerReadNow(gconn.ErrInjected)
		case "read-mid":
			// a frame header announcing 30 bytes, 9 delivered, then the stream ends
			cli.Write([]byte{30, 0, 0, 0, byte(p9p.Tstat), 1, 0, 9, 9})
			cli.CloseWrite()
		case "write":
			wfOnce.Do(func() { close(writeFault) })
		case "ctx":
			cancel()
		}
	}

	await := 300 * time.Millisecond
	for _, st := range sc.Steps {
		if faulted {
			await = 30 * time.Millisecond // the model's behaviour goes on after the fault; so do we, without long waits
		}
		switch st.A {
		case "send":
			r.mu.Lock()
			// client discipline: a tag is free, or the send is a deliberate duplicate of a held ordinary request
			legit := func() (ok, dup bool) {
				o := r.cout[st.Tag]
				if o == 0 {
					return true, false
				}
				pending := false
				for f, v := range r.fl {
					if v == o && r.kind[f] == "flush" {
						pending = true
					}
				}
				if r.kind[o] == "req" && !r.released[o] && !pending && r.entered[o] {
					return true, true
				}
				return false, false
			}
			var ok, dup bool
			r.waitFor(await, func() bool { ok, dup = legit(); return ok })
			if !ok {
				r.mu.Unlock()
				res.Add("steps_skipped", 1)
				continue
			}
			var msg p9p.Message
			if st.Kind == "flush" {
				msg = p9p.MessageTflush{Oldtag: p9p.Tag(st.Old)}
			} else {
				msg = srvMessage(st.I, r.uniform)
			}
			r.sent[st.I] = msg
			r.tagOf[st.I] = st.Tag
			if st.Kind != "flush" && !dup {
				r.lastReq[st.Tag] = st.I
			}
			if dup {
				r.dupPend[st.Tag]++
			}
			r.kind[st.I] = st.Kind
			r.honour[st.I] = st.I%2 == 0
			if !dup {
				r.cout[st.Tag] = st.I
				if st.Kind == "flush" {
					r.fl[st.I] = r.cout[st.Old]
					r.flOld[st.I] = st.Old
				}
			}
			r.log(srvEvent{E: "send", ID: st.I, Tag: st.Tag, Kind: st.Kind, Old: st.Old, Dup: dup})
			r.mu.Unlock()
			if err := ch.WriteFcall(cctx, &p9p.Fcall{Type: msg.Type(), Tag: p9p.Tag(st.Tag), Message: msg}); err != nil && !faulted {
				res.Violate("harness", "harness:send", err.Error(), nil)
			}
		case "await_enter":
			r.mu.Lock()
			if !r.waitFor(await, func() bool { return r.entered[st.I] }) {
				res.Add("awaits_timed_out", 1)
			}
			r.mu.Unlock()
		case "release":
			r.mu.Lock()
			// environment discipline of the model: the original of a deliberate duplicate stays held until the
			// duplicate has been answered (otherwise the "duplicate" is legitimately served as a new request)
			if !faulted && !r.waitFor(2*time.Second, func() bool { return r.dupPend[r.tagOf[st.I]] == 0 }) {
				r.mu.Unlock()
				res.Add("steps_skipped", 1)
				continue
			}
			r.released[st.I] = true
			g := r.gates[st.I]
			if g == nil {
				g = make(chan struct{})
				r.gates[st.I] = g
			}
			select {
			case <-g:
			default:
				close(g)
			}
			r.mu.Unlock()
		case "await_reply":
			allowReplies(st.K)
			r.mu.Lock()
			if !r.waitFor(await, func() bool { return r.nreply >= st.K }) {
				res.Add("awaits_timed_out", 1)
			}
			r.mu.Unlock()
		case "must_reply":
			// K replies must have arrived within 4 s although other handlers are still held: a reply the server owes
			// (to a flush, to a quick request) may not wait for unrelated handlers to finish
			allowReplies(st.K)
			r.mu.Lock()
			okr := r.waitFor(4*time.Second, func() bool { return r.nreply >= st.K })
			got := r.nreply
			r.mu.Unlock()
			if !okr && !faulted {
				res.Violate(st.Kind, "reply-overdue:"+sc.Name, fmt.Sprintf("%d replies were due (other handlers stay blocked, as handlers may), only %d arrived within 4 s", st.K, got), sc)
			}
		case "pause":
			// let the server settle (e.g. take a completion a released handler offers); K: milliseconds (default 5)
			ms := st.K
			if ms == 0 {
				ms = 5
			}
			time.Sleep(time.Duration(ms) * time.Millisecond)
		case "fault":
			if !faulted {
				inject(st.Kind)
			}
		}
	}

	goFree()
	if !faulted {
		// quiescence: release everything, wait until nothing is outstanding in the client's view
		r.mu.Lock()
		r.waitFor(2*time.Second, func() bool {
			for _, n := range r.dupPend {
				if n > 0 {
					return false
				}
			}
			return true
		})
		for i := range r.sent {
			r.released[i] = true
			g := r.gates[i]
			if g == nil {
				g = make(chan struct{})
				r.gates[i] = g
			}
			select {
			case <-g:
			default:
				close(g)
			}
		}
		quiet := func() bool {
			for _, o := range r.cout {
				if o != 0 {
					return false
				}
			}
			return true
		}
		r.waitFor(2*time.Second, quiet)
		// let stray late replies (the thing C07 forbids) show up
		r.mu.Unlock()
		time.Sleep(2 * time.Millisecond)
		r.mu.Lock()
		r.log(srvEvent{E: "end"})
		r.mu.Unlock()
		inject("read-eof") // the peer disconnects
	}
	// ServeConn must return in bounded time (handlers return once cancelled)
	select {
	case <-serveDone:
	case <-time.After(5 * time.Second):
		dump := hx.Dump()
		gs := hx.GoroutinesWith(dump, "p9p.(*conn).serve")
		if len(gs) == 0 {
			gs = hx.GoroutinesWith(dump, "p9p.ServeConn")
		}
		detail := "ServeConn did not return within 5s of the fault although every handler returns once cancelled"
		if len(gs) > 0 {
			detail += "\n" + hx.Trunc(gs[0], 1800)
		}
		res.Violate("C11", "serve-hang:"+sc.Name, detail, sc)
	}
	cli.Close()
	srv.Close()
	wfOnce.Do(func() { close(writeFault) })
	select {
	case <-readerDone:
	case <-time.After(time.Second):
	}
	r.mu.Lock()
	defer r.mu.Unlock()
	return append([]srvEvent{}, r.events...)
}

// Serve is the engine entry point.
func Serve(args []string) {
	fl := flag.NewFlagSet("serve", flag.ExitOnError)
	scPath := fl.String("scenarios", "", "ndjson file of scenarios")
	out := fl.String("out", "", "result file")
	tracePath := fl.String("trace", "", "where to write the recorded traces (ndjson, reset-separated)")
	repeat := fl.Int("repeat", 1, "default repetitions per scenario")
	fl.Parse(args)
	res := hx.NewResult()
	defer res.Write(*out)
	var scs []srvScenario
	err := hx.ReadNDJSON(*scPath, func(b []byte) error {
		var s srvScenario
		if err := json.Unmarshal(b, &s); err != nil {
			return err
		}
		scs = append(scs, s)
		return nil
	})
	if err != nil {
		res.Set("error", err.Error())
		return
	}
	type job struct {
		sc srvScenario
		n  int
	}
	var jobs []job
	n := 0
	for _, s := range scs {
		rep := s.Repeat
		if rep == 0 {
			rep = *repeat
		}
		for k := 0; k < rep; k++ {
			n++
			jobs = append(jobs, job{s, n})
		}
	}
	traces := make([][]srvEvent, len(jobs))
	var wg sync.WaitGroup
	sem := make(chan struct{}, 32)
	for idx, j := range jobs {
		wg.Add(1)
		sem <- struct{}{}
		go func(idx int, j job) {
			defer wg.Done()
			defer func() { <-sem }()
			traces[idx] = runSrvScenario(j.sc, j.n, res)
		}(idx, j)
	}
	wg.Wait()
	f, err := os.Create(*tracePath)
	if err != nil {
		res.Set("error", err.Error())
		return
	}
	defer f.Close()
	enc := json.NewEncoder(f)
	nev := 0
	distinct := map[string]bool{}
	for i, tr := range traces {
		if tr == nil {
			continue
		}
		sig := ""
		for _, e := range tr {
			enc.Encode(e)
			nev++
			sig += e.E + fmt.Sprint(e.ID, e.Tag, e.Kind) + ";"
		}
		distinct[sig] = true
		enc.Encode(srvEvent{E: "reset", Done: []int{}, Sc: jobs[i].n})
		if i < 3 {
			res.Sample(map[string]interface{}{"scenario": jobs[i].sc.Name, "trace": tr})
		}
	}
	res.Evaluations = len(jobs)
	res.Distinct = len(distinct)
	res.Set("events", nev)
	res.Set("scenarios", len(scs))
	names := map[int]string{}
	for _, j := range jobs {
		names[j.n] = j.sc.Name
	}
	res.Set("run_names", names)
}
