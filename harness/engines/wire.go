package engines

// Engine "wire" (C01, C04): message vectors with TLC-computed encodings
// (specs/wire/WireVectors.tla) against the real codec.
//   c01: Marshal == spec bytes, Size == len, Unmarshal(spec bytes) == message,
//        EncodeDir / DecodeDir on bare stat records; a table-driven reference
//        encoder that interprets the layout table exported by TLC is first
//        checked against TLC's own bytes on every vector and then used as the
//        oracle for seeded random messages with field sizes TLC cannot enumerate.
//   c04: hostile inputs derived from the vectors and from the positions of their
//        length / count fields (reported by the spec): no panic, allocation
//        bounded by a constant plus a linear function of the input, decode
//        stable under re-encoding.

import (
	"bytes"
	"encoding/binary"
	"encoding/json"
	"flag"
	"fmt"
	"math/rand"
	"reflect"
	"runtime"
	"runtime/debug"
	"sort"
	"strings"
	"sync"
	"time"

	p9p "github.com/frobnitzem/go-p9p"
	"verif/harness/hx"
)

type wField struct {
	Name string `json:"name"`
	Type string `json:"type"`
}

type wLayout struct {
	Layout   map[string][]wField `json:"layout"`
	Stat     []wField            `json:"stat"`
	Qid      []wField            `json:"qid"`
	TypeByte map[string]int      `json:"typebyte"`
}

type wLenField struct {
	Off  int    `json:"off"`
	W    int    `json:"w"`
	What string `json:"what"`
}

type wVector struct {
	T     string                     `json:"t"`
	Kind  string                     `json:"kind"`
	Tag   []int                      `json:"tag"`
	FRaw  json.RawMessage            `json:"f"`
	F     map[string]json.RawMessage `json:"-"`
	Bytes []int                      `json:"bytes"`
	LF    []wLenField                `json:"lf"`
}

func ints2bytes(v []int) []byte {
	b := make([]byte, len(v))
	for i, x := range v {
		b[i] = byte(x)
	}
	return b
}

// ---- field values (decoded from the spec's JSON, or generated)
// ints and strings: []byte ; qid / stat: map[string]interface{} ; names: [][]byte ; qids: []map

func decodeVal(t string, raw json.RawMessage, lay *wLayout) (interface{}, error) {
	switch t {
	case "u8", "u16", "u32", "u64", "str", "data":
		var v []int
		if err := json.Unmarshal(raw, &v); err != nil {
			return nil, err
		}
		return ints2bytes(v), nil
	case "qid", "stat", "statn":
		var m map[string]json.RawMessage
		if err := json.Unmarshal(raw, &m); err != nil {
			return nil, err
		}
		fl := lay.Qid
		if t != "qid" {
			fl = lay.Stat
		}
		out := map[string]interface{}{}
		for _, f := range fl {
			v, err := decodeVal(f.Type, m[f.Name], lay)
			if err != nil {
				return nil, err
			}
			out[f.Name] = v
		}
		return out, nil
	case "names":
		var v [][]int
		if err := json.Unmarshal(raw, &v); err != nil {
			return nil, err
		}
		out := make([][]byte, len(v))
		for i := range v {
			out[i] = ints2bytes(v[i])
		}
		return out, nil
	case "qids":
		var v []json.RawMessage
		if err := json.Unmarshal(raw, &v); err != nil {
			return nil, err
		}
		out := make([]map[string]interface{}, len(v))
		for i := range v {
			q, err := decodeVal("qid", v[i], lay)
			if err != nil {
				return nil, err
			}
			out[i] = q.(map[string]interface{})
		}
		return out, nil
	}
	return nil, fmt.Errorf("unknown type %s", t)
}

// ---- reference encoder: interprets the layout table exported by the spec
func refEncVal(t string, v interface{}, lay *wLayout, out *bytes.Buffer) {
	switch t {
	case "u8", "u16", "u32", "u64":
		out.Write(v.([]byte))
	case "str":
		b := v.([]byte)
		binary.Write(out, binary.LittleEndian, uint16(len(b)))
		out.Write(b)
	case "data":
		b := v.([]byte)
		binary.Write(out, binary.LittleEndian, uint32(len(b)))
		out.Write(b)
	case "qid":
		refEncSeq(lay.Qid, v.(map[string]interface{}), lay, out)
	case "names":
		l := v.([][]byte)
		binary.Write(out, binary.LittleEndian, uint16(len(l)))
		for _, s := range l {
			refEncVal("str", s, lay, out)
		}
	case "qids":
		l := v.([]map[string]interface{})
		binary.Write(out, binary.LittleEndian, uint16(len(l)))
		for _, q := range l {
			refEncVal("qid", q, lay, out)
		}
	case "stat":
		var body bytes.Buffer
		refEncSeq(lay.Stat, v.(map[string]interface{}), lay, &body)
		binary.Write(out, binary.LittleEndian, uint16(body.Len()))
		out.Write(body.Bytes())
	case "statn":
		var st bytes.Buffer
		refEncVal("stat", v, lay, &st)
		binary.Write(out, binary.LittleEndian, uint16(st.Len()))
		out.Write(st.Bytes())
	}
}

func refEncSeq(fl []wField, v map[string]interface{}, lay *wLayout, out *bytes.Buffer) {
	for _, f := range fl {
		refEncVal(f.Type, v[f.Name], lay, out)
	}
}

func refEncode(kind string, tag []byte, f map[string]interface{}, lay *wLayout) []byte {
	var out bytes.Buffer
	out.WriteByte(byte(lay.TypeByte[kind]))
	out.Write(tag)
	refEncSeq(lay.Layout[kind], f, lay, &out)
	return out.Bytes()
}

// ---- building the real p9p values
func le(b []byte) uint64 {
	var x uint64
	for i := len(b) - 1; i >= 0; i-- {
		x = x<<8 | uint64(b[i])
	}
	return x
}

func mkQid(v interface{}) p9p.Qid {
	m := v.(map[string]interface{})
	return p9p.Qid{Type: p9p.QType(le(m["type"].([]byte))), Version: uint32(le(m["vers"].([]byte))), Path: le(m["path"].([]byte))}
}

func mkDir(v interface{}) p9p.Dir {
	m := v.(map[string]interface{})
	return p9p.Dir{
		Type: uint16(le(m["type"].([]byte))), Dev: uint32(le(m["dev"].([]byte))), Qid: mkQid(m["qid"]),
		Mode:       uint32(le(m["mode"].([]byte))),
		AccessTime: time.Unix(int64(le(m["atime"].([]byte))), 0).UTC(),
		ModTime:    time.Unix(int64(le(m["mtime"].([]byte))), 0).UTC(),
		Length:     le(m["length"].([]byte)),
		Name:       string(m["name"].([]byte)), UID: string(m["uid"].([]byte)),
		GID: string(m["gid"].([]byte)), MUID: string(m["muid"].([]byte)),
	}
}

func mkMessage(kind string, f map[string]interface{}) (p9p.Message, error) {
	u32 := func(n string) uint32 { return uint32(le(f[n].([]byte))) }
	fid := func(n string) p9p.Fid { return p9p.Fid(u32(n)) }
	str := func(n string) string { return string(f[n].([]byte)) }
	switch kind {
	case "Tversion":
		return p9p.MessageTversion{MSize: u32("msize"), Version: str("version")}, nil
	case "Rversion":
		return p9p.MessageRversion{MSize: u32("msize"), Version: str("version")}, nil
	case "Tauth":
		return p9p.MessageTauth{Afid: fid("afid"), Uname: str("uname"), Aname: str("aname")}, nil
	case "Rauth":
		return p9p.MessageRauth{Qid: mkQid(f["aqid"])}, nil
	case "Tattach":
		return p9p.MessageTattach{Fid: fid("fid"), Afid: fid("afid"), Uname: str("uname"), Aname: str("aname")}, nil
	case "Rattach":
		return p9p.MessageRattach{Qid: mkQid(f["qid"])}, nil
	case "Rerror":
		return p9p.MessageRerror{Ename: str("ename")}, nil
	case "Tflush":
		return p9p.MessageTflush{Oldtag: p9p.Tag(le(f["oldtag"].([]byte)))}, nil
	case "Rflush":
		return p9p.MessageRflush{}, nil
	case "Twalk":
		var names []string
		for _, n := range f["wname"].([][]byte) {
			names = append(names, string(n))
		}
		return p9p.MessageTwalk{Fid: fid("fid"), Newfid: fid("newfid"), Wnames: names}, nil
	case "Rwalk":
		var qids []p9p.Qid
		for _, q := range f["wqid"].([]map[string]interface{}) {
			qids = append(qids, mkQid(q))
		}
		return p9p.MessageRwalk{Qids: qids}, nil
	case "Topen":
		return p9p.MessageTopen{Fid: fid("fid"), Mode: p9p.Flag(le(f["mode"].([]byte)))}, nil
	case "Ropen":
		return p9p.MessageRopen{Qid: mkQid(f["qid"]), IOUnit: u32("iounit")}, nil
	case "Tcreate":
		return p9p.MessageTcreate{Fid: fid("fid"), Name: str("name"), Perm: u32("perm"), Mode: p9p.Flag(le(f["mode"].([]byte)))}, nil
	case "Rcreate":
		return p9p.MessageRcreate{Qid: mkQid(f["qid"]), IOUnit: u32("iounit")}, nil
	case "Tread":
		return p9p.MessageTread{Fid: fid("fid"), Offset: le(f["offset"].([]byte)), Count: u32("count")}, nil
	case "Rread":
		return p9p.MessageRread{Data: f["data"].([]byte)}, nil
	case "Twrite":
		return p9p.MessageTwrite{Fid: fid("fid"), Offset: le(f["offset"].([]byte)), Data: f["data"].([]byte)}, nil
	case "Rwrite":
		return p9p.MessageRwrite{Count: u32("count")}, nil
	case "Tclunk":
		return p9p.MessageTclunk{Fid: fid("fid")}, nil
	case "Rclunk":
		return p9p.MessageRclunk{}, nil
	case "Tremove":
		return p9p.MessageTremove{Fid: fid("fid")}, nil
	case "Rremove":
		return p9p.MessageRremove{}, nil
	case "Tstat":
		return p9p.MessageTstat{Fid: fid("fid")}, nil
	case "Rstat":
		return p9p.MessageRstat{Stat: mkDir(f["stat"])}, nil
	case "Twstat":
		return p9p.MessageTwstat{Fid: fid("fid"), Stat: mkDir(f["stat"])}, nil
	case "Rwstat":
		return p9p.MessageRwstat{}, nil
	}
	return nil, fmt.Errorf("unknown kind %s", kind)
}

// canonical form for equality: empty slices == nil, times by whole seconds
func canonDir(d p9p.Dir) p9p.Dir {
	d.AccessTime = time.Unix(d.AccessTime.Unix(), 0).UTC()
	d.ModTime = time.Unix(d.ModTime.Unix(), 0).UTC()
	return d
}

func canonMsg(m p9p.Message) p9p.Message {
	switch v := m.(type) {
	case p9p.MessageTwalk:
		if len(v.Wnames) == 0 {
			v.Wnames = nil
		}
		return v
	case p9p.MessageRwalk:
		if len(v.Qids) == 0 {
			v.Qids = nil
		}
		return v
	case p9p.MessageRread:
		if len(v.Data) == 0 {
			v.Data = nil
		}
		return v
	case p9p.MessageTwrite:
		if len(v.Data) == 0 {
			v.Data = nil
		}
		return v
	case p9p.MessageRstat:
		v.Stat = canonDir(v.Stat)
		return v
	case p9p.MessageTwstat:
		v.Stat = canonDir(v.Stat)
		return v
	}
	return m
}

func fcallEq(a, b *p9p.Fcall) bool {
	return a.Type == b.Type && a.Tag == b.Tag && reflect.DeepEqual(canonMsg(a.Message), canonMsg(b.Message))
}

type wireCtx struct {
	allocViol int
	res       *hx.Result
	lay       *wLayout
	codec     p9p.Codec
	held      []heldEnc // the last encodings: they must stay what they were
	heldViol  int
}

type heldEnc struct {
	got, want []byte
	kind      string
}

// checkHeld: an encoding belongs to its caller; later Marshal calls must not change it
func (w *wireCtx) checkHeld(after string) {
	for _, h := range w.held {
		if !bytes.Equal(h.got, h.want) && w.heldViol < 3 {
			w.heldViol++
			w.res.Violate("C01", "encoding-changed-later:"+h.kind, fmt.Sprintf("the bytes Marshal returned for a %s were right, but after a later Marshal (%s) the same slice reads %x (want %x)",
				h.kind, after, hx.Trunc(string(h.got), 40), hx.Trunc(string(h.want), 40)),
				map[string]interface{}{"engine": "wire", "kind": h.kind, "after": after, "want_hex": fmt.Sprintf("%x", hx.Trunc(string(h.want), 400))})
		}
	}
}

// marshalConcurrent: several goroutines encode their own messages; every result must still be the right
// bytes after the others have encoded theirs.
func (w *wireCtx) marshalConcurrent() {
	var wg sync.WaitGroup
	var mu sync.Mutex
	bad := 0
	for g := 0; g < 8; g++ {
		wg.Add(1)
		go func(g int) {
			defer wg.Done()
			for i := 0; i < 400; i++ {
				name := fmt.Sprintf("g%d-%d-%s", g, i, strings.Repeat("x", (g*37+i)%90))
				fc := &p9p.Fcall{Type: p9p.Rerror, Tag: p9p.Tag(g*1000 + i), Message: p9p.MessageRerror{Ename: name}}
				b, err := w.codec.Marshal(fc)
				runtime.Gosched()
				var back p9p.Fcall
				if err == nil {
					err = w.codec.Unmarshal(b, &back)
				}
				if err != nil || !fcallEq(fc, &back) {
					mu.Lock()
					bad++
					if bad == 1 {
						w.res.Violate("C01", "encoding-changed-later:concurrent", fmt.Sprintf("8 goroutines encode their own Rerror messages; goroutine %d's encoding of %q decodes to %+v (%v) a moment later", g, name, back.Message, err),
							map[string]interface{}{"engine": "wire", "concurrent": true})
					}
					mu.Unlock()
					return
				}
			}
		}(g)
	}
	wg.Wait()
	w.res.Evaluations += 3200
}

// ptrMessage returns a pointer to a copy of the message value, as a Message
func ptrMessage(m p9p.Message) (p9p.Message, bool) {
	rv := reflect.ValueOf(m)
	if rv.Kind() != reflect.Struct {
		return nil, false
	}
	p := reflect.New(rv.Type())
	p.Elem().Set(rv)
	pm, ok := p.Interface().(p9p.Message)
	return pm, ok
}

// checkMessage: the three clauses of C01 for one message with oracle bytes `want`.
func (w *wireCtx) checkMessage(kind string, tag []byte, f map[string]interface{}, want []byte, origin string) {
	msg, err := mkMessage(kind, f)
	if err != nil {
		w.res.Violate("harness", "harness:mkmessage", err.Error(), nil)
		return
	}
	fc := &p9p.Fcall{Type: msg.Type(), Tag: p9p.Tag(le(tag)), Message: msg}
	rep := func() interface{} {
		return map[string]interface{}{"engine": "wire", "kind": kind, "tag": tag, "message": fmt.Sprintf("%+v", msg), "want_hex": fmt.Sprintf("%x", hx.Trunc(string(want), 400)), "origin": origin}
	}
	if int(fc.Type) != w.lay.TypeByte[kind] {
		w.res.Violate("C01", "typebyte:"+kind, fmt.Sprintf("%s has type byte %d, 9P2000 says %d", kind, fc.Type, w.lay.TypeByte[kind]), rep())
		return
	}
	var got []byte
	ok, dump := hx.RunTimed(10*time.Second, func() { got, err = w.codec.Marshal(fc) })
	if !ok {
		w.res.Violate("C01", "marshal-panic:"+kind, hx.Trunc(dump, 800), rep())
		return
	}
	if err != nil {
		w.res.Violate("C01", "marshal-error:"+kind, err.Error(), rep())
		return
	}
	if !bytes.Equal(got, want) {
		i := 0
		for i < len(got) && i < len(want) && got[i] == want[i] {
			i++
		}
		w.res.Violate("C01", "layout:"+kind, fmt.Sprintf("%s: encoding differs from the 9P2000 layout at byte %d (got %d bytes, want %d): got …%x want …%x",
			kind, i, len(got), len(want), got[i:min(len(got), i+12)], want[i:min(len(want), i+12)]), rep())
		return
	}
	w.checkHeld(kind)
	w.held = append(w.held, heldEnc{got, append([]byte{}, want...), kind})
	if len(w.held) > 6 {
		w.held = w.held[1:]
	}
	if sz := w.codec.Size(fc); sz != len(want) {
		w.res.Violate("C01", "size:"+kind, fmt.Sprintf("%s: Size reports %d, the encoding has %d bytes", kind, sz, len(want)), rep())
	}
	// the same message handed over as a pointer (a Message like any other: the methods have value receivers)
	if pm, okp := ptrMessage(msg); okp {
		pfc := &p9p.Fcall{Type: fc.Type, Tag: fc.Tag, Message: pm}
		var pgot []byte
		var perr error
		okm, pdump := hx.RunTimed(10*time.Second, func() { pgot, perr = w.codec.Marshal(pfc) })
		switch {
		case !okm:
			w.res.Violate("C01", "marshal-panic:ptr:"+kind, hx.Trunc(pdump, 800), rep())
		case perr != nil:
			w.res.Violate("C01", "marshal-error:ptr:"+kind, perr.Error(), rep())
		case !bytes.Equal(pgot, want):
			w.res.Violate("C01", "layout:ptr:"+kind, fmt.Sprintf("%s passed as *%T encodes to %d bytes that differ from the 9P2000 layout (%d bytes)", kind, msg, len(pgot), len(want)), rep())
		default:
			if sz := w.codec.Size(pfc); sz != len(want) {
				w.res.Violate("C01", "size:ptr:"+kind, fmt.Sprintf("%s passed as *%T: Size reports %d, the encoding has %d bytes", kind, msg, sz, len(want)), rep())
			}
		}
	}
	var back p9p.Fcall
	ok, dump = hx.RunTimed(10*time.Second, func() { err = w.codec.Unmarshal(want, &back) })
	if !ok {
		w.res.Violate("C01", "unmarshal-panic:"+kind, hx.Trunc(dump, 800), rep())
		return
	}
	if err != nil {
		w.res.Violate("C01", "unmarshal-error:"+kind, fmt.Sprintf("%s: decoding the spec's bytes fails: %v", kind, err), rep())
		return
	}
	if !fcallEq(fc, &back) {
		w.res.Violate("C01", "roundtrip:"+kind, fmt.Sprintf("%s: decoded %+v, original %+v", kind, back.Message, fc.Message), rep())
	}
}

func (w *wireCtx) checkStat(f map[string]interface{}, want []byte, origin string) {
	d := mkDir(f)
	rep := map[string]interface{}{"engine": "wire", "kind": "stat", "dir": fmt.Sprintf("%+v", d), "origin": origin}
	var buf bytes.Buffer
	if err := p9p.EncodeDir(w.codec, &buf, &d); err != nil {
		w.res.Violate("C01", "encodedir-error", err.Error(), rep)
		return
	}
	if !bytes.Equal(buf.Bytes(), want) {
		w.res.Violate("C01", "layout:stat", fmt.Sprintf("EncodeDir differs from the stat(5) layout: got %x want %x", hx.Trunc(buf.String(), 60), hx.Trunc(string(want), 60)), rep)
		return
	}
	if sz := w.codec.Size(d); sz != len(want) {
		w.res.Violate("C01", "size:stat", fmt.Sprintf("Size(Dir) reports %d, the encoding has %d bytes", sz, len(want)), rep)
	}
	var back p9p.Dir
	var err error
	ok, dump := hx.RunTimed(10*time.Second, func() { err = p9p.DecodeDir(w.codec, bytes.NewReader(want), &back) })
	if !ok {
		w.res.Violate("C01", "decodedir-panic", hx.Trunc(dump, 800), rep)
		return
	}
	if err != nil {
		w.res.Violate("C01", "decodedir-error", err.Error(), rep)
		return
	}
	if !reflect.DeepEqual(canonDir(back), canonDir(d)) {
		w.res.Violate("C01", "roundtrip:stat", fmt.Sprintf("decoded %+v, original %+v", back, d), rep)
	}
}

// ---- random deep values by type
func rndBytes(r *rand.Rand, n int) []byte {
	b := make([]byte, n)
	r.Read(b)
	return b
}

func rndLen(r *rand.Rand, big int) int {
	n := rndLen0(r, big)
	if n > big {
		n = big
	}
	if n < 0 {
		n = 0
	}
	return n
}

func rndLen0(r *rand.Rand, big int) int {
	switch r.Intn(6) {
	case 0:
		return 0
	case 1:
		return big
	case 2:
		return big - 1 - r.Intn(3)
	case 3:
		return r.Intn(300)
	}
	return r.Intn(20)
}

func rndVal(r *rand.Rand, t string, lay *wLayout, budget int) interface{} {
	switch t {
	case "u8":
		return rndBytes(r, 1)
	case "u16":
		return rndBytes(r, 2)
	case "u32":
		return rndBytes(r, 4)
	case "u64":
		return rndBytes(r, 8)
	case "str":
		return rndBytes(r, rndLen(r, min(65535, budget)))
	case "data":
		n := rndLen(r, 1<<20)
		if r.Intn(4) == 0 {
			n = 1 << 20
		}
		return rndBytes(r, n)
	case "qid":
		return map[string]interface{}{"type": rndBytes(r, 1), "vers": rndBytes(r, 4), "path": rndBytes(r, 8)}
	case "names":
		n := rndLen(r, 65535)
		out := make([][]byte, n)
		for i := range out {
			out[i] = rndBytes(r, r.Intn(4))
		}
		return out
	case "qids":
		n := rndLen(r, 65535)
		out := make([]map[string]interface{}, n)
		for i := range out {
			out[i] = rndVal(r, "qid", lay, 0).(map[string]interface{})
		}
		return out
	case "stat", "statn":
		// the whole record (with its own size[2]) must fit in 65535 bytes: 41 fixed + 4 string headers + 2
		m := map[string]interface{}{}
		left := 65535 - 2 - 47
		for _, f := range lay.Stat {
			if f.Type == "str" {
				n := rndLen(r, left)
				if r.Intn(3) == 0 && left > 0 {
					n = r.Intn(min(left, 40) + 1)
				}
				m[f.Name] = rndBytes(r, n)
				left -= n
			} else {
				m[f.Name] = rndVal(r, f.Type, lay, 0)
			}
		}
		return m
	}
	return nil
}

// ---- C04: hostile inputs
type hostile struct {
	data []byte
	how  string
	big  bool // a 32-bit count field claims more than 16 MiB
}

func put(b []byte, off, w int, v uint64) []byte {
	c := append([]byte{}, b...)
	for i := 0; i < w && off+i < len(c); i++ {
		c[off+i] = byte(v >> (8 * uint(i)))
	}
	return c
}

func hostileFamily(v *wVector, quick bool, r *rand.Rand) []hostile {
	base := ints2bytes(v.Bytes)
	var out []hostile
	add := func(d []byte, how string) { out = append(out, hostile{data: d, how: how}) }
	add(base, "valid")
	for _, lf := range v.LF {
		cur := le(base[lf.Off : lf.Off+lf.W])
		max := uint64(1)<<(8*uint(lf.W)) - 1
		for _, nv := range []uint64{0, 1, cur - 1, cur + 1, max >> 1, max>>1 + 1, max - 1, max, uint64(len(base)), uint64(len(base)) + 1} {
			if nv == cur || nv > max {
				continue
			}
			add(put(base, lf.Off, lf.W, nv), fmt.Sprintf("%s@%d=%d(was %d)", lf.What, lf.Off, nv, cur))
			out[len(out)-1].big = lf.W == 4 && nv > 1<<24
		}
	}
	step := 1
	if quick && len(base) > 40 {
		step = len(base) / 40
	}
	for n := 0; n < len(base); n += step {
		add(base[:n], fmt.Sprintf("truncated to %d of %d", n, len(base)))
	}
	for _, n := range []int{1, 4, 100} {
		add(append(append([]byte{}, base...), bytes.Repeat([]byte{0xA5}, n)...), fmt.Sprintf("extended by %d", n))
	}
	if v.T == "msg" {
		for _, tb := range []byte{0, 99, 106, 128, 255} {
			add(put(base, 0, 1, uint64(tb)), fmt.Sprintf("type byte %d", tb))
		}
	}
	// compositions of two mutations
	nc := 6
	if !quick {
		nc = 40
	}
	for k := 0; k < nc && len(v.LF) > 0; k++ {
		d := append([]byte{}, base...)
		how := ""
		big := false
		for j := 0; j < 2+r.Intn(3); j++ {
			lf := v.LF[r.Intn(len(v.LF))]
			max := uint64(1)<<(8*uint(lf.W)) - 1
			nv := []uint64{0, 1, max, max - 1, max >> 1, uint64(r.Intn(70000))}[r.Intn(6)] & max
			d = put(d, lf.Off, lf.W, nv)
			how += fmt.Sprintf("%s@%d=%d;", lf.What, lf.Off, nv)
			big = big || (lf.W == 4 && nv > 1<<24)
		}
		if r.Intn(2) == 0 && len(d) > 3 {
			d = d[:3+r.Intn(len(d)-3)]
			how += fmt.Sprintf("trunc %d", len(d))
		}
		add(d, how)
		out[len(out)-1].big = big
	}
	return out
}

const allocConst = 4 << 20
const allocPerByte = 64

func (w *wireCtx) checkHostile(h hostile, origin string) {
	rep := func() interface{} {
		return map[string]interface{}{"engine": "wire", "input_hex": fmt.Sprintf("%x", h.data[:min(len(h.data), 600)]), "input_len": len(h.data), "mutation": h.how, "origin": origin}
	}
	bound := uint64(allocConst + allocPerByte*len(h.data))
	for _, target := range []string{"fcall", "dir"} {
		var fc p9p.Fcall
		var d p9p.Dir
		var err error
		var panicked interface{}
		var stack []byte
		var ms0, ms1 runtime.MemStats
		runtime.ReadMemStats(&ms0)
		func() {
			defer func() {
				if p := recover(); p != nil {
					panicked = p
					stack = debug.Stack()
				}
			}()
			if target == "fcall" {
				err = w.codec.Unmarshal(h.data, &fc)
			} else {
				err = p9p.DecodeDir(w.codec, bytes.NewReader(h.data), &d)
			}
		}()
		runtime.ReadMemStats(&ms1)
		if panicked != nil {
			w.res.Violate("C04", "decode-panic:"+target, fmt.Sprintf("decoding as %s panics: %v (input: %s)\n%s", target, panicked, h.how, hx.Trunc(string(stack), 900)), rep())
			continue
		}
		if delta := ms1.TotalAlloc - ms0.TotalAlloc; delta > bound {
			w.res.Violate("C04", "decode-alloc:"+target, fmt.Sprintf("decoding %d input bytes as %s allocated %d bytes (bound: %d + %d per input byte); input: %s",
				len(h.data), target, delta, allocConst, allocPerByte, h.how), rep())
			fc, d = p9p.Fcall{}, p9p.Dir{}
			w.allocViol++
			runtime.GC()
			debug.FreeOSMemory()
			continue
		}
		if err != nil {
			continue
		}
		// stability: decode(encode(v)) == v
		if target == "fcall" {
			b2, err2 := w.codec.Marshal(&fc)
			var fc2 p9p.Fcall
			if err2 == nil {
				err2 = w.codec.Unmarshal(b2, &fc2)
			}
			if err2 != nil {
				w.res.Violate("C04", "restabilize-error:fcall", fmt.Sprintf("decoded value %+v cannot be re-encoded and decoded: %v; input: %s", fc.Message, err2, h.how), rep())
			} else if !fcallEq(&fc, &fc2) {
				w.res.Violate("C04", "unstable:fcall", fmt.Sprintf("decode(encode(v)) != v: %+v vs %+v; input: %s", fc.Message, fc2.Message, h.how), rep())
			}
		} else {
			var buf bytes.Buffer
			err2 := p9p.EncodeDir(w.codec, &buf, &d)
			var d2 p9p.Dir
			if err2 == nil {
				err2 = p9p.DecodeDir(w.codec, bytes.NewReader(buf.Bytes()), &d2)
			}
			if err2 != nil {
				w.res.Violate("C04", "restabilize-error:dir", fmt.Sprintf("decoded dir %+v cannot be re-encoded and decoded: %v; input: %s", d, err2, h.how), rep())
			} else if !reflect.DeepEqual(canonDir(d), canonDir(d2)) {
				w.res.Violate("C04", "unstable:dir", fmt.Sprintf("decode(encode(v)) != v: %+v vs %+v; input: %s", d, d2, h.how), rep())
			}
		}
	}
}

func Wire(args []string) {
	fl := flag.NewFlagSet("wire", flag.ExitOnError)
	vecPath := fl.String("vectors", "", "ndjson from WireVectors.tla")
	out := fl.String("out", "", "result file")
	mode := fl.String("mode", "c01", "c01 | c04")
	nrand := fl.Int("random", 300, "random deep messages (c01)")
	quick := fl.Bool("quick", true, "quick tier sizes")
	fl.Parse(args)
	res := hx.NewResult()
	defer res.Write(*out)
	var lay wLayout
	var vecs []wVector
	err := hx.ReadNDJSON(*vecPath, func(b []byte) error {
		var v wVector
		if err := json.Unmarshal(b, &v); err != nil {
			return err
		}
		switch v.T {
		case "layout":
			return json.Unmarshal(b, &lay)
		case "msg", "stat":
			v.F = map[string]json.RawMessage{}
			if len(v.FRaw) > 0 && v.FRaw[0] == '{' { // an empty record is rendered as []
				if err := json.Unmarshal(v.FRaw, &v.F); err != nil {
					return err
				}
			}
			vecs = append(vecs, v)
		}
		return nil
	})
	if err != nil || lay.Layout == nil {
		res.Set("error", fmt.Sprint("cannot load vectors: ", err))
		return
	}
	w := &wireCtx{res: res, lay: &lay, codec: p9p.NewCodec()}
	r := hx.Rand(5)
	distinct := map[string]bool{}
	switch *mode {
	case "c01":
		for i := range vecs {
			v := &vecs[i]
			want := ints2bytes(v.Bytes)
			f := map[string]interface{}{}
			fl := lay.Layout[v.Kind]
			if v.T == "stat" {
				fl = lay.Stat
			}
			for _, fd := range fl {
				val, err := decodeVal(fd.Type, v.F[fd.Name], &lay)
				if err != nil {
					res.Violate("harness", "harness:decodeval", err.Error(), nil)
					return
				}
				f[fd.Name] = val
			}
			if v.T == "stat" {
				// binding of the reference encoder to the spec
				var b bytes.Buffer
				refEncVal("stat", f, &lay, &b)
				if !bytes.Equal(b.Bytes(), want) {
					res.Violate("harness", "harness:refenc-stat", "reference encoder disagrees with TLC", nil)
					return
				}
				w.checkStat(f, want, "tlc-vector")
			} else {
				tag := ints2bytes(v.Tag)
				if !bytes.Equal(refEncode(v.Kind, tag, f, &lay), want) {
					res.Violate("harness", "harness:refenc", "reference encoder disagrees with TLC on "+v.Kind, nil)
					return
				}
				w.checkMessage(v.Kind, tag, f, want, "tlc-vector")
			}
			res.Evaluations++
			distinct[string(want)] = true
			if i%97 == 0 {
				res.Sample(map[string]interface{}{"kind": v.Kind, "tag": v.Tag, "bytes_hex": fmt.Sprintf("%x", want)})
			}
		}
		w.marshalConcurrent()
		// random deep messages: oracle = the spec's layout table interpreted by refEncode
		kinds := make([]string, 0, len(lay.Layout))
		for k := range lay.Layout {
			kinds = append(kinds, k)
		}
		sort.Strings(kinds)
		for i := 0; i < *nrand; i++ {
			k := kinds[r.Intn(len(kinds))]
			if i < 2*len(kinds) {
				k = kinds[i%len(kinds)]
			}
			f := map[string]interface{}{}
			for _, fd := range lay.Layout[k] {
				f[fd.Name] = rndVal(r, fd.Type, &lay, 65535)
			}
			tag := rndBytes(r, 2)
			want := refEncode(k, tag, f, &lay)
			w.checkMessage(k, tag, f, want, fmt.Sprintf("random-deep #%d (seed %d)", i, hx.Seed()))
			res.Evaluations++
			distinct[fmt.Sprint(k, len(want), i)] = true
		}
		for i := 0; i < *nrand/4; i++ {
			f := rndVal(r, "stat", &lay, 0).(map[string]interface{})
			var b bytes.Buffer
			refEncVal("stat", f, &lay, &b)
			w.checkStat(f, b.Bytes(), fmt.Sprintf("random-deep stat #%d", i))
			res.Evaluations++
		}
	case "c04":
		for i := range vecs {
			v := &vecs[i]
			if *quick && i%3 != 0 && v.Kind != "Twrite" && v.Kind != "Rread" && v.T != "stat" {
				continue
			}
			fam := hostileFamily(v, *quick, r)
			for _, h := range fam {
				if h.big && w.allocViol >= 3 {
					continue // already established; each further one costs gigabytes
				}
				w.checkHostile(h, fmt.Sprintf("vector %d (%s%s)", i, v.T, v.Kind))
				res.Evaluations++
				if len(distinct) < 200000 {
					distinct[string(h.data)] = true
				}
			}
			if i%131 == 0 && len(fam) > 3 {
				res.Sample(map[string]interface{}{"base": v.Kind, "mutation": fam[3].how, "input_hex": fmt.Sprintf("%x", fam[3].data[:min(len(fam[3].data), 80)])})
			}
			if res.NViol() > 30 || w.allocViol >= 3 {
				break // verdict established; every further unbounded allocation costs gigabytes
			}
		}
		// a few plain random strings as well
		for i := 0; i < 2000 && w.allocViol < 3; i++ {
			h := hostile{data: rndBytes(r, r.Intn(64)), how: "random bytes"}
			if len(h.data) > 0 && r.Intn(2) == 0 {
				h.data[0] = byte(100 + r.Intn(28))
			}
			if w.allocViol >= 3 && len(h.data) > 0 && (h.data[0] == 117 || h.data[0] == 118) {
				continue // unbounded allocation on a data count is already established; each repeat costs gigabytes
			}
			w.checkHostile(h, "random")
			res.Evaluations++
		}
	}
	res.Distinct = len(distinct)
	res.Set("vectors", len(vecs))
}
