package engines

// Engine "neg" (C10): version negotiation of the real server (ServeConn) and the
// real client (CSession) against expectations computed by TLC from Negotiate.tla
// (specs/chan/NegVectors.tla), followed by maximal-size traffic in both
// directions with every frame on the wire checked against the agreed msize.

import (
	"context"
	"encoding/binary"
	"encoding/json"
	"flag"
	"fmt"
	"strings"
	"sync"
	"time"

	p9p "github.com/frobnitzem/go-p9p"
	"verif/harness/gconn"
	"verif/harness/hx"
)

type negLine struct {
	T    string `json:"t"`
	Kind string `json:"kind"`
	P    int64  `json:"p"`
	A    int64  `json:"a"`
	M    int64  `json:"m"`
	D    struct {
		Accept bool  `json:"accept"`
		Msize  int64 `json:"msize"`
		Reply  bool  `json:"reply"`
	} `json:"d"`
}

// frameTap splits a byte stream into 9P frames and records their sizes.
type frameTap struct {
	mu    sync.Mutex
	buf   []byte
	sizes []int
}

func (t *frameTap) feed(p []byte) {
	t.mu.Lock()
	defer t.mu.Unlock()
	t.buf = append(t.buf, p...)
	for len(t.buf) >= 4 {
		n := int(binary.LittleEndian.Uint32(t.buf))
		if n < 4 {
			n = 4
		}
		if len(t.buf) < n {
			// record the announced size already: a frame longer than msize must not even start
			break
		}
		t.sizes = append(t.sizes, n)
		t.buf = t.buf[n:]
	}
}

func (t *frameTap) pendingSize() int {
	t.mu.Lock()
	defer t.mu.Unlock()
	if len(t.buf) >= 4 {
		return int(binary.LittleEndian.Uint32(t.buf))
	}
	return 0
}

func (t *frameTap) max() int {
	t.mu.Lock()
	defer t.mu.Unlock()
	m := 0
	for _, s := range t.sizes {
		if s > m {
			m = s
		}
	}
	if len(t.buf) >= 4 {
		if n := int(binary.LittleEndian.Uint32(t.buf)); n > m {
			m = n
		}
	}
	return m
}

type negHandler struct {
	mu    sync.Mutex
	calls []p9p.Message
	name  string // Rstat name to return
	stops int
}

func (h *negHandler) Handle(ctx context.Context, m p9p.Message) (p9p.Message, error) {
	h.mu.Lock()
	h.calls = append(h.calls, m)
	name := h.name
	h.mu.Unlock()
	switch v := m.(type) {
	case p9p.MessageTread:
		n := int64(v.Count)
		if n > 1<<21 {
			n = 1 << 21 // (enough to overflow any msize in use here without allocating 4 GiB)
		}
		return p9p.MessageRread{Data: make([]byte, n)}, nil
	case p9p.MessageTwrite:
		return p9p.MessageRwrite{Count: uint32(len(v.Data))}, nil
	case p9p.MessageTstat:
		return p9p.MessageRstat{Stat: p9p.Dir{Name: name}}, nil
	}
	return p9p.MessageRclunk{}, nil
}
func (h *negHandler) Stop(err error) error { h.mu.Lock(); h.stops++; h.mu.Unlock(); return err }
func (h *negHandler) ncalls() int          { h.mu.Lock(); defer h.mu.Unlock(); return len(h.calls) }

func u32of(p int64, big bool) uint32 {
	if big {
		return 0xFFFFFFFF
	}
	return uint32(p)
}

func negServerCase(l negLine, version string, variant int, res *hx.Result) {
	big := l.P == 2147483647 && variant%2 == 1
	p := u32of(l.P, big)
	if l.P == 2147483647 && variant%4 == 2 {
		p = 1 << 31
	}
	rep := map[string]interface{}{"engine": "neg", "side": "server", "first": l.Kind, "proposed": p, "version": version, "expected": l.D}
	cli, srv := gconn.Pair(0)
	tap := &frameTap{}
	srv.Tap = tap.feed
	h := &negHandler{}
	ctx, cancel := context.WithCancel(context.Background())
	defer cancel()
	done := make(chan error, 1)
	go func() { done <- p9p.ServeConn(ctx, srv, h) }()
	ch := p9p.NewChannel(cli, 4<<20) // the raw client imposes no limit of its own
	bg, cancel2 := context.WithTimeout(context.Background(), 8*time.Second)
	defer cancel2()
	var first p9p.Message
	switch l.Kind {
	case "Tversion":
		first = p9p.MessageTversion{MSize: p, Version: version}
	case "Rversion":
		first = p9p.MessageRversion{MSize: p, Version: version}
	case "Tattach":
		first = p9p.MessageTattach{Fid: 1, Afid: p9p.NOFID, Uname: "u"}
	case "Tflush":
		first = p9p.MessageTflush{Oldtag: 1}
	default:
		first = p9p.MessageTauth{Afid: 1, Uname: "u"}
	}
	ch.WriteFcall(bg, &p9p.Fcall{Type: first.Type(), Tag: p9p.NOTAG, Message: first})
	sig := fmt.Sprintf("%s:p=%d", l.Kind, l.P)
	if !l.D.Accept {
		select {
		case <-done:
		case <-time.After(4 * time.Second):
			res.Violate("C10", "server-did-not-refuse:"+sig, "the connection must be refused but ServeConn keeps serving", rep)
		}
		if h.ncalls() != 0 {
			res.Violate("C10", "dispatch-on-refused:"+sig, fmt.Sprintf("%d message(s) dispatched to the handler on a refused connection", h.ncalls()), rep)
		}
		cli.Close()
		return
	}
	var rv p9p.Fcall
	if err := ch.ReadFcall(bg, &rv); err != nil {
		res.Violate("C10", "no-version-reply:"+sig, fmt.Sprintf("expected Rversion(msize %d), got error %v", l.D.Msize, err), rep)
		cli.Close()
		return
	}
	m, ok := rv.Message.(p9p.MessageRversion)
	if !ok {
		res.Violate("C10", "no-version-reply:"+sig, fmt.Sprintf("expected Rversion, got %v", rv.Type), rep)
		cli.Close()
		return
	}
	if int64(m.MSize) != l.D.Msize {
		res.Violate("C10", "server-msize:"+sig, fmt.Sprintf("client proposed %d, server (own maximum %d) answered %d; must be %d", p, p9p.DefaultMSize, m.MSize, l.D.Msize), rep)
		cli.Close()
		return
	}
	if h.ncalls() != 0 {
		res.Violate("C10", "dispatch-before-accept:"+sig, "handler invoked during negotiation", rep)
	}
	ms := int(m.MSize)
	rt := func(tag p9p.Tag, msg p9p.Message) (*p9p.Fcall, error) {
		if err := ch.WriteFcall(bg, &p9p.Fcall{Type: msg.Type(), Tag: tag, Message: msg}); err != nil {
			return nil, err
		}
		var r p9p.Fcall
		err := ch.ReadFcall(bg, &r)
		return &r, err
	}
	if ms >= 24 {
		// a frame of exactly msize must be accepted
		data := make([]byte, ms-23)
		n0 := h.ncalls()
		r, err := rt(1, p9p.MessageTwrite{Fid: 1, Data: data})
		if err != nil || r.Type != p9p.Rwrite || h.ncalls() != n0+1 {
			res.Violate("C10", "exact-msize-frame-refused:"+sig, fmt.Sprintf("a request frame of exactly the agreed msize %d was not accepted (%v)", ms, err), rep)
		} else if w, ok := h.calls[n0].(p9p.MessageTwrite); !ok || len(w.Data) != len(data) {
			res.Violate("C10", "exact-msize-frame-mangled:"+sig, "the handler did not see the full write", rep)
		}
		// a read of 2^32-1 bytes: the reply must fit
		n0 = h.ncalls()
		r, err = rt(2, p9p.MessageTread{Fid: 1, Count: 0xFFFFFFFF})
		if h.ncalls() >= n0+1 {
			h.mu.Lock()
			tr, ok := h.calls[n0].(p9p.MessageTread)
			h.mu.Unlock()
			if ok && int64(tr.Count) > int64(ms-11) {
				res.Violate("C10", "read-count-not-lowered:"+sig, fmt.Sprintf("handler was asked for %d bytes, the agreed msize %d allows %d", tr.Count, ms, ms-11), rep)
			}
		}
		if err != nil || r.Type != p9p.Rread {
			res.Violate("C10", "maximal-read-fails:"+sig, fmt.Sprintf("a read of 2^32-1 bytes after agreeing on msize %d must be answered with an Rread that fits (the handler returns as much as it is asked for); got %v", ms, err), rep)
		} else if rr := r.Message.(p9p.MessageRread); len(rr.Data) != ms-11 {
			res.Violate("C10", "maximal-read-size:"+sig, fmt.Sprintf("a read of 2^32-1 bytes after agreeing on msize %d returned %d bytes, a frame of exactly msize carries %d", ms, len(rr.Data), ms-11), rep)
		}
	}
	if variant%2 == 0 {
		// a reply that cannot fit must not be emitted
		h.mu.Lock()
		h.name = string(make([]byte, ms))
		h.mu.Unlock()
		ch.WriteFcall(bg, &p9p.Fcall{Type: p9p.Tstat, Tag: 3, Message: p9p.MessageTstat{Fid: 1}})
		time.Sleep(30 * time.Millisecond)
	} else {
		// a frame of msize+1 must be refused
		n0 := h.ncalls()
		ch.WriteFcall(bg, &p9p.Fcall{Type: p9p.Twrite, Tag: 4, Message: p9p.MessageTwrite{Fid: 1, Data: make([]byte, max(ms-23+1, 0))}})
		time.Sleep(30 * time.Millisecond)
		if ms >= 23 && h.ncalls() != n0 {
			res.Violate("C10", "oversize-frame-accepted:"+sig, fmt.Sprintf("a request frame of %d bytes was dispatched although the agreed msize is %d", ms+1, ms), rep)
		}
	}
	if mx := tap.max(); mx > ms {
		res.Violate("C10", "server-frame-exceeds-msize:"+sig, fmt.Sprintf("the server emitted a frame of %d bytes, agreed msize %d", mx, ms), rep)
	}
	cli.Close()
	select {
	case <-done:
	case <-time.After(5 * time.Second):
	}
}

func max(a, b int) int {
	if a > b {
		return a
	}
	return b
}

func negClientCase(l negLine, variant int, res *hx.Result) {
	big := l.A == 2147483647
	a := u32of(l.A, big && variant%2 == 1)
	if big && variant%2 == 0 {
		a = 1 << 31
	}
	rep := map[string]interface{}{"engine": "neg", "side": "client", "answer": a, "expected_msize": l.M}
	sig := fmt.Sprintf("a=%d", l.A)
	cli, srv := gconn.Pair(0)
	tap := &frameTap{}
	cli.Tap = tap.feed
	raw := p9p.NewChannel(srv, 4<<20)
	bg, cancel := context.WithTimeout(context.Background(), 8*time.Second)
	defer cancel()
	type sres struct {
		s   p9p.Session
		err error
	}
	sc := make(chan sres, 1)
	go func() {
		defer func() {
			if pv := recover(); pv != nil {
				res.Violate("C10", "client-panics-on-rversion:"+sig, fmt.Sprintf("the server answers msize %d: setting up the client session panics: %v", a, pv), rep)
				sc <- sres{nil, fmt.Errorf("panic: %v", pv)}
			}
		}()
		s, err := p9p.CSession(bg, cli)
		sc <- sres{s, err}
	}()
	var tv p9p.Fcall
	if err := raw.ReadFcall(bg, &tv); err != nil {
		res.Violate("harness", "harness:neg-client-tversion", err.Error(), rep)
		return
	}
	tvm, ok := tv.Message.(p9p.MessageTversion)
	if !ok || tvm.MSize != p9p.DefaultMSize || tv.Tag != p9p.NOTAG {
		res.Violate("C10", "client-first-message:"+sig, fmt.Sprintf("client opened with %v %+v tag %d", tv.Type, tv.Message, tv.Tag), rep)
		return
	}
	// the server may also answer with another version string (a shorter one, as version(5) allows, or "unknown"):
	// the client may refuse that - but if it goes on, it goes on with the minimum of the two msizes
	vstr := []string{"9P2000", "9P2000", "9P2000", "9P", "", "unknown", "9P2000.u"}[variant%7]
	rep["answer_version"] = vstr
	raw.WriteFcall(bg, &p9p.Fcall{Type: p9p.Rversion, Tag: p9p.NOTAG, Message: p9p.MessageRversion{MSize: a, Version: vstr}})
	r := <-sc
	if r.err != nil && vstr != "9P2000" {
		return
	}
	if r.err != nil {
		if !strings.HasPrefix(r.err.Error(), "panic:") {
			res.Violate("C10", "client-session-failed:"+sig, r.err.Error(), rep)
		}
		return
	}
	ms, _ := r.s.Version()
	if int64(ms) != l.M {
		res.Violate("C10", "client-msize:"+sig, fmt.Sprintf("client proposed %d, server answered %d, client adopted %d; must be %d", p9p.DefaultMSize, a, ms, l.M), rep)
		return
	}
	if ms < 24 {
		// nothing useful can be exchanged; at least nothing longer than msize may be emitted
		go r.s.Stat(bg, 1)
		time.Sleep(20 * time.Millisecond)
		if mx := tap.max(); mx > p9p.DefaultMSize || (len(tap.sizes) > 1 && tap.sizes[len(tap.sizes)-1] > ms) {
			res.Violate("C10", "client-frame-exceeds-msize:"+sig, fmt.Sprintf("client emitted a frame of %d bytes, adopted msize %d", tap.sizes[len(tap.sizes)-1], ms), rep)
		}
		cli.Close()
		srv.Close()
		return
	}
	// client -> server: a 1 MiB write must leave as one frame of exactly msize
	wdone := make(chan int, 1)
	go func() { n, _ := r.s.Write(bg, 7, make([]byte, 1<<20), 0); wdone <- n }()
	var tw p9p.Fcall
	if err := raw.ReadFcall(bg, &tw); err != nil {
		res.Violate("C10", "client-write-lost:"+sig, err.Error(), rep)
		return
	}
	if w, ok := tw.Message.(p9p.MessageTwrite); !ok || len(w.Data) != ms-23 {
		res.Violate("C10", "client-write-size:"+sig, fmt.Sprintf("1 MiB write arrived as %v with %d data bytes; msize %d allows exactly %d", tw.Type, len(w.Data), ms, ms-23), rep)
	}
	raw.WriteFcall(bg, &p9p.Fcall{Type: p9p.Rwrite, Tag: tw.Tag, Message: p9p.MessageRwrite{Count: uint32(ms - 23)}})
	<-wdone
	// a 1 MiB read: count lowered so the reply fits; a reply of exactly msize is accepted
	rdone := make(chan int, 1)
	go func() { n, _ := r.s.Read(bg, 7, make([]byte, 1<<20), 0); rdone <- n }()
	var tr p9p.Fcall
	if err := raw.ReadFcall(bg, &tr); err != nil {
		res.Violate("C10", "client-read-lost:"+sig, err.Error(), rep)
		return
	}
	if rd, ok := tr.Message.(p9p.MessageTread); !ok || int(rd.Count) != ms-11 {
		res.Violate("C10", "client-read-count:"+sig, fmt.Sprintf("1 MiB read arrived as %+v; msize %d allows a count of exactly %d", tr.Message, ms, ms-11), rep)
	}
	raw.WriteFcall(bg, &p9p.Fcall{Type: p9p.Rread, Tag: tr.Tag, Message: p9p.MessageRread{Data: make([]byte, ms-11)}})
	select {
	case n := <-rdone:
		if n != ms-11 {
			res.Violate("C10", "client-refuses-exact-msize-reply:"+sig, fmt.Sprintf("a reply frame of exactly msize %d delivered %d of %d bytes", ms, n, ms-11), rep)
		}
	case <-time.After(4 * time.Second):
		res.Violate("C10", "client-refuses-exact-msize-reply:"+sig, "read did not return", rep)
	}
	for _, s := range tap.sizes[1:] {
		if s > ms {
			res.Violate("C10", "client-frame-exceeds-msize:"+sig, fmt.Sprintf("client emitted a frame of %d bytes, adopted msize %d", s, ms), rep)
		}
	}
	cli.Close()
	srv.Close()
}

// negBothCase: both real ends (CSession <-> ServeConn(SSession(S))) at a small msize m, forced by rewriting the
// msize field of the client's Tversion on the wire; then maximal traffic both ways with both directions tapped.
func negBothCase(m int, res *hx.Result) {
	rep := map[string]interface{}{"engine": "neg", "side": "both", "forced_msize": m}
	sig := fmt.Sprintf("both:m=%d", m)
	cli, srv := gconn.Pair(0)
	c2s, s2c := &frameTap{}, &frameTap{}
	cli.Tap, srv.Tap = c2s.feed, s2c.feed
	cli.BeforeWrite = func(n int, p []byte) error {
		if n == 1 && len(p) >= 11 && p[4] == byte(p9p.Tversion) {
			binary.LittleEndian.PutUint32(p[7:], uint32(m))
		}
		return nil
	}
	s := &recS{}
	ctx, cancel := context.WithTimeout(context.Background(), 10*time.Second)
	defer cancel()
	done := make(chan struct{})
	go func() { p9p.ServeConn(ctx, srv, p9p.SSession(s)); close(done) }()
	sess, err := p9p.CSession(ctx, cli)
	if err != nil {
		res.Violate("C10", "both-ends-session-failed:"+sig, err.Error(), rep)
		return
	}
	if ms, _ := sess.Version(); ms != m {
		res.Violate("C10", "both-ends-disagree:"+sig, fmt.Sprintf("server was offered %d and answered it; client adopted %d", m, ms), rep)
		return
	}
	// write 1 MiB: must arrive at S as exactly m-23 bytes, reported back as a short write
	s.n = m - 23
	n, werr := sess.Write(ctx, 1, make([]byte, 1<<20), 5)
	if n != m-23 || werr == nil || len(s.calls) != 1 || s.calls[0].Len != m-23 {
		seen := -1
		if len(s.calls) > 0 {
			seen = s.calls[0].Len
		}
		res.Violate("C10", "both-ends-write:"+sig, fmt.Sprintf("1 MiB write at msize %d: caller got n=%d err=%v, the served session saw %d bytes; expected %d", m, n, werr, seen, m-23), rep)
	}
	// read 1 MiB: S is asked for m-11 bytes, the reply of exactly msize is accepted
	s.mu.Lock()
	s.calls = nil
	s.mu.Unlock()
	s.n = 1 << 20
	rn, rerr := sess.Read(ctx, 1, make([]byte, 1<<20), 0)
	if rn != m-11 || rerr != nil || len(s.calls) != 1 || s.calls[0].Len != m-11 {
		seen := -1
		if len(s.calls) > 0 {
			seen = s.calls[0].Len
		}
		res.Violate("C10", "both-ends-read:"+sig, fmt.Sprintf("1 MiB read at msize %d: caller got n=%d err=%v, the served session was asked for %d bytes; expected %d", m, rn, rerr, seen, m-11), rep)
	}
	for dir, t := range map[string]*frameTap{"client": c2s, "server": s2c} {
		t.mu.Lock()
		for i, sz := range t.sizes {
			if sz > m && !(dir == "client" && i == 0) && !(dir == "server" && i == 0 && sz <= 19) {
				res.Violate("C10", "both-ends-frame-exceeds-msize:"+sig, fmt.Sprintf("the %s emitted a frame of %d bytes after msize %d was agreed", dir, sz, m), rep)
			}
		}
		t.mu.Unlock()
	}
	cli.Close()
	<-done
}

func Neg(args []string) {
	fl := flag.NewFlagSet("neg", flag.ExitOnError)
	vec := fl.String("vectors", "", "ndjson from NegVectors.tla")
	out := fl.String("out", "", "result file")
	fl.Parse(args)
	res := hx.NewResult()
	defer res.Write(*out)
	var lines []negLine
	if err := hx.ReadNDJSON(*vec, func(b []byte) error {
		var l negLine
		if err := json.Unmarshal(b, &l); err != nil {
			return err
		}
		lines = append(lines, l)
		return nil
	}); err != nil {
		res.Set("error", err.Error())
		return
	}
	var wg sync.WaitGroup
	sem := make(chan struct{}, 16)
	distinct := 0
	for i, l := range lines {
		versions := []string{"9P2000"}
		if l.T == "server" && l.Kind == "Tversion" {
			versions = []string{"9P2000", "9P2000.u", "", "unknown"}
		}
		nv := 2
		if l.T != "server" {
			nv = 7 // (client side: the variant also selects the version string of the server's answer)
		}
		for vi, ver := range versions {
			for variant := 0; variant < nv; variant++ {
				wg.Add(1)
				sem <- struct{}{}
				distinct++
				go func(l negLine, ver string, variant int) {
					defer wg.Done()
					defer func() { <-sem }()
					if l.T == "server" {
						negServerCase(l, ver, variant, res)
					} else {
						negClientCase(l, variant, res)
					}
				}(l, ver, variant+2*(vi%2))
				res.Evaluations++
			}
		}
		if i%17 == 0 {
			res.Sample(l)
		}
	}
	wg.Wait()
	for _, m := range []int{24, 25, 31, 64, 100, 4096, 65535} {
		negBothCase(m, res)
		res.Evaluations++
		distinct++
	}
	res.Distinct = distinct
}
