// Package sfs is a scripted p9p.FileSys: every call on it is matched against
// the expectation list of the current model step and answers with the scripted
// outcome.  Entry objects count their releases and remember uses after release.
package sfs

import (
	"context"
	"fmt"
	"sync"

	p9p "github.com/frobnitzem/go-p9p"
)

// Expect is one FileSys call the model expects the session to make.
type Expect struct {
	Call string `json:"call"`
	H    int    `json:"h"`   // model handle the call is made on (0: the FileSys itself)
	Out  string `json:"out"` // ok | fail | nil | partial
	NH   int    `json:"nh"`  // model handle of the entry handed out (0: none)
	K    int    `json:"k"`   // number of qids returned by a walk
	Dir  bool   `json:"dir"` // kind of the entry handed out
}

// Handle is a real Dirent object handed to the session.
type Handle struct {
	fs          *FS
	ID          int // unique object id (also Qid.Path)
	MH          int // model handle id it was registered under
	IsDir       bool
	Placeholder bool

	Clunks, Removes, Consumed int
	UsedAfterRelease          []string
	Calls                     int
}

func (h *Handle) Released() int { return h.Clunks + h.Removes + h.Consumed }

// Event is one FileSys call observed (script or probe mode).
type Event struct {
	Call string
	H    *Handle
	Note string
}

type FS struct {
	mu       sync.Mutex
	nextID   int
	Reg      map[int]*Handle // model handle -> current real object
	All      []*Handle
	script   []Expect
	pos      int
	Problems []string // mismatches between script and real calls of the current step
	probe    bool
	Log      []Event // calls seen in probe mode
	Scripted []Event // calls seen in script mode (current step)
	// scripted qids of the last walk
	WalkQids []p9p.Qid
	// Gate, when set, is called on entry (enter=true) and exit of every call in script mode.
	Gate func(ctx context.Context, enter bool, call string, h *Handle)
	// Free mode: no script; outcomes decided by Decide.
	Decide func(call string, h *Handle) Expect
	// DecideCtx, when set, takes precedence over Decide.
	DecideCtx func(ctx context.Context, call string, h *Handle) Expect
	// DirIter, when set, provides the listing iterator of every OpenDir.
	DirIter func() p9p.ReadNext
	// QidGate, when set, is called on entry and exit of every Dirent.Qid call the session makes
	// (a call on the entry like any other, but without a context).
	QidGate func(enter bool, h *Handle)
}

func New() *FS { return &FS{Reg: map[int]*Handle{}} }

func (fs *FS) NewHandle(mh int, dir bool) *Handle {
	fs.nextID++
	h := &Handle{fs: fs, ID: fs.nextID, MH: mh, IsDir: dir}
	fs.All = append(fs.All, h)
	if mh != 0 {
		fs.Reg[mh] = h
	}
	return h
}

func (fs *FS) SetScript(s []Expect) {
	fs.mu.Lock()
	defer fs.mu.Unlock()
	fs.script, fs.pos, fs.Problems, fs.probe, fs.Scripted = s, 0, nil, false, nil
}

// EndScript returns the problems of the step (unexpected, missing calls).
func (fs *FS) EndScript() []string {
	fs.mu.Lock()
	defer fs.mu.Unlock()
	p := fs.Problems
	for i := fs.pos; i < len(fs.script); i++ {
		p = append(p, fmt.Sprintf("expected FileSys call %s on entry h%d was not made", fs.script[i].Call, fs.script[i].H))
	}
	fs.script, fs.pos, fs.Problems = nil, 0, nil
	return p
}

func (fs *FS) StartProbe() {
	fs.mu.Lock()
	defer fs.mu.Unlock()
	fs.probe, fs.Log = true, nil
}

func (fs *FS) EndProbe() []Event {
	fs.mu.Lock()
	defer fs.mu.Unlock()
	fs.probe = false
	l := fs.Log
	fs.Log = nil
	return l
}

func ErrFS(call string) error { return p9p.MessageRerror{Ename: "fs:" + call + " failed"} }

// call is the single entry point of every FileSys / Dirent / File method.
func (fs *FS) call(ctx context.Context, call string, h *Handle) (e Expect, scripted bool) {
	if fs.Gate != nil && !fs.probe {
		fs.Gate(ctx, true, call, h)
		defer fs.Gate(ctx, false, call, h)
	}
	fs.mu.Lock()
	defer fs.mu.Unlock()
	if h != nil {
		h.Calls++
		if h.Released() > 0 {
			h.UsedAfterRelease = append(h.UsedAfterRelease, call)
		}
	}
	if fs.probe {
		fs.Log = append(fs.Log, Event{Call: call, H: h})
		return Expect{Call: call, Out: "probe"}, false
	}
	if fs.Decide != nil {
		fs.mu.Unlock()
		var e Expect
		if fs.DecideCtx != nil {
			e = fs.DecideCtx(ctx, call, h)
		} else {
			e = fs.Decide(call, h)
		}
		fs.mu.Lock()
		return e, true
	}
	fs.Scripted = append(fs.Scripted, Event{Call: call, H: h})
	if fs.pos >= len(fs.script) {
		fs.Problems = append(fs.Problems, fmt.Sprintf("unexpected FileSys call %s on %s (script exhausted)", call, h.desc()))
		return Expect{Call: call, Out: "unscripted"}, false
	}
	want := fs.script[fs.pos]
	okH := (want.H == 0 && h == nil) || (h != nil && !h.Placeholder && fs.Reg[want.H] == h)
	if want.Call != call || !okH {
		fs.Problems = append(fs.Problems, fmt.Sprintf("unexpected FileSys call %s on %s, expected %s on entry h%d", call, h.desc(), want.Call, want.H))
		return Expect{Call: call, Out: "unscripted"}, false
	}
	fs.pos++
	return want, true
}

func (h *Handle) desc() string {
	if h == nil {
		return "filesys"
	}
	if h.Placeholder {
		return fmt.Sprintf("placeholder#%d", h.ID)
	}
	return fmt.Sprintf("entry#%d(h%d)", h.ID, h.MH)
}

// ---------------------------------------------------------------- FileSys

func (fs *FS) RequireAuth(ctx context.Context) bool { return false }
func (fs *FS) Auth(ctx context.Context, uname, aname string) (p9p.AuthFile, error) {
	return nil, p9p.MessageRerror{Ename: "no auth"}
}

func (fs *FS) Attach(ctx context.Context, uname, aname string, af p9p.AuthFile) (p9p.Dirent, error) {
	e, ok := fs.call(ctx, "attach", nil)
	if ok && e.Out == "failboth" {
		return fs.placeholder(), ErrFS("attach")
	}
	if !ok || e.Out != "ok" {
		return nil, ErrFS("attach")
	}
	fs.mu.Lock()
	defer fs.mu.Unlock()
	return fs.NewHandle(e.NH, e.Dir), nil
}

// ----------------------------------------------------------------- Dirent

func (h *Handle) Qid() p9p.Qid {
	if g := h.fs.QidGate; g != nil && !h.Placeholder {
		g(true, h)
		defer g(false, h)
	}
	return h.qid()
}

func (h *Handle) qid() p9p.Qid {
	q := p9p.Qid{Path: uint64(h.ID), Version: uint32(h.ID) * 3}
	if h.IsDir {
		q.Type = p9p.QTDIR
		if h.ID%3 == 0 {
			q.Type |= p9p.QTTMP // a directory is whatever carries the QTDIR bit: other bits may be set too
		}
	} else if h.ID%3 == 0 {
		q.Type = p9p.QTAPPEND
	}
	return q
}

func (h *Handle) StatDir() p9p.Dir {
	return p9p.Dir{Qid: h.qid(), Name: fmt.Sprintf("e%d", h.ID), Length: uint64(h.ID)}
}

func (h *Handle) OpenDir(ctx context.Context) (p9p.ReadNext, error) {
	e, ok := h.fs.call(ctx, "opendir", h)
	switch {
	case ok && e.Out == "failboth":
		return func(context.Context) ([]p9p.Dir, error) { return nil, nil }, ErrFS("opendir")
	case !ok && e.Out != "probe", e.Out == "fail":
		return nil, ErrFS("opendir")
	case e.Out == "nil":
		return nil, nil
	}
	if h.fs.DirIter != nil {
		return h.fs.DirIter(), nil
	}
	return func(context.Context) ([]p9p.Dir, error) { return nil, nil }, nil
}

func (h *Handle) Walk(ctx context.Context, names ...string) ([]p9p.Qid, p9p.Dirent, error) {
	e, ok := h.fs.call(ctx, "walk", h)
	fs := h.fs
	fs.mu.Lock()
	defer fs.mu.Unlock()
	if n := len(fs.Scripted); n > 0 {
		fs.Scripted[n-1].Note = fmt.Sprint(names)
	}
	if ok && e.Out == "failboth" {
		// results that accompany an error are void: the entry must be neither used nor released
		fs.nextID++
		ph := &Handle{fs: fs, ID: fs.nextID, Placeholder: true}
		fs.All = append(fs.All, ph)
		return []p9p.Qid{{Path: 99}}, ph, ErrFS("walk")
	}
	if !ok || e.Out == "fail" {
		return nil, nil, ErrFS("walk")
	}
	if fs.Decide != nil && e.Out == "ok" {
		e.K = len(names)
	}
	qids := make([]p9p.Qid, e.K)
	for i := range qids {
		fs.nextID++
		qids[i] = p9p.Qid{Path: uint64(100000 + fs.nextID), Version: uint32(i)}
	}
	fs.WalkQids = qids
	switch e.Out {
	case "nil":
		return qids, nil, nil
	case "partial":
		fs.nextID++
		ph := &Handle{fs: fs, ID: fs.nextID, Placeholder: true}
		fs.All = append(fs.All, ph)
		return qids, ph, nil
	}
	nh := fs.NewHandle(e.NH, e.Dir)
	if len(qids) > 0 {
		qids[len(qids)-1] = nh.qid()
	}
	return qids, nh, nil
}

func (h *Handle) Create(ctx context.Context, name string, perm uint32, mode p9p.Flag) (p9p.Dirent, p9p.File, error) {
	e, ok := h.fs.call(ctx, "create", h)
	if ok && e.Out == "failboth" {
		ph := h.fs.placeholder()
		return ph, &HFile{H: ph}, ErrFS("create")
	}
	if !ok || e.Out != "ok" {
		return nil, nil, ErrFS("create")
	}
	fs := h.fs
	fs.mu.Lock()
	defer fs.mu.Unlock()
	h.Consumed++ // by contract the directory entry is consumed by a successful create
	nh := fs.NewHandle(e.NH, e.Dir)
	if n := len(fs.Scripted); n > 0 {
		fs.Scripted[n-1].Note = fmt.Sprintf("%s perm=%#o mode=%d", name, perm, mode)
	}
	return nh, &HFile{H: nh}, nil
}

func (h *Handle) Open(ctx context.Context, mode p9p.Flag) (p9p.File, error) {
	e, ok := h.fs.call(ctx, "open", h)
	switch {
	case ok && e.Out == "failboth":
		// a file handed back together with an error is void
		return &HFile{H: h, Void: true}, ErrFS("open")
	case !ok && e.Out != "probe", e.Out == "fail":
		return nil, ErrFS("open")
	case e.Out == "nil":
		return nil, nil
	}
	return &HFile{H: h}, nil
}

func (h *Handle) Remove(ctx context.Context) error {
	e, ok := h.fs.call(ctx, "remove", h)
	h.fs.mu.Lock()
	h.Removes++
	h.fs.mu.Unlock()
	if !ok && e.Out != "probe" || e.Out == "fail" {
		return ErrFS("remove")
	}
	return nil
}

func (h *Handle) Clunk(ctx context.Context) error {
	e, ok := h.fs.call(ctx, "clunk", h)
	h.fs.mu.Lock()
	h.Clunks++
	h.fs.mu.Unlock()
	if !ok && e.Out != "probe" || e.Out == "fail" {
		return ErrFS("clunk")
	}
	return nil
}

func (h *Handle) Stat(ctx context.Context) (p9p.Dir, error) {
	e, ok := h.fs.call(ctx, "stat", h)
	if !ok && e.Out != "probe" || e.Out == "fail" {
		return p9p.Dir{}, ErrFS("stat")
	}
	return h.StatDir(), nil
}

func (h *Handle) WStat(ctx context.Context, d p9p.Dir) error {
	e, ok := h.fs.call(ctx, "wstat", h)
	if !ok && e.Out != "probe" || e.Out == "fail" {
		return ErrFS("wstat")
	}
	return nil
}

// ------------------------------------------------------------------- File

type HFile struct {
	H    *Handle
	Void bool // handed out together with an error: any use is a use of a void result
}

func (fs *FS) placeholder() *Handle {
	fs.mu.Lock()
	defer fs.mu.Unlock()
	fs.nextID++
	ph := &Handle{fs: fs, ID: fs.nextID, Placeholder: true}
	fs.All = append(fs.All, ph)
	return ph
}

func (f *HFile) Pattern(n int) []byte {
	b := make([]byte, n)
	for i := range b {
		b[i] = byte(f.H.ID*7 + i)
	}
	return b
}

func (f *HFile) Read(ctx context.Context, p []byte, off int64) (int, error) {
	call := "read"
	if f.Void {
		call = "read-on-void-file"
	}
	e, ok := f.H.fs.call(ctx, call, f.H)
	if !ok && e.Out != "probe" || e.Out == "fail" {
		return 0, ErrFS("read")
	}
	if e.Out == "probe" {
		return 0, nil
	}
	return copy(p, f.Pattern(5)), nil
}

func (f *HFile) Write(ctx context.Context, p []byte, off int64) (int, error) {
	call := "write"
	if f.Void {
		call = "write-on-void-file"
	}
	e, ok := f.H.fs.call(ctx, call, f.H)
	if !ok && e.Out != "probe" || e.Out == "fail" {
		return 0, ErrFS("write")
	}
	return len(p), nil
}

func (f *HFile) IOUnit() int { return 0 }
