// Package gconn is an in-memory net.Conn pair with gates and fault injection:
// bounded or unbounded byte pipes, read errors / EOF at a chosen byte offset,
// write calls that park and then fail or succeed, taps on every write.
package gconn

import (
	"errors"
	"io"
	"net"
	"sync"
	"time"
)

type timeoutErr struct{}

func (timeoutErr) Error() string   { return "i/o timeout" }
func (timeoutErr) Timeout() bool   { return true }
func (timeoutErr) Temporary() bool { return true }

// ErrInjected is the error delivered by injected read/write faults.
var ErrInjected = errors.New("injected connection fault")

// half is one direction of the connection.
type half struct {
	mu       sync.Mutex
	cond     *sync.Cond
	buf      []byte
	cap      int   // 0: unbounded
	weof     bool  // writer closed: readers get EOF once drained
	rclosed  bool  // reader side closed: writers fail
	rerr     error // delivered to the reader once failAt bytes have been read
	failAt   int64 // absolute read offset at which rerr strikes (-1: none)
	nread    int64
	rdl, wdl time.Time
	chunk    func() int // max bytes returned per Read (nil: all available)
}

func newHalf(capacity int) *half {
	h := &half{cap: capacity, failAt: -1}
	h.cond = sync.NewCond(&h.mu)
	return h
}

func (h *half) wakeAt(t time.Time) {
	if t.IsZero() {
		return
	}
	d := time.Until(t)
	if d < 0 {
		d = 0
	}
	time.AfterFunc(d+time.Millisecond, func() { h.mu.Lock(); h.cond.Broadcast(); h.mu.Unlock() })
}

func (h *half) read(p []byte) (int, error) {
	h.mu.Lock()
	defer h.mu.Unlock()
	for {
		if h.rclosed {
			return 0, io.ErrClosedPipe
		}
		if h.failAt >= 0 && h.nread >= h.failAt {
			return 0, h.rerr
		}
		// like net.Conn: once the deadline has passed every read fails until it is set again,
		// whether or not data is waiting
		if !h.rdl.IsZero() && !time.Now().Before(h.rdl) {
			return 0, timeoutErr{}
		}
		if len(h.buf) > 0 {
			n := len(p)
			if n > len(h.buf) {
				n = len(h.buf)
			}
			if h.failAt >= 0 && int64(n) > h.failAt-h.nread {
				n = int(h.failAt - h.nread)
			}
			if h.chunk != nil {
				if c := h.chunk(); c > 0 && c < n {
					n = c
				}
			}
			copy(p, h.buf[:n])
			h.buf = h.buf[n:]
			h.nread += int64(n)
			h.cond.Broadcast()
			return n, nil
		}
		if h.weof {
			return 0, io.EOF
		}
		if !h.rdl.IsZero() && !time.Now().Before(h.rdl) {
			return 0, timeoutErr{}
		}
		h.cond.Wait()
	}
}

func (h *half) write(p []byte) (int, error) {
	h.mu.Lock()
	defer h.mu.Unlock()
	written := 0
	for len(p) > 0 {
		if h.rclosed || h.weof {
			return written, io.ErrClosedPipe
		}
		// like net.Conn: a write under a deadline that has passed fails at once, room or not
		if !h.wdl.IsZero() && !time.Now().Before(h.wdl) {
			return written, timeoutErr{}
		}
		room := len(p)
		if h.cap > 0 {
			room = h.cap - len(h.buf)
			if room > len(p) {
				room = len(p)
			}
		}
		if room > 0 {
			h.buf = append(h.buf, p[:room]...)
			p = p[room:]
			written += room
			h.cond.Broadcast()
			continue
		}
		if !h.wdl.IsZero() && !time.Now().Before(h.wdl) {
			return written, timeoutErr{}
		}
		h.cond.Wait()
	}
	return written, nil
}

// Conn is one end of the pair.
type Conn struct {
	in, out *half
	name    string

	mu     sync.Mutex
	nwrite int
	// BeforeWrite, if set, is called with the 1-based index of the Write call and
	// its bytes before anything is written; it may block; a non-nil error fails the call.
	BeforeWrite func(n int, p []byte) error
	// Tap, if set, sees every successfully written byte slice.
	Tap func(p []byte)
}

// Pair returns two connected ends; capacity 0 means unbounded buffering per direction.
func Pair(capacity int) (a, b *Conn) { return PairAsym(capacity, capacity) }

// PairAsym: capAB bounds what a has written and b has not read yet, capBA the other direction (0: unbounded).
func PairAsym(capAB, capBA int) (a, b *Conn) {
	ab, ba := newHalf(capAB), newHalf(capBA)
	return &Conn{in: ba, out: ab, name: "a"}, &Conn{in: ab, out: ba, name: "b"}
}

func (c *Conn) Read(p []byte) (int, error) { return c.in.read(p) }

func (c *Conn) Write(p []byte) (int, error) {
	c.mu.Lock()
	c.nwrite++
	n := c.nwrite
	bw, tap := c.BeforeWrite, c.Tap
	c.mu.Unlock()
	if bw != nil {
		if err := bw(n, p); err != nil {
			return 0, err
		}
	}
	w, err := c.out.write(p)
	if tap != nil && w > 0 {
		tap(p[:w])
	}
	return w, err
}

// Close closes both directions: the peer reads EOF after draining, our reads fail.
func (c *Conn) Close() error {
	c.out.mu.Lock()
	c.out.weof = true
	c.out.cond.Broadcast()
	c.out.mu.Unlock()
	c.in.mu.Lock()
	c.in.rclosed = true
	c.in.cond.Broadcast()
	c.in.mu.Unlock()
	return nil
}

// CloseWrite half-closes: the peer reads EOF after draining.
func (c *Conn) CloseWrite() {
	c.out.mu.Lock()
	c.out.weof = true
	c.out.cond.Broadcast()
	c.out.mu.Unlock()
}

// FailPeerReadAt makes the peer's reads fail with err once it has consumed off bytes in total.
func (c *Conn) FailPeerReadAt(off int64, err error) {
	c.out.mu.Lock()
	c.out.failAt, c.out.rerr = off, err
	c.out.cond.Broadcast()
	c.out.mu.Unlock()
}

// FailPeerReadNow makes the peer's reads fail as soon as it has consumed what was written so far.
func (c *Conn) FailPeerReadNow(err error) {
	c.out.mu.Lock()
	c.out.failAt, c.out.rerr = c.out.nread+int64(len(c.out.buf)), err
	c.out.cond.Broadcast()
	c.out.mu.Unlock()
}

// PeerConsumed returns how many bytes the peer has read from us.
func (c *Conn) PeerConsumed() int64 {
	c.out.mu.Lock()
	defer c.out.mu.Unlock()
	return c.out.nread
}

// Pending returns the number of bytes written by us and not yet read by the peer.
func (c *Conn) Pending() int {
	c.out.mu.Lock()
	defer c.out.mu.Unlock()
	return len(c.out.buf)
}

// SetReadChunk limits the size of each Read result of this end.
func (c *Conn) SetReadChunk(f func() int) {
	c.in.mu.Lock()
	c.in.chunk = f
	c.in.mu.Unlock()
}

type addr string

func (a addr) Network() string { return "gconn" }
func (a addr) String() string  { return string(a) }

func (c *Conn) LocalAddr() net.Addr  { return addr(c.name) }
func (c *Conn) RemoteAddr() net.Addr { return addr("peer-of-" + c.name) }

func (c *Conn) SetDeadline(t time.Time) error {
	c.SetReadDeadline(t)
	return c.SetWriteDeadline(t)
}

func (c *Conn) SetReadDeadline(t time.Time) error {
	c.in.mu.Lock()
	c.in.rdl = t
	c.in.cond.Broadcast()
	c.in.mu.Unlock()
	c.in.wakeAt(t)
	return nil
}

func (c *Conn) SetWriteDeadline(t time.Time) error {
	c.out.mu.Lock()
	c.out.wdl = t
	c.out.cond.Broadcast()
	c.out.mu.Unlock()
	c.out.wakeAt(t)
	return nil
}
