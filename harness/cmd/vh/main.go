// vh is the conformance harness: vh <engine> [flags] -out <result.json>
package main

import (
	"fmt"
	"io"
	"log"
	"os"
	"strconv"
	"time"

	"verif/harness/engines"
	"verif/harness/hx"
)

func main() {
	if len(os.Args) < 2 {
		fmt.Println("usage: vh <engine> [flags]")
		os.Exit(2)
	}
	log.SetOutput(io.Discard) // the library logs every closed connection
	f, ok := engines.Registry[os.Args[1]]
	if !ok {
		fmt.Println("unknown engine", os.Args[1])
		os.Exit(2)
	}
	// time budget (set by the orchestrator below its own kill timeout): when it runs out - typically because a
	// change to the library makes goroutines spin or block - what has been found so far is written out (exit 3),
	// so that violations already observed are reported instead of being lost to a timeout
	if b, err := strconv.Atoi(os.Getenv("VH_BUDGET")); err == nil && b > 0 {
		out := ""
		for i, a := range os.Args {
			if a == "-out" && i+1 < len(os.Args) {
				out = os.Args[i+1]
			}
		}
		go func() {
			time.Sleep(time.Duration(b) * time.Second)
			if r := hx.Current(); r != nil && out != "" {
				r.Set("budget_exhausted", true)
				r.Write(out)
			}
			os.Exit(3)
		}()
	}
	f(os.Args[2:])
}
