// vh is the conformance harness: vh <engine> [flags] -out <result.json>
package main

import (
	"fmt"
	"io"
	"log"
	"os"

	"verif/harness/engines"
)

func main() {
	if len(os.Args) < 2 {
		fmt.Println("usage: vh <engine> [flags]")
		os.Exit(2)
	}
	log.SetOutput(io.Discard) // the library logs every closed connection
	f, ok := engines.Registry[os.Args[1]]
	if !ok {
		fmt.Println("unknown engine", os.Args[1])
		os.Exit(2)
	}
	f(os.Args[2:])
}
